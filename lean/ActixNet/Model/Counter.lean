import ActixNet.Generated.Src
/-!
# Model of `local_waker::LocalWaker` and `actix_utils::counter::Counter` (C17; `LocalWaker` is also
used by `Model/Chan.lean`, C16)

* `LocalWaker` is the `Cell<Option<Waker>>` of local-waker/src/lib.rs:44-67; wakers are identified
  by a `WakerId` (the harness uses one counting waker per id, so wake-ups are observable per id).
* `Counter` is `CounterInner {count, capacity, task}` of actix-utils/src/counter.rs:43-69.  Its three
  methods are **not written by hand**: they call the kernels `Src.ucInc / Src.ucDec / Src.ucAvailable`
  which `tools/extract.py` regenerates from counter.rs on every check run.  The kernels tell the model
  *what the new count is*, *whether `task.wake()` is executed* and *whether `task.register(..)` is
  executed*; the model supplies the `LocalWaker` semantics of those two effects.
* `Sys` is a counter together with its live guards and `Counter` handles (clones share the inner;
  a handle can be dropped while guards live on).  `Counter::get` is never refused: the counter gates
  through `available` only, so histories go above the capacity.  `Debug` of a handle / guard prints
  `count` and `capacity` (`Op.debug`, `Op.debugGuard`).
* `Spec` is a kernel-free reference ("number of live guards", "waker most recently answered
  *unavailable* and not woken since") that the theorems of `Props/C17.lean` compare the model with.
-/
namespace ActixNet

abbrev WakerId := Nat

/-- `local_waker::LocalWaker`: at most one registered waker -/
structure LocalWaker where
  waker : Option WakerId := none
deriving Repr, DecidableEq

namespace LocalWaker

/-- `register`: `self.waker.replace(Some(w)).is_some()` -/
def register (l : LocalWaker) (w : WakerId) : LocalWaker × Bool := ({ waker := some w }, l.waker.isSome)

/-- `take`: `self.waker.take()` -/
def take (l : LocalWaker) : LocalWaker × Option WakerId := ({ waker := none }, l.waker)

/-- `wake`: `if let Some(w) = self.take() { w.wake() }`; the second component is the waker woken -/
def wake (l : LocalWaker) : LocalWaker × Option WakerId := l.take

/-- operations of the stand-alone `LocalWaker` histories of C17 -/
inductive Op where
  | register (w : WakerId)
  | wake
  | take
deriving Repr, DecidableEq

inductive Obs where
  | registered (was : Bool)          -- return value of `register`
  | woke (w : Option WakerId)        -- which waker `wake` woke (none: no-op)
  | took (w : Option WakerId)        -- which waker `take` returned
deriving Repr, DecidableEq

def step (l : LocalWaker) : Op → LocalWaker × Obs
  | .register w => ((l.register w).1, .registered (l.register w).2)
  | .wake => (l.wake.1, .woke l.wake.2)
  | .take => (l.take.1, .took l.take.2)

/-- state after a history, from a fresh `LocalWaker::new()` -/
def run (ops : List Op) : LocalWaker := ops.foldl (fun l op => (step l op).1) {}

/-- a history with its observations -/
def runObs (l : LocalWaker) : List Op → LocalWaker × List Obs
  | [] => (l, [])
  | op :: ops => ((runObs (step l op).1 ops).1, (step l op).2 :: (runObs (step l op).1 ops).2)

/-- **Re-entrant wakers** of the stand-alone histories: a waker whose `wake()` runs its task inline,
and that task calls back into the *same* `LocalWaker` before `wake()` returns — woken, waker `4`
registers waker `1`, waker `5` registers itself again.  `LocalWaker::wake` takes the stored waker out
*before* calling it, so the callback finds the cell empty and what it registers stays registered:
a wake with a re-entrant callback is the wake followed by the callback's operations. -/
def callback : Option WakerId → List Op
  | some 4 => [.register 1]
  | some 5 => [.register 5]
  | _ => []

/-- one operation as the line protocol sees it: a `wake` includes the callback of the waker it woke -/
def stepRe (l : LocalWaker) (op : Op) : LocalWaker × List Obs :=
  match (step l op).2 with
  | .woke w => ((runObs (step l op).1 (callback w)).1, .woke w :: (runObs (step l op).1 (callback w)).2)
  | o => ((step l op).1, [o])

/-- **Wakers whose drop wakes**: waker `6` of the stand-alone histories is the last owner of something
whose destructor calls `wake()` on the same `LocalWaker` (a parked task that, dropped, releases what it
holds).  It is dropped un-woken when a later `register` displaces it.  `register` is
`self.waker.replace(Some(new))`: the new waker is stored **before** the displaced one is dropped, so the
wake made by that drop reaches the new waker — a `register` that displaces waker `6` is the `register`
followed by a `wake` (with the callback of the waker that wake wakes). -/
def stepLine (l : LocalWaker) (op : Op) : LocalWaker × List Obs :=
  match op with
  | .register _ =>
    if l.waker = some 6 then ((stepRe (step l op).1 .wake).1, (step l op).2 :: (stepRe (step l op).1 .wake).2)
    else stepRe l op
  | _ => stepRe l op

/-- kernel-free reference: a waker is outstanding iff the last operation was a `register` -/
def outstanding (ops : List Op) : Option WakerId :=
  match ops.getLast? with
  | some (.register w) => some w
  | _ => none

end LocalWaker

namespace Counter

/-- `CounterInner` -/
structure Counter where
  count : Nat
  capacity : Nat
  task : LocalWaker := {}
deriving Repr, DecidableEq

/-- `CounterInner::inc` (kernel `ucInc`) -/
def Counter.inc (c : Counter) : Counter := { c with count := Src.ucInc c.count c.capacity }

/-- `CounterInner::dec` (kernel `ucDec`: new count, and whether `task.wake()` runs) -/
def Counter.dec (c : Counter) : Counter × Option WakerId :=
  if (Src.ucDec c.count c.capacity false).2 then
    ({ c with count := (Src.ucDec c.count c.capacity false).1, task := c.task.wake.1 }, c.task.wake.2)
  else
    ({ c with count := (Src.ucDec c.count c.capacity false).1 }, none)

/-- `CounterInner::available` (kernel `ucAvailable`: answer, and whether `task.register(w)` runs) -/
def Counter.available (c : Counter) (w : WakerId) : Counter × Bool :=
  if (Src.ucAvailable c.count c.capacity false).2 then
    ({ c with task := (c.task.register w).1 }, (Src.ucAvailable c.count c.capacity false).1)
  else
    (c, (Src.ucAvailable c.count c.capacity false).1)

/-- Waker ids `≥ 4` are **inline-polling** wakers: `Waker::wake` polls the woken task on the spot,
i.e. it re-enters the counter from inside `task.wake()` — reads `total()` and asks `available(cx)`
with its own waker (a synchronous executor, a `FuturesUnordered`-style waker).  Ids `0..3` only count. -/
def inlineWaker (w : WakerId) : Bool := decide (4 ≤ w ∧ w < 100)

/-- A guard drop as the woken task experiences it: `dec`, and — if the waker it wakes polls inline —
that task's `total()` and `available(cx)`.  The property says the task is woken *when the drop has
brought the count below the capacity*: the inline poll runs on the state `dec` leaves behind
(`dec.1`: count already decremented, waker already taken), not on a half-updated one.
Second component: what the inline poll saw (`total`, answer of `available`), `none` if nobody polled inline. -/
def Counter.release (c : Counter) : Counter × Option (Nat × Bool) :=
  match c.dec.2 with
  | some w =>
    if inlineWaker w then ((c.dec.1.available w).1, some (c.dec.1.count, (c.dec.1.available w).2))
    else (c.dec.1, none)
  | none => (c.dec.1, none)

/-- a counter, its live guards (ids in creation order) and its `Counter` handles: `handles` ids have
been handed out (`Counter::new` = 0, then one per `clone`), the ones in `deadHandles` were dropped.
Handles and guards all own the same `Rc<CounterInner>`: dropping a handle changes nothing else. -/
structure Sys where
  ctr : Counter
  guards : List Nat := []
  nextGuard : Nat := 0
  handles : Nat := 1
  deadHandles : List Nat := []
deriving Repr, DecidableEq

def init (cap : Nat) : Sys := { ctr := { count := 0, capacity := cap } }

/-- `h` names a `Counter` handle that has been created and not dropped -/
def Sys.hasHandle (s : Sys) (h : Nat) : Bool := decide (h < s.handles) && !s.deadHandles.contains h

inductive Op where
  | acquire (h : Nat)                 -- `handles[h].get()`
  | drop (g : Nat)                    -- drop the live guard `g` (normally, or during an unwind that is caught)
  | available (h : Nat) (w : WakerId) -- `handles[h].available(cx)` with the waker `w`
  | clone (h : Nat)                   -- `handles[h].clone()`
  | total (h : Nat)                   -- `handles[h].total()`
  | dropHandle (h : Nat)              -- `drop(handles[h])` (guards stay alive)
  | debug (h : Nat)                   -- `format!("{:?}", handles[h])`
  | debugGuard (g : Nat)              -- `format!("{:?}", guards[g])`
deriving Repr, DecidableEq

inductive Obs where
  | guard (id : Nat)
  | dropped (woke : Option WakerId) (saw : Option (Nat × Bool))   -- `saw`: what an inline-polling woken task saw
  | avail (b : Bool)
  | handle (id : Nat)
  | total (n : Nat)
  | handleDropped
  | debug (guard : Bool) (count capacity : Nat)   -- the `count` / `capacity` fields `Debug` prints
deriving Repr, DecidableEq

/-- one operation; `none` = not applicable (`bad-op`: unknown or dropped handle, guard not live) -/
def step (s : Sys) : Op → Option (Sys × Obs)
  | .acquire h =>
    if s.hasHandle h then
      some ({ s with ctr := s.ctr.inc, guards := s.guards ++ [s.nextGuard], nextGuard := s.nextGuard + 1 },
            .guard s.nextGuard)
    else none
  | .drop g =>
    if g ∈ s.guards then
      some ({ s with ctr := s.ctr.release.1, guards := s.guards.erase g }, .dropped s.ctr.dec.2 s.ctr.release.2)
    else none
  | .available h w =>
    if s.hasHandle h then
      some ({ s with ctr := (s.ctr.available w).1 }, .avail (s.ctr.available w).2)
    else none
  | .clone h =>
    if s.hasHandle h then some ({ s with handles := s.handles + 1 }, .handle s.handles) else none
  | .total h =>
    if s.hasHandle h then some (s, .total s.ctr.count) else none
  | .dropHandle h =>
    if s.hasHandle h then some ({ s with deadHandles := h :: s.deadHandles }, .handleDropped) else none
  | .debug h =>
    if s.hasHandle h then some (s, .debug false s.ctr.count s.ctr.capacity) else none
  | .debugGuard g =>
    if g ∈ s.guards then some (s, .debug true s.ctr.count s.ctr.capacity) else none

/-- ids `≥ 6`: inline-polling wakers whose task, told from inside `wake()` that a slot is free, **takes
it** on the spot (`get()`), after which the next task in line asks `available` with its own (counting)
waker `w - 4` — all before `wake()`, and the guard drop that called it, return. -/
def takerWaker (w : WakerId) : Bool := decide (6 ≤ w ∧ w < 100)

/-- `get()` / `available(cx)` through a handle that is not in the table (the woken task's own clone) -/
def Sys.acquireCore (s : Sys) : Sys × Obs :=
  ({ s with ctr := s.ctr.inc, guards := s.guards ++ [s.nextGuard], nextGuard := s.nextGuard + 1 }, .guard s.nextGuard)

def Sys.availableCore (s : Sys) (w : WakerId) : Sys × Obs :=
  ({ s with ctr := (s.ctr.available w).1 }, .avail (s.ctr.available w).2)

/-- what happens inside `wake()` after the inline poll of a releasing drop (observation `o`): a taking
task that was answered "available" acquires, and the next task asks.  These are **ordinary operations
on the state the drop leaves behind** (`callback_is_sequential`): re-entrancy adds no behaviour. -/
def Sys.callback (s : Sys) : Obs → Sys × List Obs
  | .dropped (some w) (some (_, true)) =>
    if takerWaker w then
      ((s.acquireCore.1.availableCore (w - 4)).1, [s.acquireCore.2, (s.acquireCore.1.availableCore (w - 4)).2])
    else (s, [])
  | _ => (s, [])

/-- one operation as the line protocol sees it: a guard drop includes the callback of the task it woke -/
def stepRe (s : Sys) (op : Op) : Option (Sys × List Obs) :=
  match step s op with
  | none => none
  | some (s', o) => some ((s'.callback o).1, o :: (s'.callback o).2)

/-- Waker ids `≥ 100`: waker `100 + g` is the last owner of a parked task that **holds guard `g`**: if it
is dropped un-woken — displaced by the next task that is answered "unavailable" — the task goes and its
guard is released.  While it is registered the guard belongs to the task (`held`).  Woken, the task
lives on and the guard is an ordinary guard again. -/
def guardWaker (w : WakerId) : Bool := decide (100 ≤ w)

def Sys.held (s : Sys) (g : Nat) : Bool := s.ctr.task.waker == some (100 + g)

/-- One line of the protocol.  `available` that answers "unavailable" runs `task.register(new)` =
`replace(Some(new))`: the new waker is stored first, then the displaced one is dropped; if that was a
guard-owning waker its guard is released *then* — an ordinary guard drop on the state in which the new
waker is registered (so if it frees a slot, the task just answered "unavailable" is the one woken). -/
def stepLine (s : Sys) (op : Op) : Option (Sys × List Obs) :=
  match op with
  | .drop g => if s.held g then none else stepRe s op
  | .debugGuard g => if s.held g then none else stepRe s op
  | .available _ w =>
    if guardWaker w && (!s.guards.contains (w - 100) || s.held (w - 100)) then none
    else
      match stepRe s op with
      | none => none
      | some (s1, os) =>
        match s.ctr.task.waker, os with
        | some d, [.avail false] =>
          if guardWaker d then
            match stepRe s1 (.drop (d - 100)) with
            | none => none
            | some (s2, os2) => some (s2, os ++ os2)
          else some (s1, os)
        | _, _ => some (s1, os)
  | _ => stepRe s op

/-- a history of applicable operations with the observations it produced -/
def run (s : Sys) : List Op → Option (Sys × List Obs)
  | [] => some (s, [])
  | op :: ops =>
    match step s op with
    | none => none
    | some (s', o) =>
      match run s' ops with
      | none => none
      | some (s'', os) => some (s'', o :: os)

/-- Kernel-free reference state: number of live guards and the waker most recently answered
"unavailable" that has not been woken since. -/
structure Spec where
  live : Nat := 0
  pend : Option WakerId := none
deriving Repr, DecidableEq

def Spec.step (cap : Nat) (sp : Spec) : Op → Spec
  | .acquire _ => { sp with live := sp.live + 1 }
  | .drop _ => { live := sp.live - 1, pend := if sp.live = cap then none else sp.pend }
  | .available _ w => { sp with pend := if sp.live < cap then sp.pend else some w }
  | .clone _ => sp
  | .total _ => sp
  | .dropHandle _ => sp
  | .debug _ => sp
  | .debugGuard _ => sp

def specOf (cap : Nat) (ops : List Op) : Spec := ops.foldl (Spec.step cap) {}

/-- the waker that the property says a drop must wake: the pending one if this drop takes the
number of live guards from `cap` to `cap - 1`, nobody otherwise -/
def Spec.wakeOnDrop (cap : Nat) (sp : Spec) : Option WakerId := if sp.live = cap then sp.pend else none

def Op.isAvailable : Op → Bool
  | .available _ _ => true
  | _ => false

end Counter
end ActixNet
