"""T1 spans for actix-tls (C18): the two defaults of accept/mod.rs.

`DEFAULT_TLS_HANDSHAKE_TIMEOUT` is a `const`.  `MAX_CONN` is a `static … = AtomicUsize::new(256)`;
extract.py has no `static` span kind, so the initialiser is located here (same regex shape as
`find_const`) and handed to the translator's ordinary constant-expression path by wrapping
`find_const` for that one name.  (Request to the lead: a native `span_static` in extract.py.)"""
import re as _re, sys as _sys

_m = _sys.modules.get("__main__")
if _m is not None and hasattr(_m, "find_const") and not getattr(_m, "_tls_static_patch", False):
    _orig_find_const = _m.find_const

    def _find_const_or_static(src, name, _orig=_orig_find_const, _mod=_m):
        try:
            return _orig(src, name)
        except _mod.Fail:
            s = _mod.strip_comments_keep_len(src)
            mm = _re.search(r"\bstatic\s+%s\s*:\s*AtomicUsize\s*=\s*AtomicUsize::new\(([^;]+)\)\s*;" % _re.escape(name), s)
            if not mm:
                raise
            return mm.group(1)

    _m.find_const = _find_const_or_static
    _m._tls_static_patch = True

register("tls_default_handshake_timeout",
         span_const("actix-tls/src/accept/mod.rs", "DEFAULT_TLS_HANDSHAKE_TIMEOUT", "tlsDefaultHandshakeTimeoutMs"))
register("tls_default_max_conn",
         span_const("actix-tls/src/accept/mod.rs", "MAX_CONN", "tlsDefaultMaxConn"))
