import ActixNet.Model.Chan
import Driver.Util
/-!
Engine `local`: line protocol for C17 (`Counter`, `LocalWaker`) and C16 (`local_channel::mpsc`).

```
case <name> counter <cap> [probe]   acquire h | drop g | dropP g | avail h w | clone h | total h | dropH h | dbg h | dbgG g
case <name> lw [default]      reg w | wake | take | dbg
case <name> chan              send i x | ssend i x | clone i | dropS i | dropSP i | close i | poll w | recv w | recvNew w |
                              recvDrop | rsender | dropR | dropRP | b <op> | clonefrom <a|b> i <a|b> j | sready i w | sflush i w | sclose i w | dbgS i | dbgR
```
Every answer ends in ` woke=<ids>`: the counting wakers (ids `0..3`) woken by this operation, `-` if
none.  Operations that do not apply (unknown / dropped handle, guard, sender, waker id ≥ 4, receiver
already dropped, wrong engine) answer `bad-op` and leave the state unchanged.

`dropP g`, `dropSP i`, `dropRP` drop the guard / sender / receiver while the thread is unwinding from a
panic that is then caught: for the model a drop is a drop.  `avail h w` with `w = 4, 5` registers an
inline-polling waker: when a guard drop wakes it, the woken task reads `total()` and asks `available`
from inside `wake()`; the drop then answers `dropped saw=<total>,<available> woke=<w>`.

A `chan` case holds two channels (`Chan.Pair`): `b <op>` addresses the second one, `clonefrom a i b j` is
`a.senders[i].clone_from(&b.senders[j])` (answer `sender <new id in the channel of j>`, `woke` = the
wake-up caused by the drop of the handle's old value).

Wakers whose **drop** has a side effect: `availG h g` asks with the waker of a task that owns guard `g`
(waker `100 + g`; while it is registered `g` belongs to the task: `drop g`, `dbgG g`, `availG h g` are
`bad-op`); displaced un-woken by the next task answered "unavailable" it releases `g`:
`avail 0 freed=<g> … woke=…` (`Counter.stepLine`).  In the `lw` engine `reg 6` registers a waker whose
drop (un-woken) calls `wake()` on the same `LocalWaker` (`LocalWaker.stepLine`).

Re-entrant wakers: `avail h w` with `w = 6, 7` registers a *taking* inline waker — woken by a guard drop
it polls inline, takes the freed slot (`get()`), and the next task asks `available` with the counting
waker `w - 4`, all inside `wake()`: `dropped saw=.. took=<guard> next=<b> woke=w` (`Counter.stepRe`).
In the `lw` engine `reg 4` / `reg 5` register a waker that, woken, registers waker 1 / itself on the same
`LocalWaker` from inside `wake()`: `done rereg=<was> woke=w` (`LocalWaker.stepRe`).  Capacities are any
`usize` (up to 20 digits).

`recv w` polls the pending `recv()` future (a fresh one if none is pending), `recvNew w` drops a pending
one first; the future has no state, so both are `Chan.Op.poll .recv w` here.  `dbg` of a `LocalWaker`
is the constant `LocalWaker` and is answered here without the model.
-/
namespace Driver.Local
open Driver ActixNet

inductive State where
  | idle
  | counter (s : Counter.Sys)
  | lw (l : LocalWaker)
  | chan (p : Chan.Pair)

def init : State := .idle

def nWakers : Nat := 4

/-- ids `4..7`: inline-polling wakers (`Counter.inlineWaker`; `6, 7` also take the freed slot and let the
next task ask: `Counter.takerWaker`), accepted by the counter's `avail` only.  In the `lw` engine `reg`
accepts the re-entrant wakers `4, 5` (`LocalWaker.callback`). -/
def nInline : Nat := 4

def wokeStr : Option WakerId → String
  | none => " woke=-"
  | some w => s!" woke={w}"

def optStr : Option Nat → String
  | none => "-"
  | some w => toString w

def b01 (b : Bool) : String := if b then "1" else "0"

def counterObs : Counter.Obs → String
  | .guard id => s!"guard {id}" ++ wokeStr none
  | .dropped w saw =>
    "dropped" ++ (match saw with | some (n, b) => s!" saw={n},{b01 b}" | none => "") ++ wokeStr w
  | .avail b => s!"avail {b01 b}" ++ wokeStr none
  | .handle id => s!"handle {id}" ++ wokeStr none
  | .total n => s!"total {n}" ++ wokeStr none
  | .handleDropped => "dropped" ++ wokeStr none
  | .debug g n c =>
    "dbg " ++ (if g then "CounterGuard" else "Counter") ++ "(Counter { count: " ++ toString n ++ ", capacity: " ++
      toString c ++ ", task: LocalWaker })" ++ wokeStr none

def lwObs : LocalWaker.Obs → String
  | .registered b => s!"registered {b01 b}" ++ wokeStr none
  | .woke w => "done" ++ wokeStr w
  | .took w => s!"took {optStr w}" ++ wokeStr none

/-- `Debug` of `Sender` / `Receiver`: `derive(Debug)` over `Rc<RefCell<Shared>>` -/
def chanDebug (who : String) (buf : List Nat) (hr : Bool) : String :=
  "dbg " ++ who ++ " { shared: RefCell { value: Shared { buffer: " ++ toString buf ++
    ", blocked_recv: LocalWaker, has_receiver: " ++ (if hr then "true" else "false") ++ " } } }"

def chanObs (op : Chan.Op) : Chan.Obs → String
  | .sent true w => "ok" ++ wokeStr w
  | .sent false w =>
    -- `SendError::into_inner` hands the rejected message back
    (match op with | .send _ _ x => s!"err {x}" | _ => "err") ++ wokeStr w
  | .readyOk => "ready ok" ++ wokeStr none
  | .futDropped => "fdropped" ++ wokeStr none
  | .debug buf hr =>
    (match op with
      | .quiet (.debugSender _) => chanDebug "Sender" buf hr
      | _ => chanDebug "Receiver" buf hr) ++ wokeStr none
  | .sender id => s!"sender {id}" ++ wokeStr none
  | .senderDropped w => "dropped" ++ wokeStr w
  | .closed w => "closed" ++ wokeStr w
  | .polled (.ready (some x)) => s!"ready {x}" ++ wokeStr none
  | .polled (.ready none) => "ready none" ++ wokeStr none
  | .polled .pending => "pending" ++ wokeStr none
  | .receiverDropped => "dropped" ++ wokeStr none

/-- strict decimal (the harness uses the same rule): 1..9 ASCII digits -/
def num (s : String) : Option Nat :=
  if s.length = 0 ∨ s.length > 9 ∨ !s.all Char.isDigit then none else s.toNat?

/-- a capacity: any `usize` (1..20 digits, at most 2^64 - 1) -/
def capNum (s : String) : Option Nat :=
  if s.length = 0 ∨ s.length > 20 ∨ !s.all Char.isDigit then none
  else match s.toNat? with
    | some n => if n < 18446744073709551616 then some n else none
    | none => none

def wokeList (ws : List Nat) : String :=
  if ws.isEmpty then " woke=-" else " woke=" ++ ",".intercalate (ws.map toString)

/-- insertion sort (ascending): the harness lists the woken ids in ascending order -/
def sortNat : List Nat → List Nat
  | [] => []
  | x :: t => let r := sortNat t; (r.filter (· < x)) ++ [x] ++ (r.filter (fun y => !(y < x)))

/-- one protocol line of the counter: the main observation, then what happened inside it —
`freed=<g>` (a displaced guard-owning waker released its guard), `saw=t,b` (an inline poll inside a
wake-up), `took=<guard> next=<b>` (a taking task), and all wakers woken -/
def counterObsRe (os : List Counter.Obs) (freed : Option Nat) : String :=
  match os with
  | [] => "?"
  | o :: rest =>
    let head := match o with
      | .guard id => s!"guard {id}"
      | .dropped _ _ => "dropped"
      | .avail b => s!"avail {b01 b}"
      | .handle id => s!"handle {id}"
      | .total n => s!"total {n}"
      | .handleDropped => "dropped"
      | .debug g n c =>
        "dbg " ++ (if g then "CounterGuard" else "Counter") ++ "(Counter { count: " ++ toString n ++ ", capacity: " ++
          toString c ++ ", task: LocalWaker })"
    let fr := match freed with | some g => s!" freed={g}" | none => ""
    let saws := (o :: rest).filterMap (fun x => match x with | .dropped _ (some (n, b)) => some s!" saw={n},{b01 b}" | _ => none)
    let took := match rest.reverse with
      | .avail b :: .guard id :: _ => s!" took={id} next={b01 b}"
      | _ => ""
    let wokes := (o :: rest).filterMap (fun x => match x with | .dropped (some w) _ => some w | _ => none)
    head ++ fr ++ String.join saws ++ took ++ wokeList (sortNat wokes)

/-- one protocol line of the `lw` engine: `registered b | done | took w`, then `rereg=<was>` of a
re-entrant callback, and all wakers woken -/
def lwObsRe (os : List LocalWaker.Obs) : String :=
  match os with
  | [] => "?"
  | o :: rest =>
    let head := match o with
      | .registered b => s!"registered {b01 b}"
      | .woke _ => "done"
      | .took w => s!"took {optStr w}"
    let rereg := rest.filterMap (fun x => match x with | .registered b => some s!" rereg={b01 b}" | _ => none)
    let wokes := (o :: rest).filterMap (fun x => match x with | .woke (some w) => some w | _ => none)
    head ++ String.join rereg ++ wokeList (sortNat wokes)

def counterOp : List String → Option Counter.Op
  | ["acquire", h] => (num h).map .acquire
  | ["drop", g] => (num g).map .drop
  -- dropped during an unwind that is then caught: for the model a drop is a drop
  | ["dropP", g] => (num g).map .drop
  | ["avail", h, w] => match num h, num w with
    | some h, some w => if w < nWakers + nInline then some (.available h w) else none
    | _, _ => none
  -- `availG h g`: asked by a task that owns guard `g`; its waker (`100 + g`), dropped un-woken, releases `g`
  | ["availG", h, g] => match num h, num g with
    | some h, some g => some (.available h (100 + g))
    | _, _ => none
  | ["clone", h] => (num h).map .clone
  | ["total", h] => (num h).map .total
  | ["dropH", h] => (num h).map .dropHandle
  | ["dbg", h] => (num h).map .debug
  | ["dbgG", g] => (num g).map .debugGuard
  | _ => none

def lwOp : List String → Option LocalWaker.Op
  | ["reg", w] => match num w with
    | some w => if w < nWakers + 3 then some (.register w) else none
    | none => none
  | ["wake"] => some .wake
  | ["take"] => some .take
  | _ => none

def senderWaker (i w : String) (k : Nat → Chan.Quiet) : Option Chan.Op :=
  match num i, num w with
  | some i, some w => if w < nWakers then some (.quiet (k i)) else none
  | _, _ => none

def recvOp (w : String) (p : Chan.RecvPath) : Option Chan.Op :=
  match num w with
  | some w => if w < nWakers then some (.poll p w) else none
  | none => none

def chanOp : List String → Option Chan.Op
  | ["send", i, x] => match num i, num x with
    | some i, some x => some (.send .send i x)
    | _, _ => none
  | ["ssend", i, x] => match num i, num x with
    | some i, some x => some (.send .sink i x)
    | _, _ => none
  | ["sready", i, w] => senderWaker i w .sinkReady
  | ["sflush", i, w] => senderWaker i w .sinkFlush
  | ["sclose", i, w] => senderWaker i w .sinkClose
  | ["recv", w] => recvOp w .recv
  | ["recvNew", w] => recvOp w .recv
  | ["recvDrop"] => some (.quiet .recvDrop)
  | ["dbgS", i] => (num i).map (fun i => .quiet (.debugSender i))
  | ["dbgR"] => some (.quiet .debugReceiver)
  | ["clone", i] => (num i).map .clone
  | ["dropS", i] => (num i).map .dropSender
  | ["dropSP", i] => (num i).map .dropSender
  | ["close", i] => (num i).map .close
  | ["poll", w] => recvOp w .pollNext
  | ["rsender"] => some .senderFromReceiver
  | ["dropR"] => some .dropReceiver
  | ["dropRP"] => some .dropReceiver
  | _ => none

def sideOf : String → Option Chan.Side
  | "a" => some .a
  | "b" => some .b
  | _ => none

/-- `b <op>` goes to the second channel of the case, `clonefrom <a|b> i <a|b> j`, anything else to the first -/
def pairOp : List String → Option Chan.POp
  | "b" :: rest => (chanOp rest).map (.on .b)
  | ["clonefrom", ci, i, cj, j] => match sideOf ci, num i, sideOf cj, num j with
    | some si, some i, some sj, some j => some (.cloneFrom si i sj j)
    | _, _, _, _ => none
  | ws => (chanOp ws).map (.on .a)

def pairObs : Chan.POp → List Chan.Obs → String
  | .on _ op, [o] => chanObs op o
  -- the old value of the handle is dropped (that may wake), the handle is a new sender of the source's channel
  | .cloneFrom _ _ _ _, [o1, .sender id] => s!"sender {id}" ++ wokeStr o1.woke
  | _, _ => "?"

def step (st : State) (line : String) : State × String :=
  match words line with
  | ["case", _, "counter", cap] => match capNum cap with
    | some cap => (.counter (Counter.init cap), "ok")
    | none => (.idle, "bad-op")
  -- `probe`: the harness's oracle also asks `available` after every operation where asking changes nothing
  | ["case", _, "counter", cap, "probe"] => match capNum cap with
    | some cap => (.counter (Counter.init cap), "ok")
    | none => (.idle, "bad-op")
  | ["case", _, "lw"] => (.lw {}, "ok")
  | ["case", _, "lw", "default"] => (.lw {}, "ok")
  | ["case", _, "chan"] => (.chan {}, "ok")
  | "case" :: _ => (.idle, "bad-op")
  | ws =>
    match st with
    | .idle => (st, "bad-op")
    | .counter s => match counterOp ws with
      | none => (st, "bad-op")
      | some op => match Counter.stepLine s op with
        | none => (st, "bad-op")
        | some (s', os) =>
          -- a displaced guard-owning waker (`100 + g`) released its guard inside this `avail`
          let freed := match op, os, s.ctr.task.waker with
            | .available _ _, .avail false :: _, some d => if Counter.guardWaker d then some (d - 100) else none
            | _, _, _ => none
          (.counter s', counterObsRe os freed)
    | .lw l => match lwOp ws with
      | none => if ws = ["dbg"] then (st, "dbg LocalWaker" ++ wokeStr none) else (st, "bad-op")
      | some op => (.lw (LocalWaker.stepLine l op).1, lwObsRe (LocalWaker.stepLine l op).2)
    | .chan p => match pairOp ws with
      | none => (st, "bad-op")
      | some pop => match Chan.Pair.step p pop with
        | none => (st, "bad-op")
        | some (p', os) => (.chan p', pairObs pop os)

end Driver.Local
