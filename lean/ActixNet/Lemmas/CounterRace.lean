import ActixNet.Model.CounterRace
/-! Any interleaving of atomic increments and decrements ends where the counts say (no update is lost). -/
namespace ActixNet.Counter

theorem applyOps_count (ops : List Bool) : ∀ v, ops.count false ≤ v →
    applyOps v ops + ops.count false = v + ops.count true := by
  induction ops with
  | nil => intro v _; simp [applyOps]
  | cons b r ih =>
    intro v h
    cases b with
    | true =>
      simp only [applyOps, List.count_cons_self, List.count_cons_of_ne (by decide : (true : Bool) ≠ false)] at h ⊢
      have := ih (v + 1) (by omega); omega
    | false =>
      simp only [applyOps, List.count_cons_self, List.count_cons_of_ne (by decide : (false : Bool) ≠ true)] at h ⊢
      have := ih (v - 1) (by omega); omega

/-- As many increments as decrements, in ANY order, and a counter that started above the number of decrements:
    the counter is back where it started. -/
theorem interleaving_irrelevant (ops : List Bool) (v : Nat) (hb : ops.count true = ops.count false)
    (hv : ops.count false ≤ v) : applyOps v ops = v := by
  have := applyOps_count ops v hv; omega

theorem race_eq (v n : Nat) (h : n ≤ v) : race v n = v := by
  unfold race
  apply interleaving_irrelevant
  · simp [List.count_append, List.count_replicate]
  · simp [List.count_append, List.count_replicate]; exact h

end ActixNet.Counter
