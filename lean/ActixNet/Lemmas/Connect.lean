import ActixNet.Generated.Src
import ActixNet.Model.Connect
/-! Helper lemmas for `Props/C19.lean` (connector model). -/
namespace ActixNet.Connect

theorem splitOnce_none (cs : List Char) (h : ':' ∉ cs) : splitOnce cs = none := by
  induction cs with
  | nil => rfl
  | cons c t ih =>
    simp only [List.mem_cons, not_or] at h
    have hc : ¬ c = ':' := fun e => h.1 e.symm
    simp [splitOnce, hc, ih h.2]

theorem splitOnce_append (a b : List Char) (h : ':' ∉ a) : splitOnce (a ++ ':' :: b) = some (a, b) := by
  induction a with
  | nil => simp [splitOnce]
  | cons c t ih =>
    simp only [List.mem_cons, not_or] at h
    have hc : ¬ c = ':' := fun e => h.1 e.symm
    simp [splitOnce, hc, ih h.2]

/-- a connect attempt to `a` fails -/
def Fails {S : Type} (connect : Addr → Except Nat S) (a : Addr) : Prop := ∃ e, connect a = .error e

theorem fails_or_ok {S : Type} (connect : Addr → Except Nat S) (a : Addr) :
    Fails connect a ∨ ∃ s, connect a = .ok s := by
  unfold Fails
  cases h : connect a with
  | error e => exact .inl ⟨e, rfl⟩
  | ok s => exact .inr ⟨s, rfl⟩

/-- every list either fails everywhere or has a first address that connects -/
theorem first_ok_or_all_fail {S : Type} (connect : Addr → Except Nat S) (l : List Addr) :
    (∀ b ∈ l, Fails connect b) ∨
    ∃ pre a post s, l = pre ++ a :: post ∧ (∀ b ∈ pre, Fails connect b) ∧ connect a = .ok s := by
  induction l with
  | nil => left; intro b hb; cases hb
  | cons x t ih =>
    rcases fails_or_ok connect x with hx | ⟨s, hs⟩
    · rcases ih with hall | ⟨pre, a, post, s, hl, hpre, ha⟩
      · left; intro b hb
        rcases List.mem_cons.mp hb with rfl | hb
        · exact hx
        · exact hall b hb
      · right
        refine ⟨x :: pre, a, post, s, by simp [hl], ?_, ha⟩
        intro b hb
        rcases List.mem_cons.mp hb with rfl | hb
        · exact hx
        · exact hpre b hb
    · right
      refine ⟨[], x, t, s, rfl, ?_, hs⟩
      intro b hb
      cases hb

theorem dialLoop_first_ok {S : Type} (connect : Addr → Except Nat S) (pre : List Addr) :
    ∀ (cur : Addr) (rest : List Addr) (a : Addr) (post : List Addr) (s : S),
      cur :: rest = pre ++ a :: post → (∀ b ∈ pre, Fails connect b) → connect a = .ok s →
      dialLoop connect cur rest = (.ok s, pre ++ [a]) := by
  induction pre with
  | nil =>
    intro cur rest a post s hl _ ha
    simp at hl
    obtain ⟨rfl, rfl⟩ := hl
    cases rest <;> simp [dialLoop, ha]
  | cons p pre ih =>
    intro cur rest a post s hl hpre ha
    simp at hl
    obtain ⟨rfl, hrest⟩ := hl
    obtain ⟨e, he⟩ := hpre cur (by simp)
    cases rest with
    | nil => cases pre <;> simp at hrest
    | cons r rest' =>
      have := ih r rest' a post s hrest (fun b hb => hpre b (by simp [hb])) ha
      simp [dialLoop, he, this]

theorem dialLoop_all_fail {S : Type} (connect : Addr → Except Nat S) :
    ∀ (rest : List Addr) (cur : Addr), (∀ b ∈ cur :: rest, Fails connect b) →
      ∃ e, connect ((cur :: rest).getLast (by simp)) = .error e ∧
        dialLoop connect cur rest = (.error e, cur :: rest) := by
  intro rest
  induction rest with
  | nil =>
    intro cur h
    obtain ⟨e, he⟩ := h cur (by simp)
    exact ⟨e, by simpa using he, by simp [dialLoop, he]⟩
  | cons r rest' ih =>
    intro cur h
    obtain ⟨e, he⟩ := h cur (by simp)
    obtain ⟨e', hl, hd⟩ := ih r (fun b hb => h b (by simp at hb ⊢; right; exact hb))
    refine ⟨e', ?_, ?_⟩
    · simpa [List.getLast_cons] using hl
    · simp [dialLoop, he, hd]

/-- `dial` on a well-formed, resolved address set is `dialLoop` on its list -/
theorem dial_eq_loop {S : Type} (connect : Addr → Except Nat S) (a : Addrs) (cur : Addr) (rest : List Addr)
    (hl : a.toList = cur :: rest) (hwf : a.wf) :
    dial connect a = some { result := liftIo (dialLoop connect cur rest).1, tried := (dialLoop connect cur rest).2 } := by
  cases a with
  | none => simp [Addrs.toList] at hl
  | one x =>
    simp [Addrs.toList] at hl
    obtain ⟨rfl, rfl⟩ := hl
    rfl
  | multi l =>
    simp [Addrs.toList] at hl
    subst hl
    rfl

theorem setAddrs_toList (r : Req) (l : List Addr) : (r.setAddrs l).addr.toList = l := by
  simp only [Req.setAddrs]
  split
  · rename_i h
    match l, h with
    | [], _ => rfl
    | [a], _ => rfl
    | _ :: _ :: _, h => exact absurd h (by simp)
  · rfl

theorem setAddrs_wf (r : Req) (l : List Addr) : (r.setAddrs l).addr.wf := by
  simp only [Req.setAddrs]
  split
  · rename_i h
    match l, h with
    | [], _ => simp [Addrs.ofOption, Addrs.wf]
    | [a], _ => simp [Addrs.ofOption, Addrs.wf]
    | _ :: _ :: _, h => exact absurd h (by simp)
  · rename_i h; simp only [Addrs.wf]; omega

theorem setAddrs_unresolved_iff (r : Req) (l : List Addr) : (r.setAddrs l).addr.isUnresolved = true ↔ l = [] := by
  simp only [Req.setAddrs]
  split
  · rename_i h
    match l, h with
    | [], _ => simp [Addrs.ofOption, Addrs.isUnresolved]
    | [a], _ => simp [Addrs.ofOption, Addrs.isUnresolved]
    | _ :: _ :: _, h => exact absurd h (by simp)
  · rename_i h
    simp only [Addrs.isUnresolved]
    constructor
    · intro h'; cases h'
    · intro h'; subst h'; simp at h

theorem unresolved_iff_none (a : Addrs) : a.isUnresolved = true ↔ a = .none := by
  cases a <;> simp [Addrs.isUnresolved]

end ActixNet.Connect
