import ActixNet.Lemmas.Rt
/-!
# C10 — arbiter commands run FIFO, at most once, on the arbiter's own thread

Property theorems only, over the message-level model `ActixNet.Rt` (Model/Rt.lean); every theorem
quantifies over all schedules (`run init tr` for an arbitrary label list `tr`, client actions
included).  `sent` is the linearised send history of arbiter `i`'s command channel (send order),
`started` the order in which its `LocalSet` polled spawned futures for the first time.

In the model a task *is started by arbiter `i`* iff it appears in `(arbs i).started`; thread identity
(`Arbiter::current()`, `System::current()`, the OS thread) is therefore by construction and is
checked on the real runs by the harness (engine `rt`, `ids=ok` and the `ident` cases).
`block_on_output` is glue over an abstract future and rests on the correspondence run.
-/
namespace ActixNet.C10
open ActixNet.Rt

/-- **nothing sent after `stop()` ever starts; what started is a prefix of what was sent before.**
The start order is a prefix of the executes that precede the first `Stop` in send order. -/
theorem nothing_after_stop (tr : List Act) (i : Nat) :
    ((run init tr).arbs i).started <+: execIds (preStop ((run init tr).arbs i).sent) := by
  have h := (reach_init.run tr).all i
  have h1 : ((run init tr).arbs i).started <+:
      execIds (preStop (((run init tr).arbs i).sent.take ((run init tr).arbs i).recvd)) := by
    rw [← h.queue_eq]; exact List.prefix_append _ _
  exact h1.trans (execIds_prefix (preStop_take_prefix _ _))

/-- **FIFO.** Tasks start in the order sent: the start order is a prefix of the send order. -/
theorem fifo_start (tr : List Act) (i : Nat) :
    ((run init tr).arbs i).started <+: execIds ((run init tr).arbs i).sent :=
  (nothing_after_stop tr i).trans (execIds_prefix (List.takeWhile_prefix _))

/-- **at most once.** No task starts more often than it was sent; if every send carried a distinct
future (as in Rust, where a future is moved into `spawn`), no task starts twice. -/
theorem at_most_once (tr : List Act) (i t : Nat) :
    (((run init tr).arbs i).started.count t ≤ (execIds ((run init tr).arbs i).sent).count t) ∧
    ((execIds ((run init tr).arbs i).sent).Nodup → ((run init tr).arbs i).started.Nodup) :=
  ⟨(fifo_start tr i).sublist.count_le t, fun h => h.sublist (fifo_start tr i).sublist⟩

/-- **own thread.** A task started by arbiter `i` (on `i`'s thread) was sent to arbiter `i`. -/
theorem runs_on_own_thread (tr : List Act) (i t : Nat)
    (h : t ∈ ((run init tr).arbs i).started) : Cmd.exec t ∈ ((run init tr).arbs i).sent :=
  mem_execIds.mp ((fifo_start tr i).subset h)

/-- **`spawn` reports false once the arbiter is gone** (receiver dropped), and the command is not
enqueued; while the receiver is alive it reports true and the command is appended to the queue. -/
theorem spawn_false_when_gone (tr : List Act) (i : Nat) (c : Cmd)
    (hc : ((run init tr).arbs i).created = true) :
    (((run init tr).arbs i).gone = true →
      (step (run init tr) (.send i c)).rets = (run init tr).rets ++ [false] ∧
      (step (run init tr) (.send i c)).arbs i = (run init tr).arbs i) ∧
    (((run init tr).arbs i).gone = false →
      (step (run init tr) (.send i c)).rets = (run init tr).rets ++ [true] ∧
      ((step (run init tr) (.send i c)).arbs i).sent = ((run init tr).arbs i).sent ++ [c]) := by
  constructor
  · intro hg; simp [step, hc, hg, Arb.push]
  · intro hg; simp [step, hc, hg, Arb.push]

/-- **`join` returns only after the loop has ended**: the runner returned, its receiver is dropped
(so `spawn` is false from here on), `Deregister` is in the system queue, and no task of this arbiter
starts in any continuation of the schedule. -/
theorem join_after_loop_end (tr : List Act) (i : Nat) (hj : joinReturns (run init tr) i = true) :
    ((run init tr).arbs i).ended = true ∧ ((run init tr).arbs i).gone = true ∧
    SysCmd.deregister i ∈ (run init tr).syssent ∧
    ∀ tr', ((run (run init tr) tr').arbs i).started = ((run init tr).arbs i).started := by
  have hR := reach_init.run tr
  have hg := (hR.all i).exited_gone hj
  have he := (hR.all i).gone_ended hg
  exact ⟨he, hg, hR.exit i hj, fun tr' => ended_frozen_run he tr'⟩

/-- **`block_on` returns exactly its future's output** (glue: the future is abstracted to "pending
`pend` times, then `out`"; that the real `Runtime::block_on` behaves like this rests on the
correspondence run, `blockon` ops). -/
theorem block_on_output {α : Type} (f : Fut α) : blockOn f = some f.out :=
  blockOnFuel_spec f _ (Nat.lt_succ_self _)

/-- **T1**: the decisive source lines still have the shape the model's rules were written from
(regenerated from /repo by tools/spans/rt.py on every check) -/
theorem source_shape : sourceShapeC10 = true := by decide

/-! ### non-vacuity -/

/-- five commands, the third is `Stop`; the runner received two executes, one task has started -/
def demo : List Act :=
  [.newArb 0, .send 0 (.exec 10), .send 0 (.exec 11), .runner 0, .task 0, .send 0 .stop,
   .send 0 (.exec 12), .runner 0]

example : ((run init demo).arbs 0).sent = [.exec 10, .exec 11, .stop, .exec 12] := by decide
example : ((run init demo).arbs 0).started = [10] := by decide
example : execIds (preStop ((run init demo).arbs 0).sent) = [10, 11] := by decide
-- the batch effect of the real runner: 11 was spawned, then `Stop` was received: 11 never starts
example : ((run (run init demo) [.task 0, .runner 0, .task 0, .task 0]).arbs 0).started = [10, 11] := by decide
example : ((run (run init demo) [.runner 0, .task 0, .task 0, .runner 0, .task 0]).arbs 0).started = [10] := by decide
-- spawn racing stop: accepted (true) but never started; after `close` it is refused (false)
example : (run (run init demo) [.runner 0, .send 0 (.exec 13), .close 0, .send 0 (.exec 14)]).rets
    = [true, true, true, true, true, false] := by decide
example : joinReturns (run (run init demo) [.runner 0, .close 0, .fin 0]) 0 = true := by decide
example : blockOn ({ pend := 3, out := 42 } : Fut Nat) = some 42 := by decide

end ActixNet.C10
