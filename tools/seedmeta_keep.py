#!/usr/bin/env python3
"""tools/seedmeta_keep.py <seeded/Cxx-n>: carry the descriptive fields (what, needs, round) of the committed meta.json
over into the freshly written one, then apply ROUND2-descriptions.json"""
import json, subprocess, sys, os
d = sys.argv[1].rstrip('/')
p = os.path.join(d, 'meta.json')
m = json.load(open(p))
rel = os.path.relpath(p, '/verif')
r = subprocess.run(['git', '-C', '/verif', 'show', 'HEAD:' + rel], capture_output=True, text=True)
if r.returncode == 0:
    try:
        old = json.loads(r.stdout)
        for k in ('what', 'needs', 'round'):
            if k in old and k not in m:
                m[k] = old[k]
    except Exception:
        pass
desc = json.load(open('/verif/seeded/ROUND2-descriptions.json'))
k = os.path.basename(d)
if k in desc:
    m['what'], m['needs'] = desc[k]; m['round'] = 2
json.dump(m, open(p, 'w'), indent=1)
