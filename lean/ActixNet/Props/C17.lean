import ActixNet.Lemmas.Counter
/-!
# C17 — Counter and LocalWaker: capacity gate with a guaranteed wake on release

Property theorems only.  The model (`Model/Counter.lean`) computes `inc`/`dec`/`available` with the
kernels that `tools/extract.py` regenerates from `actix-utils/src/counter.rs` on every run, so the
statements below are about the comparisons that are in the source *now*.  All statements hold for
every capacity (0 included) and every history of applicable operations `acquire h | drop g |
available h w | clone h | total h | dropHandle h | debug h | debugGuard g`
(`run (init cap) ops = some (s, os)`: `s` is the state after `ops`, `os` the observations); `acquire` is
never refused, so histories go above the capacity.  A guard dropped while the thread unwinds from a
caught panic is `drop g` (a drop is a drop).  Waker ids `≥ 4` are inline-polling wakers: woken by a
guard drop they re-enter the counter from inside `wake()` (`Counter.release`), and the drop's
observation carries what they saw.

The reference notions are kernel-free: "number of live guards" is `s.guards.length` (a guard id is
appended by `acquire` and erased by `drop`), and `specOf cap ops` computes from the history alone the
waker most recently answered "unavailable" that has not been woken since (`pend`).
-/
namespace ActixNet.C17
open ActixNet ActixNet.Counter

/-- `Counter::available` answers `true` exactly when fewer guards than the capacity are alive -/
theorem available_iff (cap : Nat) (ops : List Op) (s s' : Sys) (os : List Obs) (h : Nat) (w : WakerId)
    (b : Bool) (hr : run (init cap) ops = some (s, os))
    (hs : step s (.available h w) = some (s', .avail b)) :
    b = true ↔ s.guards.length < cap := by
  obtain ⟨h1, h2, _, _⟩ := rel_reach hr
  simp only [step] at hs; split at hs
  · simp only [Option.some.injEq, Prod.mk.injEq, Obs.avail.injEq] at hs
    obtain ⟨_, hb⟩ := hs; subst hb
    rw [available_eq]; simp only [h1, h2]
    by_cases hc : s.guards.length < cap <;> simp [hc]
  · simp at hs

example : (run (init 1) [.available 0 7, .acquire 0, .available 0 7]).map (·.2) =
    some [.avail true, .guard 0, .avail false] := by decide
example : (run (init 0) [.available 0 7]).map (·.2) = some [.avail false] := by decide

/-- `Counter::total` (through any clone) is the number of live guards -/
theorem total_eq_live (cap : Nat) (ops : List Op) (s s' : Sys) (os : List Obs) (h n : Nat)
    (hr : run (init cap) ops = some (s, os)) (hs : step s (.total h) = some (s', .total n)) :
    n = s.guards.length := by
  obtain ⟨_, h2, _, _⟩ := rel_reach hr
  simp only [step] at hs; split at hs
  · simp only [Option.some.injEq, Prod.mk.injEq, Obs.total.injEq] at hs
    obtain ⟨_, hn⟩ := hs; omega
  · simp at hs

example : (run (init 0) [.acquire 0, .clone 0, .acquire 1, .drop 0, .total 1]).map (·.2) =
    some [.guard 0, .handle 1, .guard 1, .dropped none none, .total 1] := by decide

/-- **`Counter::get` never refuses and every guard counts — also at and above the capacity** (the
counter only gates through `available`): through any live handle a guard is handed out, and the count
the counter keeps afterwards is the number of live guards, one more than before. -/
theorem acquire_always_counts (cap : Nat) (ops : List Op) (s : Sys) (os : List Obs) (h : Nat)
    (hr : run (init cap) ops = some (s, os)) (hh : s.hasHandle h = true) :
    ∃ s', step s (.acquire h) = some (s', .guard s.nextGuard) ∧ s'.guards.length = s.guards.length + 1 ∧
      s'.ctr.count = s'.guards.length ∧ s'.ctr.capacity = cap := by
  obtain ⟨h1, h2, _, _⟩ := rel_reach hr
  refine ⟨{ s with ctr := s.ctr.inc, guards := s.guards ++ [s.nextGuard], nextGuard := s.nextGuard + 1 }, ?_, ?_, ?_, ?_⟩
  · simp only [step, hh, if_true]
  · simp
  · simp [inc_eq, h2]
  · simp [inc_eq, h1]

/-- three guards with capacity 1: all are counted, the gate stays shut (and nobody is woken) until the
last one goes; capacity 0: guards are counted all the same and the gate never opens -/
example : (run (init 1) [.acquire 0, .acquire 0, .acquire 0, .total 0, .available 0 2, .drop 2, .total 0,
      .available 0 3, .drop 0, .available 0 3, .drop 1, .available 0 3]).map (·.2) =
    some [.guard 0, .guard 1, .guard 2, .total 3, .avail false, .dropped none none, .total 2, .avail false,
      .dropped none none, .avail false, .dropped (some 3) none, .avail true] := by decide
example : (run (init 0) [.acquire 0, .acquire 0, .total 0, .drop 0, .drop 1, .total 0, .available 0 1]).map (·.2) =
    some [.guard 0, .guard 1, .total 2, .dropped none none, .dropped none none, .total 0, .avail false] := by decide

/-- **The count is shared by all clones**: which live handle an operation goes through is immaterial. -/
theorem clones_share (s : Sys) (h h' : Nat) (w : WakerId) (hh : s.hasHandle h = true) (hh' : s.hasHandle h' = true) :
    step s (.available h w) = step s (.available h' w) ∧ step s (.total h) = step s (.total h') ∧
    step s (.acquire h) = step s (.acquire h') ∧ step s (.debug h) = step s (.debug h') := by
  simp [step, hh, hh']

example : (run (init 1) [.clone 0, .acquire 1, .available 0 2, .total 0, .total 1, .drop 0]).map (·.2) =
    some [.handle 1, .guard 0, .avail false, .total 1, .total 1, .dropped (some 2) none] := by decide

/-- Dropping a `Counter` handle changes nothing but the set of handles: the guards stay alive and
counted, the parked waker stays registered (so `release_wakes`, which holds for every history, also
covers histories in which the handle that was asked has been dropped). -/
theorem handle_drop_changes_nothing_else (s s' : Sys) (h : Nat) (o : Obs) (hs : step s (.dropHandle h) = some (s', o)) :
    s'.ctr = s.ctr ∧ s'.guards = s.guards ∧ s'.hasHandle h = false ∧
    (∀ h', h' ≠ h → s'.hasHandle h' = s.hasHandle h') := by
  simp only [step] at hs; split at hs
  · simp only [Option.some.injEq, Prod.mk.injEq] at hs; obtain ⟨hs, _⟩ := hs; subst hs
    refine ⟨rfl, rfl, by simp [Sys.hasHandle], ?_⟩
    intro h' hne
    simp only [Sys.hasHandle, List.contains_cons]
    have : (h' == h) = false := by simpa using hne
    simp [this]
  · simp at hs

example : (run (init 1) [.acquire 0, .clone 0, .available 0 3, .dropHandle 0, .total 1, .drop 0, .available 1 2]).map (·.2) =
    some [.guard 0, .handle 1, .avail false, .handleDropped, .total 1, .dropped (some 3) none, .avail true] := by decide
example : (run (init 1) [.dropHandle 0, .total 0]) = none := by decide

/-- `Debug` of a `Counter` handle or of a `CounterGuard` shows the number of live guards and the
capacity, and changes nothing. -/
theorem debug_shows_live (cap : Nat) (ops : List Op) (s s' : Sys) (os : List Obs) (op : Op) (b : Bool) (n c : Nat)
    (hr : run (init cap) ops = some (s, os)) (hop : (∃ h, op = .debug h) ∨ ∃ g, op = .debugGuard g)
    (hs : step s op = some (s', .debug b n c)) : n = s.guards.length ∧ c = cap ∧ s' = s := by
  obtain ⟨h1, h2, _, _⟩ := rel_reach hr
  rcases hop with ⟨h, rfl⟩ | ⟨g, rfl⟩ <;>
  · simp only [step] at hs; split at hs
    · simp only [Option.some.injEq, Prod.mk.injEq, Obs.debug.injEq] at hs
      obtain ⟨hs, _, hn, hc⟩ := hs
      exact ⟨by omega, by omega, hs.symm⟩
    · simp at hs

example : (run (init 2) [.acquire 0, .acquire 0, .acquire 0, .debug 0, .debugGuard 1]).map (·.2) =
    some [.guard 0, .guard 1, .guard 2, .debug false 3 2, .debug true 3 2] := by decide

/-- the reference's live count is the number of live guards (so `specOf` may be read as "the history") -/
theorem spec_live_eq (cap : Nat) (ops : List Op) (s : Sys) (os : List Obs)
    (hr : run (init cap) ops = some (s, os)) : (specOf cap ops).live = s.guards.length :=
  (rel_reach hr).2.2.1

/-- Wake on release: a guard drop wakes **exactly** the waker most recently answered "unavailable"
(and not woken since) if it takes the number of live guards from `cap` to `cap - 1`, and wakes
nobody otherwise. -/
theorem release_wakes (cap : Nat) (ops : List Op) (s s' : Sys) (os : List Obs) (g : Nat)
    (wk : Option WakerId) (saw : Option (Nat × Bool)) (hr : run (init cap) ops = some (s, os))
    (hs : step s (.drop g) = some (s', .dropped wk saw)) :
    wk = if s.guards.length = cap then (specOf cap ops).pend else none := by
  obtain ⟨h1, h2, _, h4⟩ := rel_reach hr
  simp only [step] at hs; split at hs
  · simp only [Option.some.injEq, Prod.mk.injEq, Obs.dropped.injEq] at hs
    obtain ⟨_, hw, _⟩ := hs; subst hw
    rw [dec_eq]; simp only [h1, h2]
    by_cases hc : s.guards.length = cap <;> simp [hc, h4]
  · simp at hs

example : (run (init 1) [.acquire 0, .available 0 1, .available 0 2, .drop 0]).map (·.2) =
    some [.guard 0, .avail false, .avail false, .dropped (some 2) none] := by decide
example : (specOf 1 [.acquire 0, .available 0 5, .available 0 6]).pend = some 6 := by decide

/-- … and exactly once: after a releasing drop, a later drop wakes somebody only if `available` was
asked (and answered "unavailable") again in between. -/
theorem release_wakes_once (cap : Nat) (ops mid : List Op) (g g' : Nat) (s : Sys) (os : List Obs)
    (wk : Option WakerId) (saw : Option (Nat × Bool)) (s' : Sys)
    (hrel : (specOf cap ops).live = cap)
    (hmid : ∀ op ∈ mid, op.isAvailable = false)
    (hr : run (init cap) (ops ++ [.drop g] ++ mid) = some (s, os))
    (hs : step s (.drop g') = some (s', .dropped wk saw)) : wk = none := by
  rw [release_wakes cap _ s s' os g' wk saw hr hs]
  split
  · rw [specOf_append, specOf_append]
    apply pend_none_of_no_avail _ _ _ _ hmid
    simp [Spec.step, hrel]
  · rfl

example : (run (init 1) [.acquire 0, .available 0 3, .drop 0, .acquire 0, .drop 1]).map (·.2) =
    some [.guard 0, .avail false, .dropped (some 3) none, .guard 1, .dropped none none] := by decide
example : (run (init 1) [.acquire 0, .available 0 5, .drop 0, .acquire 0, .drop 1]).map (·.2) =
    some [.guard 0, .avail false, .dropped (some 5) (some (0, true)), .guard 1, .dropped none none] := by decide

/-- **The wake-up comes after the decrement.**  A task woken by a guard drop whose waker polls inline
(re-enters the counter from inside `wake()`: ids `≥ 4`) finds the slot already freed: it reads
`total() = cap - 1 < cap`, is answered *available*, and therefore is not registered again — after the
drop nobody is parked.  A counting waker observes nothing (`saw = none`). -/
theorem woken_task_sees_freed_slot (cap : Nat) (ops : List Op) (s s' : Sys) (os : List Obs) (g : Nat)
    (wk : Option WakerId) (saw : Option (Nat × Bool)) (hr : run (init cap) ops = some (s, os))
    (hs : step s (.drop g) = some (s', .dropped wk saw)) :
    saw = wk.bind (fun w => if inlineWaker w then some (cap - 1, true) else none) ∧
    (∀ n b, saw = some (n, b) → n < cap ∧ n = s'.guards.length ∧ b = true) ∧
    (wk.isSome → s'.ctr.task.waker = none) := by
  obtain ⟨h1, h2, _, h4⟩ := rel_reach hr
  simp only [step] at hs; split at hs
  · rename_i hg
    have hpos : 0 < s.ctr.count := by rw [h2]; exact List.length_pos_of_mem hg
    have hl : (s.guards.erase g).length = s.guards.length - 1 := List.length_erase_of_mem hg
    simp only [Option.some.injEq, Prod.mk.injEq, Obs.dropped.injEq] at hs
    obtain ⟨hs', hw, hsaw⟩ := hs; subst hs'; subst hw; subst hsaw
    rw [release_eq _ hpos, dec_eq]
    by_cases hc : s.ctr.count = s.ctr.capacity
    · simp only [hc, if_true]
      have hcap : s.guards.length = cap := by omega
      refine ⟨by simp [h1], ?_, by simp⟩
      intro n b hnb
      cases hw : s.ctr.task.waker with
      | none => simp [hw] at hnb
      | some w =>
        simp only [hw, Option.bind_some] at hnb
        by_cases hi : inlineWaker w = true
        · simp only [hi, if_true, Option.some.injEq, Prod.mk.injEq] at hnb
          obtain ⟨hn, hb⟩ := hnb
          refine ⟨by omega, ?_, hb.symm⟩
          simp only [hl]; omega
        · simp [hi] at hnb
    · simp [hc]
  · simp at hs

example : (run (init 1) [.acquire 0, .available 0 4, .drop 0, .total 0]).map (·.2) =
    some [.guard 0, .avail false, .dropped (some 4) (some (0, true)), .total 0] := by decide
example : (run (init 2) [.acquire 0, .acquire 0, .acquire 0, .available 0 5, .drop 2, .drop 0, .available 0 1]).map (·.2) =
    some [.guard 0, .guard 1, .guard 2, .avail false, .dropped none none, .dropped (some 5) (some (1, true)), .avail true] := by decide

/-- **Nobody is left parked below the capacity**: in every reachable state, if a waker is still
registered (answered "unavailable" and not woken since) then at least `cap` guards are alive — so the
drop that takes the count to `cap - 1` is still to come and will wake it (`release_wakes`). -/
theorem no_task_parked_below_capacity (cap : Nat) (ops : List Op) (s : Sys) (os : List Obs) (w : WakerId)
    (hr : run (init cap) ops = some (s, os)) (hp : s.ctr.task.waker = some w) : cap ≤ s.guards.length := by
  obtain ⟨h1, h2, _, _⟩ := rel_reach hr
  have := parkedOk_reach hr w hp
  omega

example : ((run (init 1) [.acquire 0, .acquire 0, .available 0 4, .drop 1]).map (·.1.ctr.task.waker)) = some (some 4) := by decide
example : ((run (init 1) [.acquire 0, .acquire 0, .available 0 4, .drop 1, .drop 0]).map (·.1.ctr.task.waker)) = some none := by decide

/-- `LocalWaker::register` reports whether a waker was already registered, i.e. whether the previous
operation on the cell was a `register` -/
theorem localwaker_register_reports (ops : List LocalWaker.Op) (w : WakerId) :
    (LocalWaker.step (LocalWaker.run ops) (.register w)).2 =
      .registered (LocalWaker.outstanding ops).isSome := by
  simp [LocalWaker.step, LocalWaker.register, lw_run_eq_outstanding]

example : (LocalWaker.step (LocalWaker.run [.register 1, .wake, .register 2]) (.register 3)).2 = .registered true := by decide
example : (LocalWaker.step (LocalWaker.run [.register 1, .wake]) (.register 3)).2 = .registered false := by decide

/-- `LocalWaker::wake` wakes the most recently registered waker, if it has not been woken or taken
since, … -/
theorem wake_wakes_last_registered (ops : List LocalWaker.Op) :
    (LocalWaker.step (LocalWaker.run ops) .wake).2 = .woke (LocalWaker.outstanding ops) := by
  simp [LocalWaker.step, LocalWaker.wake, LocalWaker.take, lw_run_eq_outstanding]

/-- … and once: a `wake` directly after a `wake` or `take` wakes nobody, and `take` hands out the
waker at most once as well. -/
theorem wake_once (ops : List LocalWaker.Op) (op : LocalWaker.Op) (h : op = .wake ∨ op = .take) :
    (LocalWaker.step (LocalWaker.run (ops ++ [op])) .wake).2 = .woke none ∧
    (LocalWaker.step (LocalWaker.run (ops ++ [op])) .take).2 = .took none := by
  have : LocalWaker.outstanding (ops ++ [op]) = none := by
    rcases h with h | h <;> subst h <;> simp [LocalWaker.outstanding]
  simp [LocalWaker.step, LocalWaker.wake, LocalWaker.take, lw_run_eq_outstanding, this]

example : (LocalWaker.step (LocalWaker.run [.register 1, .register 2]) .wake).2 = .woke (some 2) := by decide
example : (LocalWaker.step (LocalWaker.run [.register 1, .register 2, .wake]) .wake).2 = .woke none := by decide

/-- **Re-entrancy adds no behaviour (Counter).**  What a taking task and the next asker do from inside
`wake()` is what the same two calls do as ordinary operations, through any live handle `h`, right after
the drop: `stepRe s (drop g)` is the history `[drop g, acquire h, available h (w - 4)]` (or `[drop g]`
when nobody took).  So every theorem about histories covers re-entrant executions too. -/
theorem callback_is_sequential (s s' : Sys) (g h : Nat) (os : List Obs) (hs : stepRe s (.drop g) = some (s', os))
    (hh : s.hasHandle h = true) :
    (∃ w, run s [.drop g, .acquire h, .available h (w - 4)] = some (s', os)) ∨ run s [.drop g] = some (s', os) := by
  simp only [stepRe] at hs
  split at hs
  · simp at hs
  · rename_i s1 o hst
    simp only [Option.some.injEq, Prod.mk.injEq] at hs; obtain ⟨h1, h2⟩ := hs; subst h1; subst h2
    have hh1 : s1.hasHandle h = true := by
      simp only [step] at hst; split at hst
      · simp only [Option.some.injEq, Prod.mk.injEq] at hst; obtain ⟨h1, _⟩ := hst; subst h1
        simp only [Sys.hasHandle] at hh ⊢; exact hh
      · simp at hst
    unfold Sys.callback
    split
    · rename_i w n
      by_cases ht : takerWaker w = true
      · left; refine ⟨w, ?_⟩
        have hh2 : (s1.acquireCore.1).hasHandle h = true := by
          simp only [Sys.acquireCore, Sys.hasHandle] at hh1 ⊢; exact hh1
        have e2 : step s1 (.acquire h) = some (s1.acquireCore.1, s1.acquireCore.2) := by
          simp only [step, hh1, if_true]; rfl
        have e3 : step s1.acquireCore.1 (.available h (w - 4)) =
            some ((s1.acquireCore.1.availableCore (w - 4)).1, (s1.acquireCore.1.availableCore (w - 4)).2) := by
          simp only [step, hh2, if_true]; rfl
        simp only [run, hst, e2, e3, ht, if_true]
      · right; simp only [run, hst, ht]; simp
    · right; simp only [run, hst]

/-- The task registered **during** the wake callback is the one the next release wakes: after a
releasing drop woke a taking task (which took the slot) the next asker `w - 4` is parked, and … -/
example : ((run (init 1) [.acquire 0, .available 0 6]).bind (fun q => stepRe q.1 (.drop 0))).map (·.2) =
    some [.dropped (some 6) (some (0, true)), .guard 1, .avail false] := by decide
example : (((run (init 1) [.acquire 0, .available 0 6]).bind (fun q => stepRe q.1 (.drop 0))).bind
      (fun q => stepRe q.1 (.drop 1))).map (·.2) = some [.dropped (some 2) none] := by decide

/-- **Re-entrancy adds no behaviour (LocalWaker).**  A `wake` whose waker calls back into the same
`LocalWaker` is the `wake` followed by the callback's operations … -/
theorem reentrant_wake_is_sequential (l : LocalWaker) :
    LocalWaker.stepRe l .wake = LocalWaker.runObs l (.wake :: LocalWaker.callback l.waker) := by
  simp [LocalWaker.stepRe, LocalWaker.step, LocalWaker.runObs, LocalWaker.wake, LocalWaker.take]

/-- … so **the waker registered last — also from inside a wake callback — is the one the next `wake`
wakes, and the next `register` reports it**: the cell is emptied before the callback runs, not after. -/
theorem registered_in_callback_survives (l : LocalWaker) (w : WakerId) (hw : l.waker = some w)
    (hre : w = 4 ∨ w = 5) :
    (LocalWaker.stepRe l .wake).2 = [.woke (some w), .registered false] ∧
    (LocalWaker.stepRe l .wake).1.waker = some (if w = 4 then 1 else 5) ∧
    (LocalWaker.step (LocalWaker.stepRe l .wake).1 .wake).2 = .woke (some (if w = 4 then 1 else 5)) ∧
    (LocalWaker.step (LocalWaker.stepRe l .wake).1 (.register 0)).2 = .registered true := by
  rcases hre with h | h <;> subst h <;>
    simp [LocalWaker.stepRe, LocalWaker.step, LocalWaker.runObs, LocalWaker.wake, LocalWaker.take, LocalWaker.callback,
      LocalWaker.register, hw]

example : (LocalWaker.stepRe { waker := some 5 } .wake) = ({ waker := some 5 }, [.woke (some 5), .registered false]) := by decide
example : (LocalWaker.stepRe { waker := some 2 } .wake) = ({ waker := none }, [.woke (some 2)]) := by decide

/-- **`register` stores the new waker before the displaced one goes** (`replace`): a `wake` made while
the displaced waker is being dropped — by its destructor — reaches the waker that is being registered. -/
theorem displaced_drop_wakes_new_waker (l : LocalWaker) (w : WakerId) (hd : l.waker = some 6) :
    (LocalWaker.stepLine l (.register w)).2.take 2 = [.registered true, .woke (some w)] := by
  simp [LocalWaker.stepLine, hd, LocalWaker.stepRe, LocalWaker.step, LocalWaker.register, LocalWaker.wake, LocalWaker.take]

example : LocalWaker.stepLine { waker := some 6 } (.register 2) = ({ waker := none }, [.registered true, .woke (some 2)]) := by decide
example : LocalWaker.stepLine { waker := some 6 } (.register 4) = ({ waker := some 1 }, [.registered true, .woke (some 4), .registered false]) := by decide
example : LocalWaker.stepLine { waker := some 3 } (.register 6) = ({ waker := some 6 }, [.registered true]) := by decide

/-- Through the counter: the parked task that owns guard `g` (waker `100 + g`) is displaced by the next
task answered "unavailable" with exactly `cap` guards alive; its guard is released while the new waker
`w` is already registered, so **the task just answered "unavailable" is the one woken**. -/
theorem displaced_guard_release_wakes_new_asker (cap : Nat) (ops : List Op) (s s' : Sys) (os0 os : List Obs)
    (h g : Nat) (w : WakerId) (hr : run (init cap) ops = some (s, os0)) (hh : s.hasHandle h = true)
    (hheld : s.ctr.task.waker = some (100 + g)) (hg : g ∈ s.guards) (hfull : s.guards.length = cap)
    (hw : guardWaker w = false) (hs : stepLine s (.available h w) = some (s', os)) :
    ∃ saw rest, os = .avail false :: .dropped (some w) saw :: rest := by
  obtain ⟨h1, h2, _, _⟩ := rel_reach hr
  have hnlt : ¬ s.ctr.count < s.ctr.capacity := by omega
  have hstep : step s (.available h w) =
      some ({ s with ctr := { s.ctr with task := { waker := some w } } }, .avail false) := by
    simp only [step, hh, if_true, available_eq, hnlt, if_false]
  have hre : stepRe s (.available h w) =
      some ({ s with ctr := { s.ctr with task := { waker := some w } } }, [.avail false]) := by
    simp only [stepRe, hstep, Sys.callback]
  have hgw : guardWaker (100 + g) = true := by simp [guardWaker]
  simp only [stepLine, hw, Bool.false_and, Bool.false_eq_true, if_false, hre, hheld, hgw, if_true] at hs
  have hsub : 100 + g - 100 = g := by omega
  rw [hsub] at hs
  have hdec : ({ count := s.ctr.count, capacity := s.ctr.capacity, task := { waker := some w } } : Counter).dec.2 = some w := by
    rw [dec_eq]; simp [h1, h2, hfull]
  simp only [stepRe, step, hg, if_true, hdec] at hs
  simp only [Option.some.injEq, Prod.mk.injEq] at hs
  obtain ⟨_, ho⟩ := hs
  exact ⟨_, _, by rw [← ho]; rfl⟩

example : ((run (init 1) [.acquire 0, .available 0 100]).bind (fun q => stepLine q.1 (.available 0 2))).map (·.2) =
    some [.avail false, .dropped (some 2) none] := by decide
example : ((run (init 1) [.acquire 0, .available 0 100]).bind (fun q => stepLine q.1 (.drop 0))) = none := by decide

end ActixNet.C17
