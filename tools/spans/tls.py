"""T1 spans for actix-tls (C18): the two defaults of accept/mod.rs.

`DEFAULT_TLS_HANDSHAKE_TIMEOUT` is a `const`.  `MAX_CONN` is a `static … = AtomicUsize::new(256)`;
extract.py has no `static` span kind, so the initialiser is located here (same regex shape as
`find_const`) and handed to the translator's ordinary constant-expression path by wrapping
`find_const` for that one name.  (Request to the lead: a native `span_static` in extract.py.)"""
import re as _re, sys as _sys

_m = _sys.modules.get("__main__")
if _m is not None and hasattr(_m, "find_const") and not getattr(_m, "_tls_static_patch", False):
    _orig_find_const = _m.find_const

    def _find_const_or_static(src, name, _orig=_orig_find_const, _mod=_m):
        try:
            return _orig(src, name)
        except _mod.Fail:
            s = _mod.strip_comments_keep_len(src)
            mm = _re.search(r"\bstatic\s+%s\s*:\s*AtomicUsize\s*=\s*AtomicUsize::new\(([^;]+)\)\s*;" % _re.escape(name), s)
            if not mm:
                raise
            return mm.group(1)

    _m.find_const = _find_const_or_static
    _m._tls_static_patch = True

register("tls_default_handshake_timeout",
         span_const("actix-tls/src/accept/mod.rs", "DEFAULT_TLS_HANDSHAKE_TIMEOUT", "tlsDefaultHandshakeTimeoutMs"))
register("tls_default_max_conn",
         span_const("actix-tls/src/accept/mod.rs", "MAX_CONN", "tlsDefaultMaxConn"))


# ------------------------------------------------------------------------------------------------
# shape facts: the configuration / construction surface of the acceptor and connector factories.
# The harness runs the rustls-0.23 and OpenSSL flavours; these facts are regenerated from the source
# text (comments stripped) of ALL flavours, so a flavour that is not compiled into the harness still
# breaks an obligation (`source_shape` in Props/C18.lean, Props/C19.lean) when its factory forgets a field.
# ------------------------------------------------------------------------------------------------
def _ws(rx):
    return r"\s*".join(re.escape(p) for p in rx.split())


def _has(text, pat):
    return re.search(_ws(pat), text, re.S) is not None


def _block(src, head_rx, what):
    """text from the match of head_rx to the closing brace of the block it opens"""
    m = re.search(head_rx, src)
    if not m:
        raise Fail("%s not found" % what)
    i = src.index("{", m.end() - 1) if src[m.end() - 1] != "{" else m.end() - 1
    depth = 0
    for j in range(i, len(src)):
        if src[j] == "{":
            depth += 1
        elif src[j] == "}":
            depth -= 1
            if depth == 0:
                return src[m.start():j + 1]
    raise Fail("%s: unbalanced braces" % what)


def _lean_facts(name, facts):
    return "def %s : List (String × Bool) := [%s]" % (name, ", ".join('("%s", %s)' % (k, "true" if v else "false") for k, v in facts))


def _accept_shape(lean_name):
    def f(src):
        new = _block(src, r"pub fn new\([^)]*\)\s*->\s*Self\s*\{", "Acceptor::new")
        seth = _block(src, r"pub fn set_handshake_timeout\([^)]*\)\s*->\s*&mut Self\s*\{", "Acceptor::set_handshake_timeout")
        clone = _block(src, r"impl Clone for Acceptor\s*\{", "impl Clone for Acceptor")
        newsvc = _block(src, r"fn new_service\(&self, _: \(\)\)\s*->\s*Self::Future\s*\{", "Acceptor::new_service")
        svc = _block(src, r"impl<IO: ActixStream[^>]*>\s*Service<IO> for AcceptorService\s*\{", "impl Service for AcceptorService")
        facts = [
            ("new_uses_default_timeout", _has(new, "handshake_timeout : DEFAULT_TLS_HANDSHAKE_TIMEOUT ,")),
            ("set_assigns_timeout", _has(seth, "self . handshake_timeout = handshake_timeout ;")),
            ("clone_copies_timeout", _has(clone, "handshake_timeout : self . handshake_timeout ,")
                and len(re.findall(r"handshake_timeout\s*:", clone)) == 1),
            ("new_service_passes_timeout", _has(newsvc, "handshake_timeout : self . handshake_timeout ,")
                and len(re.findall(r"handshake_timeout\s*:", newsvc)) == 1),
            ("new_service_shares_thread_counter", _has(newsvc, "MAX_CONN_COUNTER . with ( | conns |") and _has(newsvc, "conns : conns . clone ( ) ,")),
            ("ready_gates_on_counter", _has(svc, "if self . conns . available (")),
            ("call_takes_guard", _has(svc, "self . conns . get ( )")),
            ("call_arms_service_timeout", _has(svc, "sleep ( self . handshake_timeout )") or _has(svc, "let dur = self . handshake_timeout ;")),
            # every pending poll of the accept future polls the timer with the CALLER's context (so the timer keeps the
            # waker of the most recent poll); native-tls wraps the handshake in tokio's `timeout`, which does the same
            ("pending_poll_registers_callers_waker_with_timer",
             _has(src, "Poll :: Pending => this . timeout . poll ( cx ) . map ( | _ | Err ( TlsError :: Timeout ) ) ,")
             or _has(svc, "match timeout ( dur , acceptor . accept ( io ) ) . await {")),
        ]
        return _lean_facts(lean_name, facts), new + seth + clone + newsvc + svc
    return f


for _flav, _ln in [("rustls_0_20", "tlsAcceptShapeRustls020"), ("rustls_0_21", "tlsAcceptShapeRustls021"),
                   ("rustls_0_22", "tlsAcceptShapeRustls022"), ("rustls_0_23", "tlsAcceptShapeRustls023"),
                   ("openssl", "tlsAcceptShapeOpenssl"), ("native_tls", "tlsAcceptShapeNativeTls")]:
    register("tls_accept_shape_" + _flav, span_custom("actix-tls/src/accept/%s.rs" % _flav, _accept_shape(_ln)))


def _connector_shape(src):
    svc = _block(src, r"pub fn service\(&self\)\s*->\s*ConnectorService\s*\{", "Connector::service")
    newsvc = _block(src, r"fn new_service\(&self, _: \(\)\)\s*->\s*Self::Future\s*\{", "Connector::new_service")
    new = _block(src, r"pub fn new\(resolver: Resolver\)\s*->\s*Self\s*\{", "Connector::new")
    call = _block(src, r"fn call\(&self, req: ConnectInfo<R>\)\s*->\s*Self::Future\s*\{", "ConnectorService::call")
    facts = [
        ("new_keeps_resolver", _has(new, "Connector { resolver }")),
        ("service_uses_configured_resolver", _has(svc, "resolver : self . resolver . service ( ) ,")),
        ("new_service_is_service", _has(newsvc, "ok ( self . service ( ) )")),
        ("call_resolves_first", _has(call, "fut : ConnectFut :: Resolve ( self . resolver . call ( req ) ) ,")),
    ]
    return _lean_facts("tlsConnectorShape", facts), new + svc + newsvc + call


def _resolver_shape(src):
    fac = _block(src, r"impl Resolver\s*\{", "impl Resolver")
    newsvc = _block(src, r"fn new_service\(&self, _: \(\)\)\s*->\s*Self::Future\s*\{", "Resolver::new_service")
    facts = [
        ("custom_wraps_given_resolver", _has(fac, "resolver : ResolverService :: custom ( resolver ) ,")),
        ("service_clones_configured", _has(fac, "pub fn service ( & self ) -> ResolverService { self . resolver . clone ( ) }")),
        ("new_service_clones_configured", _has(newsvc, "ok ( self . resolver . clone ( ) )")),
        ("service_custom_keeps_resolver", _has(src, "kind : ResolverKind :: Custom ( Rc :: new ( resolver ) ) ,")),
    ]
    return _lean_facts("tlsResolverShape", facts), fac + newsvc


def _tcp_shape(src):
    newsvc = _block(src, r"fn new_service\(&self, _: \(\)\)\s*->\s*Self::Future\s*\{", "TcpConnector::new_service")
    facts = [("new_service_is_service", _has(newsvc, "ok ( self . service ( ) )"))]
    return _lean_facts("tlsTcpConnectorShape", facts), newsvc


def _tls_connector_shape(lean_name):
    def f(src):
        newsvc = _block(src, r"fn new_service\(&self, _: \(\)\)\s*->\s*Self::Future\s*\{", "TlsConnector::new_service")
        facts = [
            # the service a factory builds carries the factory's TLS configuration
            ("new_service_passes_config", _has(newsvc, "ok ( TlsConnectorService { connector : self . connector . clone ( ) , } )")
                or _has(newsvc, "ok ( self . clone ( ) )")),
        ]
        # the service is state-free: nothing but the TLS configuration in it, and every call takes the name it
        # hands to the TLS library from ITS OWN request
        st = re.search(r"pub struct TlsConnectorService\s*\{(.*?)\}", src, re.S)
        if st:
            fields = [f.strip() for f in st.group(1).split(",") if f.strip()]
            facts.append(("service_holds_only_the_config", len(fields) == 1 and re.match(r"connector\s*:", fields[0]) is not None))
        facts.append(("call_names_its_own_request",
                      _has(src, "match ServerName :: try_from ( conn . hostname ( ) ) {") or _has(src, "match ServerName :: try_from ( connection . hostname ( ) ) {")
                      or (_has(src, "let host = stream . hostname ( ) ;") and _has(src, "config . into_ssl ( host ) . ok ( )"))
                      or _has(src, ". connect ( stream . hostname ( ) , io )")))
        for head, nm in [(r"impl Clone for TlsConnector\s*\{", "factory_clone_copies_config"), (r"impl Clone for TlsConnectorService\s*\{", "service_clone_copies_config")]:
            if re.search(head, src):
                facts.append((nm, _has(_block(src, head, nm), "connector : self . connector . clone ( ) ,")))
        return _lean_facts(lean_name, facts), newsvc
    return f


register("tls_connector_shape", span_custom("actix-tls/src/connect/connector.rs", _connector_shape))
register("tls_resolver_shape", span_custom("actix-tls/src/connect/resolver.rs", _resolver_shape))
register("tls_tcp_connector_shape", span_custom("actix-tls/src/connect/tcp.rs", _tcp_shape))
for _flav, _ln in [("rustls_0_20", "tlsConnShapeRustls020"), ("rustls_0_21", "tlsConnShapeRustls021"),
                   ("rustls_0_22", "tlsConnShapeRustls022"), ("rustls_0_23", "tlsConnShapeRustls023"),
                   ("openssl", "tlsConnShapeOpenssl"), ("native_tls", "tlsConnShapeNativeTls")]:
    register("tls_conn_shape_" + _flav, span_custom("actix-tls/src/connect/%s.rs" % _flav, _tls_connector_shape(_ln)))


def _local_waker_shape(src):
    reg = _block(src, r"pub fn register\(&self, waker: &Waker\)\s*->\s*bool\s*\{", "LocalWaker::register")
    wake = _block(src, r"pub fn wake\(&self\)\s*\{", "LocalWaker::wake")
    facts = [
        # the waker passed LAST is the one stored: whatever was stored before is replaced
        ("register_replaces_stored_waker", _has(reg, "let last_waker = self . waker . replace ( Some ( waker . clone ( ) ) ) ; last_waker . is_some ( )")),
        ("wake_takes_and_wakes", _has(wake, "if let Some ( waker ) = self . take ( ) { waker . wake ( ) ; }")),
    ]
    return _lean_facts("localWakerShape", facts), reg + wake


register("local_waker_shape", span_custom("local-waker/src/lib.rs", _local_waker_shape))


# ------------------------------------------------------------------------------------------------
# `impl Host for http::Uri` (cargo feature `uri`): the scheme -> well-known port table of connect/uri.rs
# is TRANSLATED arm by arm into a Lean table (an arm `Some("a") | Some("b") => Some(N)` gives two entries),
# plus shape facts for the two `Host` impls (http 0.2 and http 1).
# ------------------------------------------------------------------------------------------------
def _uri_span(src):
    fn = _block(src, r"fn scheme_to_port\(scheme: Option<&str>\)\s*->\s*Option<u16>\s*\{", "scheme_to_port")
    m = re.search(r"match scheme\s*\{(.*)\}\s*\}\s*$", fn, re.S)
    if not m:
        raise Fail("scheme_to_port: expected a single `match scheme { .. }`")
    body = m.group(1)
    entries, rest = [], body
    arm = re.compile(r"\s*((?:Some\(\"[^\"]*\"\)\s*\|\s*)*Some\(\"[^\"]*\"\))\s*=>\s*Some\((\d[\d_]*)\)\s*,")
    pos = 0
    while True:
        mm = arm.match(body, pos)
        if not mm:
            break
        for s in re.findall(r"Some\(\"([^\"]*)\"\)", mm.group(1)):
            entries.append((s, int(mm.group(2).replace("_", ""))))
        pos = mm.end()
    rest = body[pos:].strip()
    # whatever is not listed has no well-known port
    if not re.fullmatch(r"_\s*=>\s*None\s*,?", rest):
        raise Fail("scheme_to_port: untranslatable arm(s): %r" % rest[:120])
    impls = re.findall(r"impl Host for (http_[0-9_]+)::Uri\s*\{(.*?)\n\}", src, re.S)
    facts = [("uri_impls_for_http_0_2_and_1", sorted(n for n, _ in impls) == ["http_0_2", "http_1"])]
    for n, b in impls:
        facts.append(("%s_hostname_is_host_or_empty" % n, _has(b, "fn hostname ( & self ) -> & str { self . host ( ) . unwrap_or ( \"\" ) }")))
        facts.append(("%s_explicit_port_else_scheme" % n, _has(b, "match self . port_u16 ( ) { Some ( port ) => Some ( port ) , None => scheme_to_port ( self . scheme_str ( ) ) , }")))
    lean = "def tlsSchemePorts : List (String × Nat) := [%s]\n%s" % (
        ", ".join('("%s", %d)' % e for e in entries), _lean_facts("tlsUriShape", facts))
    return lean, src


register("tls_uri_scheme_ports", span_custom("actix-tls/src/connect/uri.rs", _uri_span))


def _max_conn_shape(src):
    tls = "".join(m.group(0) for m in re.finditer(r"thread_local!\s*\{.*?\n\}", src, re.S))
    setter = _block(src, r"pub fn max_concurrent_tls_connect\(num: usize\)\s*\{", "max_concurrent_tls_connect")
    facts = [
        # ONE limit for the whole process (a static atomic, not a thread-local) ...
        ("max_conn_is_process_wide_static", _has(src, "pub ( crate ) static MAX_CONN : AtomicUsize = AtomicUsize :: new (") and "MAX_CONN:" not in tls.replace(" ", "").replace("MAX_CONN_COUNTER:", "")),
        # ... stored into from whatever thread configures it ...
        ("setter_stores_into_it", _has(setter, "MAX_CONN . store ( num , Ordering :: Relaxed ) ;")),
        # ... and read when a thread's counter is created on first use
        ("counter_is_thread_local_built_from_it", _has(tls, "static MAX_CONN_COUNTER : Counter = Counter :: new ( MAX_CONN . load ( Ordering :: Relaxed ) ) ;")),
    ]
    return _lean_facts("tlsMaxConnShape", facts), tls + setter


register("tls_max_conn_shape", span_custom("actix-tls/src/accept/mod.rs", _max_conn_shape))


def _connection_shape(src):
    hn = _block(src, r"pub fn hostname\(&self\)\s*->\s*&str\s*\{", "Connection::hostname")
    facts = [
        # the name every TLS connector verifies is the request's host name, exactly as the request gives it
        ("hostname_is_the_requests_unchanged", _has(hn, "pub fn hostname ( & self ) -> & str { self . req . hostname ( ) }")),
        ("replace_io_keeps_the_request", _has(src, "( self . io , Connection { io , req : self . req } )")),
    ]
    return _lean_facts("tlsConnectionShape", facts), hn


register("tls_connection_shape", span_custom("actix-tls/src/connect/connection.rs", _connection_shape))
