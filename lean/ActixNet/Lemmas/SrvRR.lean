import ActixNet.Lemmas.SrvSpin
/-! Round-robin lemmas for the accept-loop model (fault-free histories). -/
namespace ActixNet.Srv
open ActixNet

theorem incPrim_next (cfg : Cfg) (s : St) (w i : Nat) : (incPrim cfg s w i).next = s.next ∧ (incPrim cfg s w i).handles = s.handles := by
  unfold incPrim; simp only; split
  · exact ⟨rfl, rfl⟩
  · unfold setAvail; split <;> exact ⟨rfl, rfl⟩

/-- **round robin**: when the worker at the rotation cursor is marked available, `accept_one`
dispatches the connection to exactly that worker and advances the cursor by one (mod the number of
workers) -/
theorem acceptOne_dispatches_to_cursor {cfg : Cfg} (ok : CfgOk cfg) (fuel : Nat) (s : St) (c : Conn)
    (h : AccInv cfg s) (hnf : s.fault = none) (hav : s.avail s.next = true) :
    (acceptOne cfg (fuel + 1) s c).dispatched = s.dispatched ++ [(c, s.next)] ∧
    (acceptOne cfg (fuel + 1) s c).next = (s.next + 1) % cfg.nIdx := by
  have hh : s.handles = List.range cfg.nIdx := h.good.1.handles
  have hn : s.next < cfg.nIdx := h.good.1.next_lt
  have hidx : (s.wk s.next).idx = s.next := h.good.1.idx s.next
  have hal : (s.wk s.next).alive = true := h.good.1.alive s.next
  have hsc : sendConnection cfg s c =
      (setNext (incPrim cfg (yieldPt cfg (sendPrim s s.next c)) s.next (s.wk s.next).idx), true) := by
    simp [sendConnection, hnf, handles_next h.good, hal]
  simp only [acceptOne, hnf, Option.isSome_none, Bool.false_eq_true, ↓reduceIte, handles_next h.good, hidx, hav, hsc]
  obtain ⟨g1, p1, s1, a1⟩ := sendPrim_good h s.next hn hav c
  obtain ⟨g2, l2, s2⟩ := yieldPt_good cfg _ g1 s1
  obtain ⟨i1, i2⟩ := incPrim_next cfg (yieldPt cfg (sendPrim s s.next c)) s.next s.next
  refine ⟨?_, ?_⟩
  · rw [setNext_dispatched, incPrim_dispatched, yieldPt_dispatched]; rfl
  · have hlen : (incPrim cfg (yieldPt cfg (sendPrim s s.next c)) s.next s.next).handles.length = cfg.nIdx := by
      rw [i2, l2.2.2.1]; show s.handles.length = _; rw [hh]; simp
    unfold setNext
    rw [if_neg (by rw [hlen]; exact Nat.pos_iff_ne_zero.mp ok.pos)]
    simp only
    rw [hlen, i1, l2.2.2.2.1]; rfl

/-- **a worker that is not marked available is skipped**: `accept_one` moves the cursor past it
without dispatching to it -/
theorem acceptOne_skips_unavailable {cfg : Cfg} (ok : CfgOk cfg) (fuel : Nat) (s : St) (c : Conn)
    (h : AccInv cfg s) (hnf : s.fault = none) (hav : s.avail s.next = false) (hany : anyAvail cfg s = true) :
    acceptOne cfg (fuel + 1) s c = acceptOne cfg fuel { s with next := (s.next + 1) % cfg.nIdx } c := by
  have hh : s.handles = List.range cfg.nIdx := h.good.1.handles
  have hn : s.next < cfg.nIdx := h.good.1.next_lt
  have hidx : (s.wk s.next).idx = s.next := h.good.1.idx s.next
  have h512 : s.next < 512 := by have := ok.max; omega
  have hsa : setAvail s s.next false = s := by
    unfold setAvail; simp only [h512, ↓reduceIte]
    have : upd s.avail s.next false = s.avail := by rw [← hav]; exact upd_noop _ _
    rw [this]
  have hlen : s.handles.length = cfg.nIdx := by rw [hh]; simp
  have hsn : setNext s = { s with next := (s.next + 1) % cfg.nIdx } := by
    unfold setNext; rw [if_neg (by rw [hlen]; exact Nat.pos_iff_ne_zero.mp ok.pos), hlen]
  have hany2 : anyAvail cfg { s with next := (s.next + 1) % cfg.nIdx } = true := hany
  have hf : ¬ (s.fault.isSome = true) := by simp [hnf]
  simp only [acceptOne]
  rw [if_neg hf, handles_next h.good]
  simp only [hidx]
  rw [if_neg (by simp [hav]), hsa, hsn, if_neg (by simp [hany2])]


/-- cursor arithmetic: `k ≤ n` consecutive cursor positions are pairwise distinct -/
theorem cursor_positions_distinct (n a k : Nat) (hk : k ≤ n) :
    ((List.range k).map (fun j => (a + j) % n)).Nodup := by
  unfold List.Nodup
  rw [List.pairwise_map]
  refine List.Pairwise.imp_of_mem ?_ List.pairwise_lt_range
  intro i j hi hj hlt heq
  have hj' := List.mem_range.mp hj
  have := Nat.sub_mod_eq_zero_of_mod_eq heq.symm
  have e : a + j - (a + i) = j - i := by omega
  rw [e, Nat.mod_eq_of_lt (by omega)] at this
  omega



/-- everything `accept_one` does when the worker at the cursor is marked available -/
theorem acceptOne_at_cursor {cfg : Cfg} (ok : CfgOk cfg) (fuel : Nat) (s : St) (c : Conn)
    (h : AccInv cfg s) (hnf : s.fault = none) (hav : s.avail s.next = true) :
    AccInv cfg (acceptOne cfg (fuel + 1) s c) ∧ (acceptOne cfg (fuel + 1) s c).fault = none ∧
    (∀ j, j ≠ s.next → (acceptOne cfg (fuel + 1) s c).avail j = s.avail j) := by
  have hn : s.next < cfg.nIdx := h.good.1.next_lt
  have hany : anyAvail cfg s = true := by
    unfold anyAvail; exact List.any_eq_true.mpr ⟨s.next, List.mem_range.mpr hn, hav⟩
  refine ⟨acceptOne_good ok _ s c h hany, ?_, ?_⟩
  all_goals
    have hh : s.handles = List.range cfg.nIdx := h.good.1.handles
    have hidx : (s.wk s.next).idx = s.next := h.good.1.idx s.next
    have hal : (s.wk s.next).alive = true := h.good.1.alive s.next
    have h512 : s.next < 512 := by have := ok.max; omega
    have hsc : sendConnection cfg s c =
        (setNext (incPrim cfg (yieldPt cfg (sendPrim s s.next c)) s.next (s.wk s.next).idx), true) := by
      simp [sendConnection, hnf, handles_next h.good, hal]
    simp only [acceptOne, hnf, Option.isSome_none, Bool.false_eq_true, ↓reduceIte, handles_next h.good, hidx, hav, hsc]
    obtain ⟨g1, p1, s1, a1⟩ := sendPrim_good h s.next hn hav c
    obtain ⟨g2, l2, s2⟩ := yieldPt_good cfg _ g1 s1
    obtain ⟨i1, i2⟩ := incPrim_next cfg (yieldPt cfg (sendPrim s s.next c)) s.next s.next
    have hlen : (incPrim cfg (yieldPt cfg (sendPrim s s.next c)) s.next s.next).handles.length = cfg.nIdx := by
      rw [i2, l2.2.2.1]; show s.handles.length = _; rw [hh]; simp
    unfold setNext
    rw [if_neg (by rw [hlen]; exact Nat.pos_iff_ne_zero.mp ok.pos)]
    simp only
  · unfold incPrim; simp only
    split
    · rw [yieldPt_fault]; exact hnf
    · simp only [setAvail, h512, ↓reduceIte]; rw [yieldPt_fault]; exact hnf
  · intro j hj
    unfold incPrim; simp only
    split
    · rw [yieldPt_avail]; rfl
    · simp only [setAvail, h512, ↓reduceIte, upd, hj]; rw [yieldPt_avail]; rfl

/-- `accept_one` applied to a run of connections, one after the other (what the `accept` loop does
while `accept()` keeps returning connections) -/
def burst (cfg : Cfg) : St → List Conn → St
  | s, [] => s
  | s, c :: cs => burst cfg (acceptOne cfg (acceptOneFuel s) s c) cs

/-- **Round robin, composed.**  If the `k ≤ W` cursor positions `next, next+1, …, next+k-1 (mod W)`
are marked available, the next `k` connections go to exactly those workers, in that order — `k`
distinct workers — whatever the other threads do at the yield points in between. -/
theorem burst_round_robin {cfg : Cfg} (ok : CfgOk cfg) : ∀ (cs : List Conn) (s : St), AccInv cfg s → s.fault = none →
    cs.length ≤ cfg.nIdx → (∀ j, j < cs.length → s.avail ((s.next + j) % cfg.nIdx) = true) →
    (burst cfg s cs).dispatched =
      s.dispatched ++ (List.range cs.length).zipWith (fun j c => (c, (s.next + j) % cfg.nIdx)) cs ∧
    (burst cfg s cs).next = (s.next + cs.length) % cfg.nIdx := by
  intro cs; induction cs with
  | nil =>
    intro s h _ _ _
    have hn : s.next < cfg.nIdx := h.good.1.next_lt
    simp [burst, Nat.mod_eq_of_lt hn]
  | cons c cs ih =>
    intro s h hnf hk hav
    have hn : s.next < cfg.nIdx := h.good.1.next_lt
    have hav0 : s.avail s.next = true := by
      have := hav 0 (by simp); simpa [Nat.mod_eq_of_lt hn] using this
    have hfuel : acceptOneFuel s = (acceptOneFuel s - 1) + 1 := by unfold acceptOneFuel; omega
    obtain ⟨d1, n1⟩ := acceptOne_dispatches_to_cursor ok (acceptOneFuel s - 1) s c h hnf hav0
    obtain ⟨a1, f1, v1⟩ := acceptOne_at_cursor ok (acceptOneFuel s - 1) s c h hnf hav0
    rw [← hfuel] at d1 n1 a1 f1 v1
    simp only [burst]
    have hk' : cs.length ≤ cfg.nIdx := by simp at hk; omega
    have hav' : ∀ j, j < cs.length → (acceptOne cfg (acceptOneFuel s) s c).avail (((acceptOne cfg (acceptOneFuel s) s c).next + j) % cfg.nIdx) = true := by
      intro j hj
      have e : ((s.next + 1) % cfg.nIdx + j) % cfg.nIdx = (s.next + (j + 1)) % cfg.nIdx := by
        rw [Nat.add_mod, Nat.mod_mod, ← Nat.add_mod]; congr 1; omega
      rw [n1, e]
      have hne : (s.next + (j + 1)) % cfg.nIdx ≠ s.next := by
        intro heq
        have h2 : (s.next + (j + 1)) % cfg.nIdx = (s.next + 0) % cfg.nIdx := by
          rw [heq]; simp [Nat.mod_eq_of_lt hn]
        have := Nat.sub_mod_eq_zero_of_mod_eq h2
        have e2 : s.next + (j + 1) - (s.next + 0) = j + 1 := by omega
        rw [e2, Nat.mod_eq_of_lt (by simp at hk; omega)] at this
        omega
      rw [v1 _ hne]
      exact hav (j + 1) (by simp; omega)
    obtain ⟨i1, i2⟩ := ih _ a1 f1 hk' hav'
    refine ⟨?_, ?_⟩
    · rw [i1, d1, n1]
      simp only [List.length_cons, List.range_succ_eq_map, List.zipWith_cons_cons, List.zipWith_map_left,
        List.append_assoc, List.singleton_append, Nat.add_zero, Nat.mod_eq_of_lt hn]
      have e : (fun (j : Nat) (c : Conn) => (c, ((s.next + 1) % cfg.nIdx + j) % cfg.nIdx)) =
          (fun (a : Nat) (b : Conn) => (b, (s.next + a.succ) % cfg.nIdx)) := by
        funext j c
        rw [Nat.add_mod, Nat.mod_mod, ← Nat.add_mod]
        congr 2; omega
      rw [e]
    · rw [i2, n1]
      simp only [List.length_cons]
      rw [Nat.add_mod, Nat.mod_mod, ← Nat.add_mod]; congr 1; omega


/-- the first worker marked available at or after slot `p`, looking at most `k` slots (cyclically) -/
def firstAvail (n : Nat) (avail : Nat → Bool) : Nat → Nat → Option Nat
  | 0, _ => none
  | k + 1, p => if avail p then some p else firstAvail n avail k ((p + 1) % n)

theorem firstAvail_some {n : Nat} {avail : Nat → Bool} (hn : 0 < n) :
    ∀ (k p w : Nat), p < n → firstAvail n avail k p = some w → avail w = true ∧ w < n := by
  intro k; induction k with
  | zero => intro p w _ h; cases h
  | succ k ih =>
    intro p w hp h
    simp only [firstAvail] at h
    split at h
    · rename_i hav; cases h; exact ⟨hav, hp⟩
    · exact ih _ w (Nat.mod_lt _ hn) h

/-- a state that differs only in the cursor is as good -/
theorem AccInv.setCursor {cfg s} (h : AccInv cfg s) (n : Nat) (hn : n < cfg.nIdx) : AccInv cfg { s with next := n } :=
  ⟨goodC_next h.good n hn, h.pend, h.sched⟩

/-- **Round robin skips exactly the unavailable workers**: `accept_one` dispatches the connection to the first
worker marked available at or after the cursor (cyclically) and leaves the cursor right behind it — whatever
other threads do at the yield point of the send (fault-free regime). -/
theorem acceptOne_first_available {cfg : Cfg} (ok : CfgOk cfg) : ∀ (k fuel : Nat) (s : St) (c : Conn) (w : Nat),
    AccInv cfg s → s.fault = none → firstAvail cfg.nIdx s.avail k s.next = some w →
    (acceptOne cfg (k + fuel) s c).dispatched = s.dispatched ++ [(c, w)] ∧
    (acceptOne cfg (k + fuel) s c).next = (w + 1) % cfg.nIdx := by
  intro k; induction k with
  | zero => intro fuel s c w _ _ h; cases h
  | succ k ih =>
    intro fuel s c w h hnf hf
    have hn : s.next < cfg.nIdx := h.good.1.next_lt
    obtain ⟨hwa, hwn⟩ := firstAvail_some ok.pos (k + 1) s.next w hn hf
    have e : k + 1 + fuel = (k + fuel) + 1 := by omega
    simp only [firstAvail] at hf
    split at hf
    · rename_i hav
      cases hf
      rw [e]
      exact acceptOne_dispatches_to_cursor ok (k + fuel) s c h hnf hav
    · rename_i hav
      have hav' : s.avail s.next = false := by simpa using hav
      have hany : anyAvail cfg s = true := by
        unfold anyAvail; exact List.any_eq_true.mpr ⟨w, List.mem_range.mpr hwn, hwa⟩
      rw [e, acceptOne_skips_unavailable ok (k + fuel) s c h hnf hav' hany]
      have h2 := h.setCursor ((s.next + 1) % cfg.nIdx) (Nat.mod_lt _ ok.pos)
      exact ih fuel { s with next := (s.next + 1) % cfg.nIdx } c w h2 hnf hf

end ActixNet.Srv
