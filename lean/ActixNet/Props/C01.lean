import ActixNet.Lemmas.SrvLog
/-!
# C01 — each accepted connection reaches exactly one worker, with its listener's token

Over `ActixNet.Srv` (accept side; any schedule of worker / client / server actions — including
worker deaths — at every yield point).  The worker side ("the call goes to the service registered
for the connection's token; queued connections are released at shutdown") is C07 / C06 on the
`Worker` model.
-/
namespace ActixNet.C01
open ActixNet ActixNet.Srv

/-- A client connect creates one fresh connection, tagged with the listener it arrived on, at the
tail of that listener's backlog. -/
theorem connect_creates_tagged (cfg : Cfg) (s : St) (l : Nat) (hl : l < s.nLst)
    (hlink : (s.lst l).kind = .tcp ∨ (s.lst l).linked = true) :
    (envStep cfg s (.connect l)).2 = .conn (s.nextConn, l) ∧
    ((envStep cfg s (.connect l)).1.lst l).backlog = (s.lst l).backlog ++ [(s.nextConn, l)] ∧
    (envStep cfg s (.connect l)).1.nextConn = s.nextConn + 1 := by
  rcases hlink with h | h <;> simp [envStep, hl, h]

/-- `accept()` hands out exactly the head of the listener's backlog and removes it from there. -/
theorem accept_takes_head (s : St) (l : Nat) (c : Conn) (b : List Conn)
    (hi : (s.lst l).inject = []) (hb : (s.lst l).backlog = c :: b) :
    (acceptSys s l).2 = .conn c ∧ ((acceptSys s l).1.lst l).backlog = b := by
  simp [acceptSys, hi, hb]

/-- **never twice, never lost by the accept thread**: `accept_one c` (when it terminates without a
fault — C08) appends `c` exactly once to the dispatch log, for a worker that was alive when the
connection was sent, or else drops it having found that no worker handle is left.  Holds for every
interleaving of other threads' actions, including workers dying inside the send/increment window. -/
theorem accept_one_places_exactly_once (cfg : Cfg) (fuel : Nat) (s : St) (c : Conn)
    (hnf : (acceptOne cfg fuel s c).fault = none) : PlacedOnce s (acceptOne cfg fuel s c) c :=
  acceptOne_log cfg fuel s c hnf

/-- a connection is dropped by the accept thread only when no worker handle is left -/
theorem dropped_only_without_workers (cfg : Cfg) (fuel : Nat) (s : St) (c : Conn)
    (hnf : (acceptOne cfg fuel s c).fault = none)
    (hnd : (acceptOne cfg fuel s c).dispatched = s.dispatched) :
    (acceptOne cfg fuel s c).handles = [] := by
  rcases acceptOne_log cfg fuel s c hnf with ⟨_, w, _, _, _, hd⟩ | ⟨_, hh, _⟩
  · rw [hnd] at hd
    have := congrArg List.length hd
    simp at this
  · exact hh

/-- the worker takes connections from its channel in FIFO order, one at a time -/
theorem recv_takes_queue_head (cfg : Cfg) (s : St) (w : Nat) (c : Conn) (q : List Conn) (hw : w < s.nWk)
    (hal : (s.wk w).alive = true) (hq : (s.wk w).queue = c :: q) :
    (envStep cfg s (.recv w)).2 = .conn c ∧ ((envStep cfg s (.recv w)).1.wk w).queue = q ∧
    ((envStep cfg s (.recv w)).1.wk w).inflight = (s.wk w).inflight ++ [c] := by
  simp [envStep, hw, hal, hq]

/-- finishing a connection removes exactly that connection from the worker and records it as finished -/
theorem finish_moves_one (cfg : Cfg) (s : St) (w : Nat) (cid : Option Nat) (c : Conn) (hw : w < s.nWk)
    (hc : pickInflight (s.wk w) cid = some c) :
    (envStep cfg s (.finishNow w cid)).1.finished = s.finished ++ [c] ∧
    ((envStep cfg s (.finishNow w cid)).1.wk w).inflight = (s.wk w).inflight.eraseP (fun x => x.1 == c.1) ∧
    ((envStep cfg s (.finishNow w cid)).1.wk w).queue = (s.wk w).queue := by
  simp only [envStep, hw, ↓reduceIte, hc]
  split <;> simp [pushWq]

/-! ### Non-vacuity -/
def demoCfg : Cfg := { limit := 2, nIdx := 2 }
-- worker 0 dies inside window W1 of the first dispatch; the next connection is re-routed to worker 1
def demoOps : List Op :=
  [.env (.connect 0), .env (.connect 0), .env (.connect 0),
   .poll [.listener 0, .waker] [[], [.die 0], [], []], .poll [.waker] []]
example : ((run demoCfg (init demoCfg [.tcp]) demoOps).dispatched.map (·.2)) = [0, 1, 1] ∧
    (run demoCfg (init demoCfg [.tcp]) demoOps).fault = none ∧
    (run demoCfg (init demoCfg [.tcp]) demoOps).faultedLog = [0] := by decide

end ActixNet.C01
