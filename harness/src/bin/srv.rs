//! Engine `srv` (C01–C05, C08): the REAL `actix_server` accept loop, stepped one iteration at a time
//! through the cfg-guarded hooks (`actix_server::verif`), with the harness playing the workers,
//! the clients and the server future. Same op lines as the Lean model `ActixNet.Srv`.
use std::{
    cell::RefCell,
    collections::{BTreeMap, HashMap},
    io::{self, Write},
    os::unix::io::AsRawFd,
    rc::Rc,
    sync::{
        atomic::{AtomicU64, Ordering},
        Arc,
    },
    time::Duration,
};

use actix_server::verif::{
    self as hooks, AcceptDriver, FaultedRx, InFlight, ListenerSpec, Point, WakerHandle, WorkerEnds, WAKER,
};
use vh::*;

enum Client {
    Tcp(#[allow(dead_code)] std::net::TcpStream),
    Uds(#[allow(dead_code)] std::os::unix::net::UnixStream),
}

enum Addr {
    Tcp(std::net::SocketAddr),
    Uds(std::path::PathBuf),
}

/// everything that is not the accept thread: workers, clients, server future
struct World {
    limit: usize,
    nidx: usize,
    addrs: Vec<Addr>,
    fds: Vec<i32>,
    waker: WakerHandle,
    faulted_rx: FaultedRx,
    faulted_log: Vec<usize>,
    restarted: usize,
    ends: Vec<WorkerEnds>,          // by incarnation id
    idx_of: Vec<usize>,             // incarnation -> worker index
    inflight: Vec<Vec<(u32, InFlight)>>, // per incarnation, oldest first
    clients: Vec<Client>,
    next_conn: u32,
    acts: Vec<String>,
    // bookkeeping for the T3 oracles (from real observations only)
    connected: BTreeMap<u32, usize>,   // id -> listener
    received: BTreeMap<u32, (usize, usize)>, // id -> (incarnation, token)
    sends: Vec<usize>,                 // worker idx of every successful send, in order
    sends_by_wid_live: HashMap<usize, i64>, // idx -> sends - finishes
    max_live: HashMap<usize, i64>,
    any_die: bool,
    any_inject: bool,
    stop_seen: bool,
    live_wid: Vec<i64>,      // per incarnation: dispatched to it and not yet finished / lost
    sent_wid: Vec<i64>,
    recvd_wid: Vec<i64>,
    resume_seen: bool,       // a resume command was issued since the last `poll` op ended
    ever_no_handles: bool,
    last_cmd_pause: Option<bool>, // the last pause (true) / resume (false) command issued, in issue order
    t3: Vec<(String, String)>,
}

fn noop_advance(ms: u64) {
    // tokio::time::advance is async; in a paused runtime the clock moves at the first poll
    use std::{future::Future, pin::pin, task::Context};
    let fut = tokio::time::advance(Duration::from_millis(ms));
    let mut fut = pin!(fut);
    let w = futures_util::task::noop_waker();
    let mut cx = Context::from_waker(&w);
    let _ = fut.as_mut().poll(&mut cx);
}

fn parse_kind(k: &str) -> Option<io::Error> {
    use io::ErrorKind::*;
    let kind = match k {
        "EMFILE" => return Some(io::Error::from_raw_os_error(24)),
        "NotFound" => NotFound,
        "PermissionDenied" => PermissionDenied,
        "ConnectionRefused" => ConnectionRefused,
        "ConnectionReset" => ConnectionReset,
        "ConnectionAborted" => ConnectionAborted,
        "NotConnected" => NotConnected,
        "AddrInUse" => AddrInUse,
        "AddrNotAvailable" => AddrNotAvailable,
        "BrokenPipe" => BrokenPipe,
        "AlreadyExists" => AlreadyExists,
        "WouldBlock" => WouldBlock,
        "InvalidInput" => InvalidInput,
        "InvalidData" => InvalidData,
        "TimedOut" => TimedOut,
        "WriteZero" => WriteZero,
        "Interrupted" => Interrupted,
        "Unsupported" => Unsupported,
        "UnexpectedEof" => UnexpectedEof,
        "OutOfMemory" => OutOfMemory,
        "Other" => Other,
        _ => return None,
    };
    Some(io::Error::from(kind))
}

impl World {
    /// the incarnation of worker index `idx` whose channel is open (a successful send went to it)
    fn alive_wid(&self, idx: usize) -> Option<usize> {
        (0..self.ends.len()).rev().find(|w| self.idx_of[*w] == idx && self.ends[*w].alive())
    }

    fn live(&self, idx: usize) -> i64 {
        *self.sends_by_wid_live.get(&idx).unwrap_or(&0)
    }

    /// one environment action; returns false if the text is not an action at all
    fn act(&mut self, a: &str) -> bool {
        let parts: Vec<&str> = a.split(':').collect();
        let res: String = match parts.as_slice() {
            ["connect", l] => match l.parse::<usize>() {
                Ok(l) if l < self.addrs.len() => {
                    let id = self.next_conn;
                    let r: io::Result<Client> = match &self.addrs[l] {
                        Addr::Tcp(a) => {
                            let mut tries = 0;
                            loop {
                                match std::net::TcpStream::connect(a) {
                                    Err(e) if tries < 300 && matches!(e.kind(), io::ErrorKind::AddrInUse | io::ErrorKind::AddrNotAvailable) => {
                                        tries += 1;
                                        std::thread::sleep(Duration::from_millis(200));
                                    }
                                    r => break r,
                                }
                            }
                        }
                        .and_then(|mut s| {
                            // close with RST: thousands of short-lived loopback connections must not pile up in
                            // TIME_WAIT and exhaust the ephemeral ports of the machine
                            let _ = socket2::SockRef::from(&s).set_linger(Some(Duration::ZERO));
                            s.write_all(&id.to_be_bytes())?;
                            Ok(Client::Tcp(s))
                        }),
                        Addr::Uds(p) => std::os::unix::net::UnixStream::connect(p).and_then(|mut s| {
                            s.write_all(&id.to_be_bytes())?;
                            Ok(Client::Uds(s))
                        }),
                    };
                    match r {
                        Ok(c) => {
                            self.clients.push(c);
                            self.next_conn += 1;
                            self.connected.insert(id, l);
                            format!("c{id}@{l}")
                        }
                        Err(e) => {
                            // T3 (C05): a listener of a server that was never stopped must stay connectable
                            if !self.stop_seen {
                                self.t3.push(("C05".into(), format!("client cannot connect to listener {l} ({e}) although the server was not stopped: the listener is stranded")));
                            }
                            "refused".into()
                        }
                    }
                }
                Ok(_) => "bad".into(),
                Err(_) => return false,
            },
            ["recv", w] => match w.parse::<usize>() {
                Ok(w) if w < self.ends.len() && self.ends[w].alive() => match self.ends[w].recv() {
                    Some(mut inf) => {
                        let mut buf = [0u8; 4];
                        let mut got = 0;
                        for _ in 0..2000 {
                            match inf.read(&mut buf[got..]) {
                                Ok(n) if n > 0 => {
                                    got += n;
                                    if got == 4 {
                                        break;
                                    }
                                }
                                _ => std::thread::sleep(Duration::from_micros(200)),
                            }
                        }
                        let id = if got == 4 { u32::from_be_bytes(buf) } else { u32::MAX };
                        let tok = inf.token();
                        // T3 (C01): identity, uniqueness, routing
                        match self.connected.get(&id) {
                            None => self.t3.push(("C01".into(), format!("worker received a connection (id {id}) that no client opened"))),
                            Some(l) if *l != tok => self.t3.push(("C01".into(), format!("connection c{id} opened on listener {l} was delivered with token {tok}"))),
                            _ => {}
                        }
                        if self.received.insert(id, (w, tok)).is_some() {
                            self.t3.push(("C01".into(), format!("connection c{id} delivered twice")));
                        }
                        self.inflight[w].push((id, inf));
                        self.recvd_wid[w] += 1;
                        format!("c{id}@{tok}")
                    }
                    None => "none".into(),
                },
                Ok(_) => "bad".into(),
                Err(_) => return false,
            },
            ["finish", w, c] => match w.parse::<usize>() {
                Ok(wi) if *c == "*" || c.parse::<u32>().is_ok() => match finish_inflight(self, wi, c) {
                    Some(true) => "dec1".into(),
                    Some(false) => "dec0".into(),
                    None => "bad".into(),
                },
                _ => return false,
            },
            ["die", w] => match w.parse::<usize>() {
                Ok(w) if w < self.ends.len() && self.ends[w].alive() => {
                    self.ends[w].die();
                    self.any_die = true;
                    // connections still queued in its channel are lost with it
                    let queued = self.sent_wid[w] - self.recvd_wid[w];
                    self.live_wid[w] -= queued;
                    "ok".into()
                }
                Ok(_) => "bad".into(),
                Err(_) => return false,
            },
            ["pause"] => {
                self.last_cmd_pause = Some(true);
                self.waker.pause();
                "ok".into()
            }
            ["resume"] => {
                self.resume_seen = true;
                self.last_cmd_pause = Some(false);
                self.waker.resume();
                "ok".into()
            }
            ["stop"] => {
                self.stop_seen = true;
                self.waker.stop();
                "ok".into()
            }
            ["restart", i] => match i.parse::<usize>() {
                Ok(i) => {
                    self.faulted_log.extend(self.faulted_rx.drain());
                    if self.restarted < self.faulted_log.len() && self.faulted_log[self.restarted] == i {
                        self.restarted += 1;
                        let (handle, _stop, ends) = hooks::worker_ends(i, &self.waker, self.limit);
                        self.ends.push(ends);
                        self.idx_of.push(i);
                        self.inflight.push(vec![]);
                        self.live_wid.push(0);
                        self.sent_wid.push(0);
                        self.recvd_wid.push(0);
                        self.waker.worker(handle);
                        format!("w{}", self.ends.len() - 1)
                    } else {
                        "bad".into()
                    }
                }
                Err(_) => return false,
            },
            ["advance", ms] => match ms.parse::<u64>() {
                Ok(ms) => {
                    noop_advance(ms);
                    "ok".into()
                }
                Err(_) => return false,
            },
            ["inject", l, k] => match (l.parse::<usize>(), parse_kind(k)) {
                (Ok(l), Some(e)) => {
                    if l < self.fds.len() {
                        hooks::inject_accept_error_fd(self.fds[l], e);
                        self.any_inject = true;
                        "ok".into()
                    } else {
                        "bad".into()
                    }
                }
                _ => return false,
            },
            _ => return false,
        };
        self.acts.push(res);
        true
    }
}


/// `wq-race n`: a fresh accept loop without workers; another thread hands it `n` worker handles (`Worker(handle)`
/// interests through `WakerQueue::wake`, as the server does for replacements) as fast as it can WHILE this thread runs
/// loop iterations. Every interest whose `wake` call returned must be processed: afterwards the loop knows `n` handles.
/// Returns (handles known to the loop, interests left in the queue after the drain).
fn run_wq_race(n: usize) -> Result<(usize, usize), String> {
    let l = std::net::TcpListener::bind("127.0.0.1:0").map_err(|e| format!("bind: {e}"))?;
    let mut waker_h = None;
    let (mut driver, _frx) = AcceptDriver::new(vec![ListenerSpec::Tcp(l)], |waker| {
        waker_h = Some(waker.clone());
        vec![]
    })
    .map_err(|e| format!("driver: {e}"))?;
    let waker = waker_h.unwrap();
    let mut keep = vec![];
    let mut handles = vec![];
    for i in 0..n {
        let (h, stop, ends) = hooks::worker_ends(i, &waker, 1);
        keep.push((stop, ends));
        handles.push(h);
    }
    let done = Arc::new(std::sync::atomic::AtomicBool::new(false));
    let (d2, w2) = (done.clone(), waker.clone());
    let t = std::thread::spawn(move || {
        for (k, h) in handles.into_iter().enumerate() {
            w2.worker(h);
            // leave the loop time to start (and finish) a drain between two pushes: the more drains end while the
            // producer is active, the more often a push meets the end of a drain
            for _ in 0..(k % 7) * 40 {
                std::hint::spin_loop();
            }
        }
        d2.store(true, Ordering::SeqCst);
    });
    let t0 = std::time::Instant::now();
    while !done.load(Ordering::SeqCst) && t0.elapsed() < Duration::from_secs(30) {
        driver.step();
    }
    t.join().map_err(|_| "producer panicked".to_string())?;
    for _ in 0..4 {
        driver.step();
    }
    let st = driver.state(n);
    Ok((st.handles.len(), waker.queued()))
}

static NOFILE_SAVED: std::sync::Mutex<Option<libc::rlimit>> = std::sync::Mutex::new(None);

/// no file descriptor can be allocated in this process until `nofile_restore` (existing ones keep working)
fn nofile_set() {
    let mut g = NOFILE_SAVED.lock().unwrap_or_else(|e| e.into_inner());
    if g.is_none() {
        let mut cur = libc::rlimit { rlim_cur: 0, rlim_max: 0 };
        unsafe {
            libc::getrlimit(libc::RLIMIT_NOFILE, &mut cur);
            let zero = libc::rlimit { rlim_cur: 0, rlim_max: cur.rlim_max };
            libc::setrlimit(libc::RLIMIT_NOFILE, &zero);
        }
        *g = Some(cur);
    }
}

fn nofile_restore() {
    let mut g = NOFILE_SAVED.lock().unwrap_or_else(|e| e.into_inner());
    if let Some(cur) = g.take() {
        unsafe {
            libc::setrlimit(libc::RLIMIT_NOFILE, &cur);
        }
    }
}

/// drop the guard of one in-flight connection of incarnation `wi` (`cid` = "*" for the oldest);
/// `Some(crossed)` where `crossed` = the real `dec()` returned true (a wake-up was queued)
fn finish_inflight(w: &mut World, wi: usize, cid: &str) -> Option<bool> {
    if wi >= w.inflight.len() {
        return None;
    }
    let pos = if cid == "*" {
        if w.inflight[wi].is_empty() { None } else { Some(0) }
    } else {
        cid.parse::<u32>().ok().and_then(|c| w.inflight[wi].iter().position(|(id, _)| *id == c))
    }?;
    let (_, inf) = w.inflight[wi].remove(pos);
    let idx = w.idx_of[wi];
    *w.sends_by_wid_live.entry(idx).or_insert(0) -= 1;
    w.live_wid[wi] -= 1;
    let before = w.waker.queued();
    let raw_before = w.ends[wi].counter_raw();
    drop(inf); // the real WorkerCounterGuard::drop: dec (+ wake)
    let crossed = w.waker.queued() > before;
    // a release queues a notification exactly when it takes the worker from its limit to one below — whatever the counter
    // had been pushed to by a forced dispatch after a fault (seed16 C08-31: `fetch_sub(1) > limit` instead of `- 1 == limit`,
    // the same for every value reachable without a fault). The shared counter is biased by one.
    let at_limit = raw_before >= 1 && raw_before - 1 == w.limit;
    if crossed != at_limit {
        let msg = format!(
            "a connection ended at worker {idx} with {} in progress (limit {}): a WorkerAvailable notification was {}queued, it must {}be",
            raw_before.saturating_sub(1), w.limit, if crossed { "" } else { "not " }, if at_limit { "" } else { "not " });
        for p in ["C03", "C08", "C02"] {
            w.t3.push((p.into(), msg.clone()));
        }
    }
    Some(crossed)
}

struct Case {
    driver: AcceptDriver,
    world: Rc<RefCell<World>>,
    yields: Rc<RefCell<usize>>,
    uds_paths: Vec<std::path::PathBuf>,
    // C03/C04 oracle state
    prev_op_was_quiet_poll: bool,
    /// an `inject` act appeared (syntactically) in an env line or a poll schedule of this case
    inject_seen: bool,
    paused_cmds: bool,
    stop_cmd: bool,
    exited: bool,
}

static UDS_SEQ: AtomicU64 = AtomicU64::new(0);

/// scenario ops that legitimately wait in real time (`bld`, `pse`) tick this while they run, for at most four
/// minutes, so that the spinning-accept-loop watchdog does not mistake them for a hang
static HEARTBEAT: AtomicU64 = AtomicU64::new(0);

struct Beating(Arc<std::sync::atomic::AtomicBool>);
impl Beating {
    fn start() -> Beating {
        let on = Arc::new(std::sync::atomic::AtomicBool::new(true));
        let on2 = on.clone();
        std::thread::spawn(move || {
            for _ in 0..240 {
                if !on2.load(Ordering::SeqCst) {
                    break;
                }
                HEARTBEAT.fetch_add(1, Ordering::SeqCst);
                std::thread::sleep(Duration::from_secs(1));
            }
        });
        Beating(on)
    }
}
impl Drop for Beating {
    fn drop(&mut self) {
        self.0.store(false, Ordering::SeqCst);
    }
}

fn kv<'a>(ws: &'a [&str], key: &str) -> Option<&'a str> {
    ws.iter().find_map(|w| w.strip_prefix(key).and_then(|r| r.strip_prefix('=')))
}

fn valid_acts(s: &str) -> bool {
    // syntactic check only (the same grammar as the Lean driver)
    if s.is_empty() {
        return true;
    }
    s.split(',').all(|a| {
        let p: Vec<&str> = a.split(':').collect();
        match p.as_slice() {
            ["connect", x] | ["recv", x] | ["die", x] | ["restart", x] | ["advance", x] => x.parse::<u64>().is_ok(),
            ["finish", w, c] => w.parse::<u64>().is_ok() && (*c == "*" || c.parse::<u64>().is_ok()),
            ["pause"] | ["resume"] | ["stop"] => true,
            ["inject", l, k] => l.parse::<u64>().is_ok() && parse_kind(k).is_some(),
            _ => false,
        }
    })
}

impl Case {
    fn new(ws: &[&str]) -> io::Result<Case> {
        let workers: usize = kv(ws, "workers").and_then(|v| v.parse().ok()).unwrap_or(1);
        let limit: usize = kv(ws, "limit").and_then(|v| v.parse().ok()).unwrap_or(1);
        let kinds: Vec<&str> = kv(ws, "listeners").unwrap_or("tcp").split(',').collect();
        let mut specs = vec![];
        let mut addrs = vec![];
        let mut fds = vec![];
        let mut uds_paths = vec![];
        for k in &kinds {
            if *k == "uds" {
                let dir = std::path::Path::new("/verif/.build/run/uds");
                std::fs::create_dir_all(dir)?;
                let p = dir.join(format!("{}-{}.sock", std::process::id(), UDS_SEQ.fetch_add(1, Ordering::SeqCst)));
                let _ = std::fs::remove_file(&p);
                let l = std::os::unix::net::UnixListener::bind(&p)?;
                fds.push(l.as_raw_fd());
                addrs.push(Addr::Uds(p.clone()));
                uds_paths.push(p);
                specs.push(ListenerSpec::Uds(l));
            } else {
                // environment hiccups (ephemeral ports exhausted by TIME_WAIT sockets of other runs) are not
                // property violations: wait for a port
                let l = {
                    let mut tries = 0;
                    loop {
                        match std::net::TcpListener::bind("127.0.0.1:0") {
                            Ok(l) => break l,
                            Err(e) if tries < 300 && matches!(e.kind(), io::ErrorKind::AddrInUse | io::ErrorKind::AddrNotAvailable) => {
                                tries += 1;
                                std::thread::sleep(Duration::from_millis(200));
                            }
                            Err(e) => return Err(e),
                        }
                    }
                };
                fds.push(l.as_raw_fd());
                addrs.push(Addr::Tcp(l.local_addr()?));
                specs.push(ListenerSpec::Tcp(l));
            }
        }
        let mut ends_v = vec![];
        let mut waker_h = None;
        let (driver, faulted_rx) = AcceptDriver::new(specs, |waker| {
            waker_h = Some(waker.clone());
            (0..workers)
                .map(|i| {
                    let (h, _stop, ends) = hooks::worker_ends(i, waker, limit);
                    ends_v.push(ends);
                    h
                })
                .collect()
        })?;
        let world = World {
            limit,
            nidx: workers,
            addrs,
            fds,
            waker: waker_h.unwrap(),
            faulted_rx,
            faulted_log: vec![],
            restarted: 0,
            inflight: (0..workers).map(|_| vec![]).collect(),
            idx_of: (0..workers).collect(),
            ends: ends_v,
            clients: vec![],
            next_conn: 0,
            acts: vec![],
            connected: BTreeMap::new(),
            received: BTreeMap::new(),
            sends: vec![],
            sends_by_wid_live: HashMap::new(),
            max_live: HashMap::new(),
            any_die: false,
            any_inject: false,
            stop_seen: false,
            live_wid: vec![0; workers],
            sent_wid: vec![0; workers],
            recvd_wid: vec![0; workers],
            resume_seen: false,
            ever_no_handles: false,
            last_cmd_pause: None,
            t3: vec![],
        };
        Ok(Case {
            driver,
            world: Rc::new(RefCell::new(world)),
            yields: Rc::new(RefCell::new(0)),
            uds_paths,
            prev_op_was_quiet_poll: false,
            inject_seen: false,
            paused_cmds: false,
            stop_cmd: false,
            exited: false,
        })
    }

    fn snapshot(&mut self) -> String {
        let mut w = self.world.borrow_mut();
        let drained = w.faulted_rx.drain();
        w.faulted_log.extend(drained);
        let st = self.driver.state(w.nidx);
        let acts = std::mem::take(&mut w.acts).join(",");
        let h: Vec<String> = st.handles.iter().map(|i| i.to_string()).collect();
        let av: String = st.avail.iter().map(|b| if *b { '1' } else { '0' }).collect();
        let ctr: Vec<String> = w.ends.iter().map(|e| e.counter_raw().to_string()).collect();
        let dl: Vec<String> = st
            .socket_deadlines
            .iter()
            .map(|d| d.map_or("-".to_string(), |d| d.as_millis().to_string()))
            .collect();
        let faulted: Vec<String> = w.faulted_log.iter().map(|i| i.to_string()).collect();
        format!(
            "acts=[{}] disp=[{}] next={} h=[{}] av={} ctr=[{}] wq={} paused={} to={} dl=[{}] faulted=[{}] exit={} fault=-",
            acts,
            "",
            st.next,
            h.join(","),
            av,
            ctr.join(","),
            w.waker.queued(),
            st.paused as u8,
            st.timeout.map_or("-".to_string(), |d| d.as_millis().to_string()),
            dl.join(","),
            faulted.join(","),
            self.exited as u8,
        )
    }
}

/// install the yield hook: chunk k of `chunks` runs at the k-th yield point of this iteration
fn install_hook(world: &Rc<RefCell<World>>, yields: &Rc<RefCell<usize>>, chunks: Vec<Vec<String>>, disp: Rc<RefCell<Vec<usize>>>) {
    let world = world.clone();
    let yields = yields.clone();
    hooks::set_yield_hook(Some(Box::new(move |p: Point| match p {
        Point::AfterDec(_) => {}
        _ => {
            if std::env::var("VH_DEBUG").is_ok() {
                eprintln!("yield {p:?}");
            }
            let k = {
                let mut y = yields.borrow_mut();
                *y += 1;
                *y - 1
            };
            if let Point::AfterSend(idx) = p {
                disp.borrow_mut().push(idx);
                let mut w = world.borrow_mut();
                w.sends.push(idx);
                let live = {
                    let e = w.sends_by_wid_live.entry(idx).or_insert(0);
                    *e += 1;
                    *e
                };
                let m = w.max_live.entry(idx).or_insert(0);
                if live > *m {
                    *m = live;
                }
                if let Some(wid) = w.alive_wid(idx) {
                    w.live_wid[wid] += 1;
                    w.sent_wid[wid] += 1;
                }
                // T3 (C02): more than `limit` connections in progress at one worker (fault-free runs)
                if !w.any_die && live > w.limit as i64 {
                    let msg = format!("worker {idx} has {live} connections in progress, limit {}", w.limit);
                    w.t3.push(("C02".into(), msg.clone()));
                    // T3 (C04): a saturated worker receives nothing until it has released a connection
                    w.t3.push(("C04".into(), format!("a saturated worker was given another connection: {msg}")));
                }
            }
            if let Some(chunk) = chunks.get(k) {
                let mut w = world.borrow_mut();
                for a in chunk {
                    w.act(a);
                }
            }
        }
    })));
}

/// `bld workers=W limit=L n=K calls=c1,c2,…`: a REAL `Server` built through the public `ServerBuilder` with the
/// setter calls in the given order (`limit`, `workers`, `blocking:N`, `backlog:N`, `timeout:S`), one TCP listener,
/// `K >= W*L` clients held open. The service counts the connections in progress on its worker thread.
/// Judged one-sidedly (a slow machine can only hide a violation, never produce one): T3 iff some worker has more
/// than `L` connections in progress, or more than `W*L` are in progress in total.
fn run_bld(ws: &[&str]) -> Option<(String, Vec<String>)> {
    use std::sync::atomic::{AtomicBool, AtomicUsize};
    let workers: usize = kv(ws, "workers")?.parse().ok()?;
    let limit: usize = kv(ws, "limit")?.parse().ok()?;
    let n: usize = kv(ws, "n")?.parse().ok()?;
    let calls: Vec<&str> = kv(ws, "calls")?.split(',').collect();
    let numarg = |c: &str, k: &str| -> Option<usize> {
        let v: usize = c.strip_prefix(k)?.strip_prefix(':')?.parse().ok()?;
        if (1..=4096).contains(&v) && !c[k.len() + 1..].starts_with('+') {
            Some(v)
        } else {
            None
        }
    };
    let ok_call = |c: &&str| *c == "limit" || *c == "maxconn" || *c == "workers" || *c == "listen" || *c == "mptcp:0" || *c == "mptcp:1" || numarg(c, "blocking").is_some() || numarg(c, "backlog").is_some() || numarg(c, "timeout").is_some();
    // a limit of 2^31 or more (up to usize::MAX): nothing ever saturates, every one of the n clients is served
    let big = limit >= 1usize << 31;
    if !((1..=8).contains(&workers) && (((1..=16).contains(&limit) && workers * limit <= n) || (big && n >= 1)) && n <= 64 && calls.iter().all(ok_call))
        || calls.iter().filter(|c| **c == "limit" || **c == "maxconn").count() != 1
        || calls.iter().filter(|c| **c == "workers").count() != 1
        || calls.iter().filter(|c| **c == "listen").count() > 3
    {
        return None;
    }
    // `rel=k`: at the plateau the first k held connections are closed by their clients, one at a time; the slot
    // each one frees may only be refilled on the worker that freed it
    let rel: usize = match kv(ws, "rel") {
        None => 0,
        Some(v) => match v.parse() {
            Ok(k) if k <= 8 && !v.starts_with('+') => k,
            _ => return None,
        },
    };
    struct Shared {
        maxper: AtomicUsize,
        started: AtomicUsize,
        done: AtomicUsize,
        release: AtomicBool,
        kill_next: AtomicBool,
        factory_calls: AtomicUsize,
    }
    // `kill=1`: before the measurement one worker is killed (its service panics on a connection) and the server
    // replaces it: the replacement must get the configured limit too
    let kill = match kv(ws, "kill") {
        None | Some("0") => false,
        Some("1") => true,
        _ => return None,
    };
    // `via=test`: the server is started through `TestServer::start_with_builder` (one worker) — the builder's limit
    // must survive that path too. `resume=1|2`: at the plateau `ServerHandle::resume()` is called (2: after a
    // `pause()`): no worker has released anything, so nothing more may be dispatched.
    let via_test = match kv(ws, "via") {
        None => false,
        Some("test") if workers == 1 && !kill && kv(ws, "resume").is_none() => true,
        _ => return None,
    };
    let resume: usize = match kv(ws, "resume") {
        None | Some("0") => 0,
        Some("1") => 1,
        Some("2") => 2,
        _ => return None,
    };
    thread_local! { static INPROG: std::cell::Cell<usize> = const { std::cell::Cell::new(0) }; }
    let sh = Arc::new(Shared { maxper: AtomicUsize::new(0), started: AtomicUsize::new(0), done: AtomicUsize::new(0), release: AtomicBool::new(false), kill_next: AtomicBool::new(false), factory_calls: AtomicUsize::new(0) });
    let calls: Vec<String> = calls.iter().map(|c| c.to_string()).collect();
    let _beat = Beating::start();
    let sh2 = sh.clone();
    let res = std::thread::spawn(move || -> Result<(usize, usize, usize, usize), String> {
        let sh = sh2;
        actix_rt::System::new().block_on(async move {
            // ports may be scarce when many checks run at once: wait for one
            let mut tries = 0;
            let lst = loop {
                match std::net::TcpListener::bind("127.0.0.1:0") {
                    Ok(l) => break l,
                    Err(e) if tries < 300 && matches!(e.kind(), io::ErrorKind::AddrInUse | io::ErrorKind::AddrNotAvailable) => {
                        tries += 1;
                        tokio::time::sleep(Duration::from_millis(200)).await;
                    }
                    Err(e) => return Err(format!("bind: {e}")),
                }
            };
            let addr = lst.local_addr().map_err(|e| e.to_string())?;
            let mut b = actix_server::Server::build();
            let mut extra = 0;
            for c in &calls {
                let arg = c.split(':').nth(1).and_then(|v| v.parse::<usize>().ok()).unwrap_or(0);
                b = match c.split(':').next().unwrap() {
                    // a further listener (never connected to) registered at this point of the call order
                    "listen" => {
                        extra += 1;
                        let l = std::net::TcpListener::bind("127.0.0.1:0").map_err(|e| format!("bind: {e}"))?;
                        b.listen(format!("verif-extra-{extra}"), l, || actix_service::fn_service(|_s: actix_rt::net::TcpStream| async { Ok::<_, ()>(()) }))
                            .map_err(|e| format!("listen: {e}"))?
                    }
                    "limit" => b.max_concurrent_connections(limit),
                    // the deprecated alias must configure the same limit
                    #[allow(deprecated)]
                    "maxconn" => b.maxconn(limit),
                    "mptcp" => b.mptcp(if arg == 0 { actix_server::MpTcp::Disabled } else { actix_server::MpTcp::TcpFallback }),
                    "workers" => b.workers(workers),
                    "blocking" => b.worker_max_blocking_threads(arg),
                    "backlog" => b.backlog(arg as u32),
                    "timeout" => b.shutdown_timeout(arg as u64),
                    _ => unreachable!(),
                };
            }
            let shs = sh.clone();
            let factory = move || {
                    let sh = shs.clone();
                    sh.factory_calls.fetch_add(1, Ordering::SeqCst); // one call per worker (re)start
                    actix_service::fn_service(move |stream: actix_rt::net::TcpStream| {
                        let sh = sh.clone();
                        if sh.kill_next.swap(false, Ordering::SeqCst) {
                            panic!("verif: service killed on request");
                        }
                        async move {
                            let c = INPROG.with(|c| {
                                c.set(c.get() + 1);
                                c.get()
                            });
                            sh.maxper.fetch_max(c, Ordering::SeqCst);
                            sh.started.fetch_add(1, Ordering::SeqCst);
                            while !sh.release.load(Ordering::SeqCst) {
                                tokio::time::sleep(Duration::from_millis(5)).await;
                                // the client has closed (or reset) the connection: it ends
                                match stream.try_read(&mut [0u8; 1]) {
                                    Err(e) if e.kind() == io::ErrorKind::WouldBlock => {}
                                    _ => break,
                                }
                            }
                            INPROG.with(|c| c.set(c.get() - 1));
                            sh.done.fetch_add(1, Ordering::SeqCst);
                            drop(stream);
                            Ok::<_, ()>(())
                        }
                    })
                };
            let mut test_server = None;
            let mut running = None;
            let addr = if via_test {
                drop(lst);
                let ts = actix_server::TestServer::start_with_builder(b, factory);
                let a = ts.addr();
                test_server = Some(ts);
                a
            } else {
                let srv = b.disable_signals().listen("verif-bld", lst, factory).map_err(|e| format!("listen: {e}"))?.run();
                let handle = srv.handle();
                running = Some((handle, actix_rt::spawn(srv)));
                addr
            };
            let mut clients = vec![];
            if kill {
                // C02 speaks of fault-free operation: the connection that discovers a dead worker is force-sent to
                // another worker whatever its load. So the fault, its discovery and the replacement all happen
                // BEFORE the measurement, with connections that end at once; only then are the clients held.
                sh.release.store(true, Ordering::SeqCst);
                let t0 = std::time::Instant::now();
                while sh.factory_calls.load(Ordering::SeqCst) < workers && t0.elapsed() < Duration::from_secs(30) {
                    tokio::time::sleep(Duration::from_millis(10)).await;
                }
                sh.kill_next.store(true, Ordering::SeqCst);
                let mut probes = vec![];
                let t0 = std::time::Instant::now();
                while (sh.kill_next.load(Ordering::SeqCst) || sh.factory_calls.load(Ordering::SeqCst) < workers + 1) && t0.elapsed() < Duration::from_secs(30) {
                    if let Ok(c) = std::net::TcpStream::connect(addr) {
                        let _ = socket2::SockRef::from(&c).set_linger(Some(Duration::ZERO));
                        probes.push(c);
                    }
                    tokio::time::sleep(Duration::from_millis(50)).await;
                }
                if sh.factory_calls.load(Ordering::SeqCst) < workers + 1 {
                    return Err("the killed worker was not replaced within 30 s".to_string());
                }
                // let every probe end, then start counting afresh
                let t0 = std::time::Instant::now();
                while sh.started.load(Ordering::SeqCst) != sh.done.load(Ordering::SeqCst) && t0.elapsed() < Duration::from_secs(30) {
                    tokio::time::sleep(Duration::from_millis(10)).await;
                }
                tokio::time::sleep(Duration::from_millis(300)).await;
                drop(probes);
                tokio::time::sleep(Duration::from_millis(200)).await;
                sh.release.store(false, Ordering::SeqCst);
                sh.maxper.store(0, Ordering::SeqCst);
                sh.started.store(0, Ordering::SeqCst);
                sh.done.store(0, Ordering::SeqCst);
            }
            for _ in 0..n {
                let mut tries = 0;
                let c = loop {
                    match std::net::TcpStream::connect(addr) {
                        Ok(c) => break c,
                        Err(e) if tries < 300 && matches!(e.kind(), io::ErrorKind::AddrInUse | io::ErrorKind::AddrNotAvailable) => {
                            tries += 1;
                            tokio::time::sleep(Duration::from_millis(200)).await;
                        }
                        Err(e) => return Err(format!("connect: {e}")),
                    }
                };
                let _ = socket2::SockRef::from(&c).set_linger(Some(Duration::ZERO));
                clients.push(c);
            }
            // wait for the plateau (every worker saturated), then give an over-dispatch time to show
            let want = workers.saturating_mul(limit).min(n);
            let t0 = std::time::Instant::now();
            while sh.started.load(Ordering::SeqCst) < want && t0.elapsed() < Duration::from_secs(60) {
                tokio::time::sleep(Duration::from_millis(10)).await;
            }
            tokio::time::sleep(Duration::from_millis(400)).await;
            if let (true, Some((handle, _))) = (resume > 0, running.as_ref()) {
                if resume == 2 {
                    handle.pause().await;
                    tokio::time::sleep(Duration::from_millis(150)).await;
                }
                handle.resume().await;
                tokio::time::sleep(Duration::from_millis(500)).await;
            }
            let started = sh.started.load(Ordering::SeqCst);
            let mut clients: std::collections::VecDeque<_> = clients.into();
            for k in 0..rel.min(want) {
                // one held connection ends; if one is waiting it takes the freed slot (on that worker)
                drop(clients.pop_front());
                let t0 = std::time::Instant::now();
                while sh.done.load(Ordering::SeqCst) < k + 1 && t0.elapsed() < Duration::from_secs(30) {
                    tokio::time::sleep(Duration::from_millis(10)).await;
                }
                let refill = (want + k + 1).min(n);
                let t0 = std::time::Instant::now();
                while sh.started.load(Ordering::SeqCst) < refill && t0.elapsed() < Duration::from_secs(3) {
                    tokio::time::sleep(Duration::from_millis(10)).await;
                }
                tokio::time::sleep(Duration::from_millis(200)).await;
            }
            let maxper = sh.maxper.load(Ordering::SeqCst);
            // connections started once the released slots had their time to be refilled
            let refilled = sh.started.load(Ordering::SeqCst);
            sh.release.store(true, Ordering::SeqCst);
            let t1 = std::time::Instant::now();
            while sh.done.load(Ordering::SeqCst) < n && t1.elapsed() < Duration::from_secs(60) {
                tokio::time::sleep(Duration::from_millis(10)).await;
            }
            let done = sh.done.load(Ordering::SeqCst);
            drop(clients);
            if let Some((handle, srv_task)) = running {
                let _ = tokio::time::timeout(Duration::from_secs(30), handle.stop(true)).await;
                let _ = tokio::time::timeout(Duration::from_secs(30), srv_task).await;
            }
            // (dropping a TestServerHandle stops its server and joins its thread)
            drop(test_server);
            Ok((sh.maxper.load(Ordering::SeqCst).max(maxper), started, done, refilled))
        })
    })
    .join();
    let mut t3 = vec![];
    let real = match res {
        Ok(Ok((maxper, started, done, refilled))) => {
            // `rel=k`: each of the k slots freed at the plateau is taken by a waiting client (as far as clients are left)
            // (the scenario releases at most as many connections as there are slots)
            let plateau = workers.saturating_mul(limit).min(n);
            let want_refilled = (plateau + rel.min(plateau)).min(n);
            if rel > 0 && !big && refilled < want_refilled {
                t3.push(("C03", format!("{rel} connection(s) ended at the plateau ({workers} worker(s), limit {limit}, {n} clients) but only {} of the {} clients that now fit were dispatched: a released slot is not refilled (no wake-up reached the accept thread)", refilled, want_refilled)));
            }
            if maxper > limit {
                t3.push(("C02", format!("{maxper} connections in progress on one worker, max_concurrent_connections is {limit} (builder calls: {})", kv(ws, "calls").unwrap_or(""))));
            }
            if !big && started < workers * limit {
                // (n ≥ workers × limit clients are held open: every slot must be taken)
                t3.push(("C03", format!("max_concurrent_connections is {limit} on each of {workers} worker(s) and {n} clients are waiting, yet only {started} connections were dispatched: spare capacity is not used (builder calls: {})", kv(ws, "calls").unwrap_or(""))));
            }
            if big && started < n {
                for p in ["C03", "C02"] {
                    t3.push((p, format!("max_concurrent_connections is {limit}, yet only {started} of {n} waiting connections were dispatched to the {workers} worker(s): spare capacity is not used")));
                }
            }
            if started > workers.saturating_mul(limit) {
                t3.push(("C02", format!("{started} connections in progress on {workers} workers, max_concurrent_connections is {limit}")));
            }
            format!("max={maxper} started={started} served={done}")
        }
        Ok(Err(e)) => format!("setup-error {e}"),
        Err(_) => "panic".to_string(),
    };
    Some((real, t3.into_iter().map(|(p, m)| format!("{p}\t{m}")).collect()))
}

/// `pse workers=W ls=<k1,k2,…>` with `k` in `tb` (TCP via `bind`), `tl` (TCP via `listen`), `ub` (UDS via
/// `bind_uds`), `ul` (UDS via `listen_uds`): a REAL `Server` through the public builder; on every listener:
/// connect A (served), `pause()`, wait, connect B, wait, `resume()`, wait until B is served.
/// Output `during=<connections served between pause and resume> after=<served after resume>`.
/// T3 (C05): a connection is served while paused, or is not served after resume. The wait after `pause()` is
/// what "has taken effect" means; to be load-proof the scenario is repeated with a longer wait before a
/// connection served during the pause is believed.
fn run_pse(ws: &[&str]) -> Option<(String, Vec<String>)> {
    use std::sync::atomic::AtomicUsize;
    let workers: usize = kv(ws, "workers")?.parse().ok()?;
    let kinds: Vec<String> = kv(ws, "ls")?.split(',').map(String::from).collect();
    if !(1..=4).contains(&workers) || kinds.is_empty() || kinds.len() > 4 || !kinds.iter().all(|k| matches!(k.as_str(), "tb" | "tl" | "ub" | "ul" | "t2")) {
        return None;
    }
    // sockets: `t2` is ONE `bind` call with two addresses (two sockets, one service); TCP sockets also get a client that
    // resets its connection at once in every paused phase (the connection is accepted and handed to the service all the same)
    let nsock: usize = kinds.iter().map(|k| if k == "t2" { 2 } else { 1 }).sum();
    let ntcp: usize = kinds.iter().map(|k| match k.as_str() { "t2" => 2, "tb" | "tl" => 1, _ => 0 }).sum();
    let nl = nsock + ntcp;
    // `flood=N`: in the FIRST pause every socket created by the builder's own `bind` (kinds tb / t2: the builder's backlog
    // applies, 2048 by default) gets N more clients, held open: they all fit the listen queue and are all served after resume
    let flood: usize = match kv(ws, "flood") {
        None => 0,
        Some(v) => match v.parse() {
            Ok(k) if (1..=400).contains(&k) && !v.starts_with('+') => k,
            _ => return None,
        },
    };
    let nflood: usize = flood * kinds.iter().map(|k| match k.as_str() { "t2" => 2, "tb" => 1, _ => 0 }).sum::<usize>();
    let _beat = Beating::start();
    let mut last = (0usize, 0usize, String::new());
    for attempt in 0..3u32 {
        let settle = Duration::from_millis(1200 * (1 << attempt) as u64);
        let kinds2 = kinds.clone();
        let res = std::thread::spawn(move || -> Result<(usize, usize), String> {
            actix_rt::System::new().block_on(async move {
                let served = Arc::new(AtomicUsize::new(0));
                // which listener's service served: the names are given in reverse lexicographic order of binding
                let served_by: Arc<Vec<AtomicUsize>> = Arc::new((0..kinds2.len()).map(|_| AtomicUsize::new(0)).collect());
                let mut b = actix_server::Server::build().workers(workers).disable_signals();
                enum A {
                    Tcp(std::net::SocketAddr),
                    Uds(std::path::PathBuf),
                }
                let mut addrs = vec![];
                for (i, k) in kinds2.iter().enumerate() {
                    let sv = served.clone();
                    let sb = served_by.clone();
                    let fac = move || {
                        let sv = sv.clone();
                        let sb = sb.clone();
                        actix_service::fn_service(move |_s: actix_rt::net::TcpStream| {
                            sb[i].fetch_add(1, Ordering::SeqCst);
                            sv.fetch_add(1, Ordering::SeqCst);
                            async { Ok::<_, ()>(()) }
                        })
                    };
                    let sv = served.clone();
                    let sb = served_by.clone();
                    let ufac = move || {
                        let sv = sv.clone();
                        let sb = sb.clone();
                        actix_service::fn_service(move |_s: actix_rt::net::UnixStream| {
                            sb[i].fetch_add(1, Ordering::SeqCst);
                            sv.fetch_add(1, Ordering::SeqCst);
                            async { Ok::<_, ()>(()) }
                        })
                    };
                    match k.as_str() {
                        "tb" | "tl" => {
                            let mut tries = 0;
                            let lst = loop {
                                match std::net::TcpListener::bind("127.0.0.1:0") {
                                    Ok(l) => break l,
                                    Err(e) if tries < 300 && matches!(e.kind(), io::ErrorKind::AddrInUse | io::ErrorKind::AddrNotAvailable) => {
                                        tries += 1;
                                        tokio::time::sleep(Duration::from_millis(200)).await;
                                    }
                                    Err(e) => return Err(format!("bind: {e}")),
                                }
                            };
                            let addr = lst.local_addr().map_err(|e| e.to_string())?;
                            if k == "tl" {
                                b = b.listen(format!("l{}", 9 - i), lst, fac).map_err(|e| format!("listen: {e}"))?;
                            } else {
                                drop(lst); // the port is free again; `bind` creates its own socket on it
                                b = b.bind(format!("l{}", 9 - i), addr, fac).map_err(|e| format!("bind: {e}"))?;
                            }
                            addrs.push((A::Tcp(addr), i));
                        }
                        "t2" => {
                            // one `bind` call, two addresses: both sockets belong to THIS service
                            let mut two = vec![];
                            for _ in 0..2 {
                                let l = std::net::TcpListener::bind("127.0.0.1:0").map_err(|e| format!("bind: {e}"))?;
                                two.push(l.local_addr().map_err(|e| e.to_string())?);
                                drop(l);
                            }
                            b = b.bind(format!("l{}", 9 - i), &two[..], fac).map_err(|e| format!("bind: {e}"))?;
                            addrs.push((A::Tcp(two[0]), i));
                            addrs.push((A::Tcp(two[1]), i));
                        }
                        _ => {
                            let dir = std::path::Path::new("/verif/.build/run/uds");
                            std::fs::create_dir_all(dir).map_err(|e| e.to_string())?;
                            let p = dir.join(format!("pse-{}-{}.sock", std::process::id(), UDS_SEQ.fetch_add(1, Ordering::SeqCst)));
                            let _ = std::fs::remove_file(&p);
                            if k == "ul" {
                                let lst = std::os::unix::net::UnixListener::bind(&p).map_err(|e| format!("uds bind: {e}"))?;
                                b = b.listen_uds(format!("l{}", 9 - i), lst, ufac).map_err(|e| format!("listen_uds: {e}"))?;
                            } else {
                                b = b.bind_uds(format!("l{}", 9 - i), &p, ufac).map_err(|e| format!("bind_uds: {e}"))?;
                            }
                            addrs.push((A::Uds(p), i));
                        }
                    }
                }
                let srv = b.run();
                let handle = srv.handle();
                let task = actix_rt::spawn(srv);
                let mut keep: Vec<Client> = vec![];
                let connect = |a: &A, keep: &mut Vec<Client>| -> Result<(), String> {
                    match a {
                        A::Tcp(addr) => {
                            let c = std::net::TcpStream::connect(addr).map_err(|e| format!("connect: {e}"))?;
                            let _ = socket2::SockRef::from(&c).set_linger(Some(Duration::ZERO));
                            keep.push(Client::Tcp(c));
                        }
                        A::Uds(p) => keep.push(Client::Uds(std::os::unix::net::UnixStream::connect(p).map_err(|e| format!("connect uds: {e}"))?)),
                    }
                    Ok(())
                };
                let wait_for = |n: usize, served: Arc<AtomicUsize>, max: Duration| async move {
                    let t0 = std::time::Instant::now();
                    while served.load(Ordering::SeqCst) < n && t0.elapsed() < max {
                        tokio::time::sleep(Duration::from_millis(10)).await;
                    }
                    served.load(Ordering::SeqCst)
                };
                // A on every socket, one at a time: served, and by the service registered for THAT socket
                let mut want: Vec<usize> = vec![0; served_by.len()];
                for (i, (a, si)) in addrs.iter().enumerate() {
                    connect(a, &mut keep)?;
                    let got = wait_for(i + 1, served.clone(), Duration::from_secs(30)).await;
                    if got < i + 1 {
                        return Err(format!("only {got} of {} first connections were served within 30 s", i + 1));
                    }
                    want[*si] += 1;
                    let by: Vec<usize> = served_by.iter().map(|c| c.load(Ordering::SeqCst)).collect();
                    if by != want {
                        return Err(format!("misrouted: the connection made to socket {i} (service {si}) was not served by that service (served per service {by:?}, expected {want:?})"));
                    }
                }
                let s1 = served.load(Ordering::SeqCst);
                let mut during = 0;
                let mut after = 0;
                let mut base = s1;
                // two pause / resume cycles: the second pause must take effect like the first
                for cycle in 0..2 {
                    handle.pause().await;
                    tokio::time::sleep(settle).await;
                    let mut n = 0;
                    if cycle == 0 && flood > 0 {
                        for (a, si) in &addrs {
                            if let (A::Tcp(addr), true) = (a, matches!(kinds2[*si].as_str(), "tb" | "t2")) {
                                for k in 0..flood {
                                    // (a full listen queue drops the SYN: the connect would only complete on a retransmission)
                                    let c = std::net::TcpStream::connect_timeout(addr, Duration::from_millis(700))
                                        .map_err(|e| format!("flood: client {k} of {flood} could not connect to a paused listener bound by the builder ({e}): its listen queue holds fewer connections than the builder's backlog"))?;
                                    let _ = socket2::SockRef::from(&c).set_linger(Some(Duration::ZERO));
                                    keep.push(Client::Tcp(c));
                                    n += 1;
                                }
                            }
                        }
                    }
                    for (a, _) in &addrs {
                        connect(a, &mut keep)?;
                        n += 1;
                        if let A::Tcp(addr) = a {
                            // a client that gives up at once (RST): still an accepted connection, still handed to the service
                            if let Ok(c) = std::net::TcpStream::connect(addr) {
                                let _ = socket2::SockRef::from(&c).set_linger(Some(Duration::ZERO));
                                drop(c);
                                n += 1;
                            }
                        }
                    }
                    tokio::time::sleep(Duration::from_millis(400)).await;
                    let d = served.load(Ordering::SeqCst) - base;
                    handle.resume().await;
                    let s3 = wait_for(base + n, served.clone(), Duration::from_secs(30)).await;
                    during += d;
                    after += s3 - base - d;
                    base = s3;
                }
                drop(keep);
                // (a server whose accept thread no longer reacts cannot be stopped: do not wait long for it)
                let _ = tokio::time::timeout(Duration::from_secs(8), handle.stop(false)).await;
                let _ = tokio::time::timeout(Duration::from_secs(4), task).await;
                for (a, _) in &addrs {
                    if let A::Uds(p) = a {
                        let _ = std::fs::remove_file(p);
                    }
                }
                Ok((during, after))
            })
        })
        .join();
        match res {
            Ok(Ok((during, after))) => {
                last = (during, after, String::new());
                if during == 0 {
                    break;
                }
            }
            Ok(Err(e)) => {
                last = (0, 0, format!("setup-error {e}"));
                break;
            }
            Err(_) => {
                last = (0, 0, "panic".into());
                break;
            }
        }
    }
    let (during, after, err) = last;
    let mut t3 = vec![];
    if !err.is_empty() {
        if err.contains("first connections were served") {
            // an idle, running, never-paused server did not hand a connection to its listener's service
            t3.push(format!("C05\t{err}"));
            t3.push(format!("C01\t{err}"));
        }
        if err.contains("misrouted") {
            t3.push(format!("C01\t{err}"));
            t3.push(format!("C05\t{err}"));
        }
        if err.starts_with("setup-error flood:") {
            t3.push(format!("C05\t{err}"));
            t3.push(format!("C03\t{err}"));
        }
        return Some((err, t3));
    }
    if during > 0 {
        t3.push(format!("C05\t{during} connection(s) were dispatched while the server was paused (listeners {}; pause() had returned at least 4.8 s earlier in the last of three attempts)", kinds.join(",")));
    }
    if during + after < 2 * nl + nflood {
        let msg = format!("after resume only {} of {} connections that arrived during the two pauses (one per socket, plus one per TCP socket whose client reset it at once, plus {nflood} held open) were handed to their service within 30 s (listeners {}): a listener is stranded or an accepted connection was discarded", during + after, 2 * nl + nflood, kinds.join(","));
        t3.push(format!("C05\t{msg}"));
        // an accepted connection that never reaches its listener's service while the server runs (C01)
        t3.push(format!("C01\t{msg}"));
    }
    Some((format!("during={during} after={after}"), t3))
}

fn run(a: &Args) {
    silence_panics();
    let progress = Arc::new(AtomicU64::new(0));
    // watchdog: an endless loop in the accept thread cannot be interrupted from inside
    {
        let progress = progress.clone();
        let out = a.output.clone();
        let wprop = a.prop.clone();
        std::thread::spawn(move || {
            let mut last = u64::MAX;
            let mut last_hb = u64::MAX;
            let mut same = 0;
            loop {
                std::thread::sleep(Duration::from_secs(1));
                let p = progress.load(Ordering::SeqCst);
                let hb = HEARTBEAT.load(Ordering::SeqCst);
                if p == last && hb == last_hb {
                    same += 1;
                    if same >= 20 {
                        nofile_restore();
                        if let Some(o) = &out {
                            let msg = "accept loop made no progress for 20 s (spinning): waiting connections are never dispatched";
                            let mut txt = format!("#T3 prop={wprop} case=@{p} {msg}\n");
                            if wprop != "C08" {
                                txt.push_str(&format!("#T3 prop=C08 case=@{p} {msg}\n"));
                            }
                            let _ = std::fs::write(format!("{o}.watchdog"), txt);
                        }
                        std::process::exit(3);
                    }
                } else {
                    last = p;
                    last_hb = hb;
                    same = 0;
                }
            }
        });
    }
    let rt = tokio::runtime::Builder::new_current_thread().enable_all().start_paused(true).build().unwrap();
    let prop = a.prop.clone();
    rt.block_on(async {
        let mut rep = Report::new(&a.output);
        let mut case: Option<Case> = None;
        for line in in_lines(&a.input) {
            progress.fetch_add(1, Ordering::SeqCst);
            let ws: Vec<&str> = line.split_whitespace().collect();
            let mut op_out = line.clone();
            let real: String = match ws.as_slice() {
                ["case", ..] => {
                    rep.flush(); // the watchdog may have to end the process: keep what was observed so far
                    if let Some(c) = case.take() {
                        hooks::set_yield_hook(None);
                        for p in &c.uds_paths {
                            let _ = std::fs::remove_file(p);
                        }
                    }
                    hooks::clear_injected_accept_errors();
                    match Case::new(&ws) {
                        Ok(c) => {
                            case = Some(c);
                            "ok".into()
                        }
                        Err(e) => format!("setup-error {e}"),
                    }
                }
                ["pse", ..] if kv(&ws, "skip").is_some() => "skipped".into(),
                ["pse", ..] => match run_pse(&ws) {
                    // the port reserved for a `bind` listener was taken by another process in the meantime: this
                    // says nothing about the property — the line is rewritten so that the model skips it too
                    Some((real, _)) if real.starts_with("setup-error bind:") && real.contains("in use") => {
                        op_out = format!("{line} skip=ports");
                        "skipped".into()
                    }
                    Some((real, t3)) => {
                        for t in t3 {
                            let (p, m) = t.split_once('\t').unwrap();
                            rep.t3(p, m);
                            // a connection that is never served although the server runs and a worker is idle is
                            // also C03's concern (spare capacity is always used)
                            if a.prop == "C03" && p == "C05" && (m.contains("were served") || m.contains("stranded")) {
                                rep.t3("C03", m);
                            }
                        }
                        real
                    }
                    None => "bad-op".into(),
                },
                ["bld", ..] => match run_bld(&ws) {
                    Some((real, t3)) => {
                        for t in t3 {
                            let (p, m) = t.split_once('\t').unwrap();
                            // a worker above its limit is also "a saturated worker was given another connection" (C04)
                            let p = if prop == "C04" { "C04" } else { p };
                            rep.t3(p, m);
                        }
                        real
                    }
                    None => "bad-op".into(),
                },
                ["k-new", l] => match l.parse::<usize>() {
                    Ok(l) => hooks::kernel_counter_new(l).to_string(),
                    Err(_) => "bad-op".into(),
                },
                ["k-inc", v, l] => match (v.parse::<usize>(), l.parse::<usize>()) {
                    (Ok(v), Ok(l)) => {
                        let (r, n) = hooks::kernel_counter_inc(v, l);
                        format!("{} {}", r as u8, n)
                    }
                    _ => "bad-op".into(),
                },
                ["k-dec", v, l] => match (v.parse::<usize>(), l.parse::<usize>()) {
                    (Ok(v), Ok(l)) if v >= 1 => {
                        let (r, n) = hooks::kernel_counter_dec(v, l);
                        format!("{} {}", r as u8, n)
                    }
                    _ => "bad-op".into(),
                },
                ["k-race", v, l, n] => match (v.parse::<usize>(), l.parse::<usize>(), n.parse::<usize>()) {
                    (Ok(v), Ok(l), Ok(n)) if v > n && n <= 4_000_000 => {
                        // the accept thread's inc against a worker thread's dec, really concurrent
                        let after = hooks::kernel_counter_race(v, l, n);
                        if after != v {
                            for p in ["C02", "C03"] {
                                rep.t3(p, &format!("{n} inc() on one thread and {n} dec() on another left the counter at {after}, not {v}: an update was lost"));
                            }
                        }
                        after.to_string()
                    }
                    _ => "bad-op".into(),
                },
                ["wq-race", n, r] => match (n.parse::<usize>(), r.parse::<usize>()) {
                    (Ok(n), Ok(r)) if (1..=512).contains(&n) && (1..=5000).contains(&r) => match (0..r).try_fold((n, 0), |acc, _| run_wq_race(n).map(|(k, l)| if k != n || l != 0 { (k, l) } else { acc })) {
                        Ok((known, left)) => {
                            if known != n || left != 0 {
                                let msg = format!("{n} interests were handed to WakerQueue::wake (every call returned) while the accept loop was running, but the loop processed only {known} of them ({left} still queued): a command / notification pushed while the loop was finishing a drain was lost");
                                for p in ["C05", "C03", "C08", "C06"] {
                                    rep.t3(p, &msg);
                                }
                            }
                            format!("handles={known} queued={left}")
                        }
                        Err(e) => format!("setup-error {e}"),
                    },
                    _ => "bad-op".into(),
                },
                ["k-offset", i] => match i.parse::<usize>() {
                    Ok(i) => match catch(|| hooks::kernel_offset(i)) {
                        Ok((o, j)) => {
                            // T3 (C04): every index below 512 has its own (word, bit)
                            if o >= 4 || j >= 128 || 128 * o + j != i {
                                rep.t3("C04", &format!("Availability::offset({i}) = ({o}, {j}): not the word/bit of index {i}, two worker indices share a bit"));
                            }
                            format!("{o} {j}")
                        }
                        Err(_) => {
                            if i < 512 {
                                rep.t3("C04", &format!("Availability::offset({i}) panics although {i} < 512"));
                            }
                            "panic".into()
                        }
                    },
                    Err(_) => "bad-op".into(),
                },
                ["k-bits", w0, w1, w2, w3, rest @ ..] => {
                    let p = |s: &str| u128::from_str_radix(s, 16).ok();
                    match (p(w0), p(w1), p(w2), p(w3)) {
                        (Some(a0), Some(a1), Some(a2), Some(a3)) => {
                            let mut k = hooks::AvailKernel::from_words([a0, a1, a2, a3]);
                            match rest {
                                ["get", i] => match i.parse::<usize>() {
                                    Ok(i) => match catch(|| k.get(i)) {
                                        Ok(b) => format!("{} any={}", b as u8, k.any() as u8),
                                        Err(_) => "panic".into(),
                                    },
                                    Err(_) => "bad-op".into(),
                                },
                                ["set", i, v] => match i.parse::<usize>() {
                                    Ok(i) => {
                                        let v = *v == "1";
                                        let before: Vec<bool> = (0..512).map(|j| catch(|| k.get(j)).unwrap_or(false)).collect();
                                        match catch(std::panic::AssertUnwindSafe(|| k.set(i, v))) {
                                            Ok(()) => {
                                                // T3 (C04): the write changes worker i's bit and no other worker's
                                                for j in 0..512usize {
                                                    let got = catch(|| k.get(j)).unwrap_or(false);
                                                    let want = if j == i { v } else { before[j] };
                                                    if got != want {
                                                        rep.t3("C04", &format!("set_available({i}, {v}) changed the availability of worker {j}: availability bits are not independent"));
                                                        break;
                                                    }
                                                }
                                                let w = k.words();
                                                format!("{:x} {:x} {:x} {:x} any={}", w[0], w[1], w[2], w[3], k.any() as u8)
                                            }
                                            Err(_) => "panic".into(),
                                        }
                                    }
                                    Err(_) => "bad-op".into(),
                                },
                                _ => "bad-op".into(),
                            }
                        }
                        _ => "bad-op".into(),
                    }
                }
                _ => match case.as_mut() {
                    None => "bad-op".into(),
                    Some(c) => match ws.as_slice() {
                        ["connect", l] if l.parse::<usize>().is_ok() => {
                            c.world.borrow_mut().act(&format!("connect:{l}"));
                            c.prev_op_was_quiet_poll = false;
                            c.snapshot()
                        }
                        // `wqc pause|resume|stop`: the command is handed to `WakerQueue::wake` by ANOTHER thread while
                        // the queue's mutex is held (as the accept thread holds it around every pop); readiness events
                        // that arrive before the mutex is released are taken and discarded (an iteration whose pop
                        // found the queue empty). Whatever `wake` did, once it has returned the interest is queued and
                        // the accept thread must still be woken for it: the next op is a `poll quiet=1`.
                        ["wqc", kind] if matches!(*kind, "pause" | "resume" | "stop") => {
                            let pending = {
                                let w = c.world.borrow();
                                w.connected.len() > w.sends.len()
                            };
                            if c.exited || pending || c.world.borrow().waker.queued() > 0 {
                                // only meaningful on a quiet loop (and discarding events must not lose a listener edge)
                                "bad-op".into()
                            } else {
                                install_hook(&c.world, &c.yields, vec![], Rc::new(RefCell::new(vec![])));
                                let wk = c.world.borrow().waker.clone();
                                let (go_tx, go_rx) = std::sync::mpsc::channel::<()>();
                                let (done_tx, done_rx) = std::sync::mpsc::channel::<()>();
                                let wk2 = wk.clone();
                                let k = kind.to_string();
                                let th = std::thread::spawn(move || {
                                    let _ = go_rx.recv();
                                    match k.as_str() {
                                        "pause" => wk2.pause(),
                                        "resume" => wk2.resume(),
                                        _ => wk2.stop(),
                                    }
                                    let _ = done_tx.send(());
                                });
                                let mut early = vec![];
                                wk.hold(|| {
                                    let _ = go_tx.send(());
                                    std::thread::sleep(Duration::from_millis(150));
                                    early = c.driver.drain_events();
                                });
                                let returned = done_rx.recv_timeout(Duration::from_secs(20)).is_ok();
                                if returned {
                                    let _ = th.join();
                                }
                                {
                                    let mut w = c.world.borrow_mut();
                                    match *kind {
                                        "pause" => w.last_cmd_pause = Some(true),
                                        "resume" => {
                                            w.resume_seen = true;
                                            w.last_cmd_pause = Some(false);
                                        }
                                        _ => w.stop_seen = true,
                                    }
                                    w.acts.push(if returned { "ok".into() } else { "stuck".into() });
                                    if !returned {
                                        for p in ["C05", "C06"] {
                                            w.t3.push((p.into(), format!("WakerQueue::wake({kind}) did not return within 20 s after the queue's mutex was released")));
                                        }
                                    }
                                }
                                if *kind == "pause" {
                                    c.paused_cmds = true;
                                }
                                if *kind == "stop" {
                                    c.stop_cmd = true;
                                }
                                c.prev_op_was_quiet_poll = false;
                                let _ = early;
                                c.snapshot()
                            }
                        }
                        ["env", acts] if valid_acts(acts) => {
                            if acts.split(',').any(|a| a.starts_with("inject:")) {
                                c.inject_seen = true;
                            }
                            install_hook(&c.world, &c.yields, vec![], Rc::new(RefCell::new(vec![])));
                            for a in acts.split(',').filter(|a| !a.is_empty()) {
                                if a == "pause" {
                                    c.paused_cmds = true;
                                }
                                if a == "stop" {
                                    c.stop_cmd = true;
                                }
                                c.world.borrow_mut().act(a);
                            }
                            c.prev_op_was_quiet_poll = false;
                            c.snapshot()
                        }
                        // `nofile=1`: the iteration runs while the process has NO file descriptor left (RLIMIT_NOFILE
                        // lowered to 0 for its duration): every `accept(2)` REALLY fails with EMFILE — below any
                        // injection hook. Only without a schedule, not quiet, and in cases without injected errors.
                        ["poll", rest @ ..] if kv(rest, "nofile").is_some()
                            && (kv(rest, "nofile") != Some("1") || kv(rest, "y").is_some() || kv(rest, "quiet").is_some() || c.inject_seen) => "bad-op".into(),
                        ["poll", rest @ ..] if kv(rest, "y").map_or(true, |y| y.split(';').all(valid_acts)) => {
                            if kv(rest, "y").map_or(false, |y| y.contains("inject:")) {
                                c.inject_seen = true;
                            }
                            let nofile = kv(rest, "nofile") == Some("1");
                            let chunks: Vec<Vec<String>> = kv(rest, "y")
                                .map(|y| y.split(';').map(|ch| ch.split(',').filter(|a| !a.is_empty()).map(String::from).collect()).collect())
                                .unwrap_or_default();
                            let quiet = chunks.iter().all(|c| c.is_empty());
                            if chunks.iter().flatten().any(|a| a == "pause") {
                                c.paused_cmds = true;
                            }
                            if chunks.iter().flatten().any(|a| a == "stop") {
                                c.stop_cmd = true;
                            }
                            let disp = Rc::new(RefCell::new(vec![]));
                            *c.yields.borrow_mut() = 0;
                            install_hook(&c.world, &c.yields, chunks, disp.clone());
                            let before = c.driver.state(c.world.borrow().nidx);
                            // connections in progress per worker index before this iteration (fault-free bookkeeping)
                            let live_before: Vec<i64> = {
                                let w = c.world.borrow();
                                (0..w.nidx).map(|i| w.alive_wid(i).map_or(0, |wid| w.live_wid[wid])).collect()
                            };
                            let faulted_before = {
                                let mut w = c.world.borrow_mut();
                                let drained = w.faulted_rx.drain();
                                w.faulted_log.extend(drained);
                                w.faulted_log.len()
                            };
                            // `quiet=1`: the driver does not ring the mio waker itself — the iteration runs only if the
                            // code under test woke the accept thread (or a listener is ready), else it times out
                            let quiet_poll = kv(rest, "quiet") == Some("1");
                            let queued_before = c.world.borrow().waker.queued();
                            if nofile {
                                c.world.borrow_mut().any_inject = true;
                                nofile_set();
                            }
                            let r = catch(std::panic::AssertUnwindSafe(|| if quiet_poll { c.driver.step_quiet(Duration::from_millis(400)) } else { c.driver.step() }));
                            nofile_restore();
                            if quiet_poll {
                                if let Ok(rep) = &r {
                                    if queued_before > 0 && !rep.events.contains(&WAKER) {
                                        let msg = format!("{queued_before} interest(s) were in the waker queue (every `wake` call had returned) but the accept thread was not woken: it would sleep in `poll` for ever — a pause / resume / stop / worker notification is lost");
                                        let mut w = c.world.borrow_mut();
                                        for p in ["C03", "C05", "C06", "C08", "C01"] {
                                            w.t3.push((p.into(), msg.clone()));
                                        }
                                    }
                                }
                            }
                            let y = *c.yields.borrow();
                            match r {
                                Ok(report) => {
                                    c.exited = report.exited;
                                    let order: Vec<String> = report.events.iter().map(|t| if *t == WAKER { "W".to_string() } else { t.to_string() }).collect();
                                    // rewrite the op with the observed (nondeterministic) event order
                                    let others: Vec<&str> = rest.iter().filter(|w| !w.starts_with("order=")).cloned().collect();
                                    op_out = format!("poll order={} {}", order.join(","), others.join(" ")).trim_end().to_string();
                                    let snap = c.snapshot();
                                    let d = disp.borrow();
                                    // dispatch log: connection ids are not visible at send time; the model prints
                                    // ids, so the harness prints only targets and the Lean driver is asked for the same
                                    let disp_s: Vec<String> = d.iter().map(|i| format!(">{i}")).collect();
                                    let snap = snap.replacen("disp=[]", &format!("disp=[{}]", disp_s.join(",")), 1);
                                    // ---- T3 oracles at iteration boundaries (real observations only)
                                    let after = c.driver.state(c.world.borrow().nidx);
                                    let mut w = c.world.borrow_mut();
                                    // C04: while nobody is saturated, consecutive sends go round-robin
                                    if !w.any_die && before.avail.iter().all(|b| *b) && before.handles.len() == w.nidx {
                                        let nobody_saturated = (0..w.nidx).all(|i| *w.max_live.get(&i).unwrap_or(&0) < w.limit as i64);
                                        if nobody_saturated {
                                            let mut expect = before.handles[before.next % before.handles.len()];
                                            for (k, got) in d.iter().enumerate() {
                                                if *got != expect {
                                                    let msg = format!("dispatch #{k} of this iteration went to worker {got}, round-robin expects {expect} (no worker saturated)");
                                                    w.t3.push(("C04".into(), msg));
                                                    break;
                                                }
                                                let pos = before.handles.iter().position(|h| *h == expect).unwrap();
                                                expect = before.handles[(pos + 1) % before.handles.len()];
                                            }
                                        }
                                    }
                                    // C04: round robin that SKIPS exactly the workers at their limit. In an iteration with no
                                    // concurrent activity (no schedule, nothing queued for the waker, no fault so far) the bits
                                    // only change by saturation, so the whole dispatch sequence is determined: each connection
                                    // goes to the first available worker at or after the cursor, the cursor moves behind it.
                                    if !w.any_die && quiet && queued_before == 0 && !before.paused && before.handles.len() == w.nidx && !d.is_empty() {
                                        let n = before.handles.len();
                                        let mut avail = before.avail.clone();
                                        let mut live = live_before.clone();
                                        let mut cur = before.next % n;
                                        for (k, got) in d.iter().enumerate() {
                                            let Some(step) = (0..n).find(|j| avail[before.handles[(cur + j) % n]]) else { break };
                                            let pos = (cur + step) % n;
                                            let expect = before.handles[pos];
                                            if *got != expect {
                                                let msg = format!(
                                                    "dispatch #{k} of this iteration went to worker {got}; round robin from cursor slot {cur} over the available workers (availability {:?}, in progress {:?}, limit {}) expects worker {expect}",
                                                    avail, live, w.limit);
                                                w.t3.push(("C04".into(), msg));
                                                break;
                                            }
                                            live[expect] += 1;
                                            if live[expect] >= w.limit as i64 {
                                                avail[expect] = false;
                                            }
                                            cur = (pos + 1) % n;
                                        }
                                    }
                                    // C08 / C02: a worker whose availability bit is set has room — also after a fault forced a
                                    // connection onto a saturated survivor (which stays unavailable until it has released
                                    // enough). Judged while no replacement has joined (a replacement shares its predecessor's
                                    // index, whose late notifications may mark it available: outside C02's fault-free scope).
                                    // seed14 C08-28 wrote `set_available(idx, inc_counter())`: above the limit `inc` answers true.
                                    // With deaths in the history a justified notification can be overtaken by a forced dispatch
                                    // (the worker is then full AND marked available — the unchanged code does that), so only
                                    // an iteration that processed NO notification is judged: it must not turn a bit on.
                                    if w.restarted == 0 && !report.exited && (!w.any_die || (quiet && queued_before == 0)) {
                                        for &i in after.handles.iter() {
                                            if let Some(wid) = w.alive_wid(i) {
                                                // the shared counter itself (biased by one) is the authority on "in progress"
                                                let inprog = w.ends[wid].counter_raw() as i64 - 1;
                                                let turned_on = after.avail.get(i) == Some(&true) && (!w.any_die || before.avail.get(i) == Some(&false));
                                                if turned_on && inprog >= w.limit as i64 {
                                                    let msg = format!(
                                                        "worker {i}'s counter shows {inprog} connections in progress (limit {}) and the worker is marked AVAILABLE after this iteration: it will be given more",
                                                        w.limit);
                                                    let tags: &[&str] = if w.any_die { &["C08"] } else { &["C08", "C02", "C04"] };
                                                    for p in tags {
                                                        w.t3.push((p.to_string(), msg.clone()));
                                                    }
                                                }
                                            }
                                        }
                                    }
                                    // C04: after an iteration that dispatched, the cursor stands right behind the worker that
                                    // got the LAST connection (every dispatch advances it; seed13 C04-25 left it on a worker
                                    // the send had just saturated, so that worker is served twice in a row once it releases)
                                    if !w.any_die && !report.exited && after.handles == before.handles && !after.handles.is_empty() {
                                        if let Some(last) = d.last() {
                                            if let Some(pos) = after.handles.iter().position(|h| h == last) {
                                                let want = (pos + 1) % after.handles.len();
                                                if after.next != want {
                                                    let msg = format!(
                                                        "the last connection of this iteration went to worker {last} (slot {pos} of {:?}) but the round-robin cursor is at slot {} afterwards, not {want}: the next connection does not go to the next worker in turn",
                                                        after.handles, after.next);
                                                    w.t3.push(("C04".into(), msg));
                                                }
                                            }
                                        }
                                    }
                                    // every interest that was queued when the iteration began is handled by it: the loop drains
                                    // its queue each time it is woken (nothing is pushed during an iteration without a
                                    // schedule). An interest left behind waits for a wake-up that may never come — a Resume or
                                    // Stop behind a redundant Pause (seed13 C01-26), a replacement worker's handle …
                                    if quiet && !report.exited && w.waker.queued() > 0 {
                                        let msg = format!(
                                            "the iteration returned with {} interest(s) still in the waker queue (of {queued_before} queued when it began; nothing was pushed meanwhile): the accept thread goes back to sleep without handling a command / notification it was woken for",
                                            w.waker.queued());
                                        for p in ["C05", "C03", "C01", "C06", "C08"] {
                                            w.t3.push((p.into(), msg.clone()));
                                        }
                                    }
                                    // C04: the round-robin cursor moves only when a connection is dispatched (or the set of
                                    // workers changes): an iteration that dispatched nothing — whatever notifications it
                                    // processed — leaves it where it was, so the next connection goes to the worker whose
                                    // turn it is (seed12 C04-23 moved the cursor to the worker that had just released)
                                    if !w.any_die && !report.exited && d.is_empty() && after.handles == before.handles && after.next != before.next {
                                        let msg = format!(
                                            "an iteration that dispatched nothing moved the round-robin cursor from slot {} to slot {} (workers {:?}): the worker whose turn it is will be skipped",
                                            before.next, after.next, before.handles);
                                        w.t3.push(("C04".into(), msg));
                                    }
                                    // C05: nothing is dispatched by an iteration that starts and ends paused when no
                                    // resume command was issued since the previous iteration ended
                                    if before.paused && after.paused && !w.resume_seen && !d.is_empty() {
                                        w.t3.push(("C05".into(), format!("{} connection(s) dispatched while paused (no resume was issued)", d.len())));
                                    }
                                    w.resume_seen = false;
                                    // C05: commands take effect in the order they were issued — once the waker queue is
                                    // empty the loop is paused iff the last pause / resume command was a pause
                                    if !report.exited && !w.stop_seen && w.waker.queued() == 0 {
                                        if let Some(want) = w.last_cmd_pause {
                                            if after.paused != want {
                                                let msg = format!(
                                                    "every command has been processed and the last one issued was `{}`, but the accept loop is {}: commands do not take effect in the order they were issued",
                                                    if want { "pause" } else { "resume" }, if after.paused { "paused" } else { "running" });
                                                w.t3.push(("C05".into(), msg.clone()));
                                                if !want {
                                                    // resumed by command but the loop still believes it is paused: the
                                                    // back-pressure release (gated by that flag) is lost
                                                    w.t3.push(("C03".into(), msg));
                                                }
                                            }
                                        }
                                    }
                                    // C05 / C03: a listener that is backing off has the poll time-out armed — otherwise nothing
                                    // wakes the accept thread to put it back (the invariant `TInv` of the model, on the real state)
                                    if !report.exited && after.timeout.is_none() {
                                        if let Some(l) = after.socket_deadlines.iter().position(|d| d.is_some()) {
                                            let msg = format!("listener {l} is in accept back-off (deadline pending) but Accept::timeout is None after this iteration: nothing will wake the accept thread to re-register it, waiting connections are stranded");
                                            w.t3.push(("C05".into(), msg.clone()));
                                            w.t3.push(("C03".into(), msg.clone()));
                                            // … and C01's: the connection waiting there never reaches its service
                                            w.t3.push(("C01".into(), msg));
                                        }
                                    }
                                    // C05 / C03: … and armed EARLY enough: the accept thread must not sleep past the earliest
                                    // back-off deadline (the error path arms 510 ms for a 500 ms back-off: 10 ms of slack)
                                    if !report.exited {
                                        if let (Some(to), Some(min_left)) = (after.timeout, after.socket_deadlines.iter().flatten().min()) {
                                            if to > *min_left + Duration::from_millis(15) {
                                                let msg = format!("Accept::timeout is {} ms but the earliest accept back-off ends in {} ms: the accept thread sleeps past it, that listener's waiting connections are delayed", to.as_millis(), min_left.as_millis());
                                                w.t3.push(("C05".into(), msg.clone()));
                                                w.t3.push(("C03".into(), msg));
                                            }
                                        }
                                    }
                                    // C05: an expired back-off deadline never survives an iteration
                                    if !report.exited {
                                        for (l, dl) in after.socket_deadlines.iter().enumerate() {
                                            if *dl == Some(Duration::ZERO) {
                                                let msg = format!("listener {l}: its accept back-off has expired but this iteration did not re-arm it (still deregistered with a deadline)");
                                                w.t3.push(("C05".into(), msg.clone()));
                                                w.t3.push(("C03".into(), msg));
                                            }
                                        }
                                    }
                                    // connections are legitimately dropped when no handle is left: be conservative
                                    // (all handles present at the start of this iteration were removed during it)
                                    let drained = w.faulted_rx.drain();
                                    w.faulted_log.extend(drained);
                                    let faulted_now = w.faulted_log.len();
                                    if after.handles.is_empty() || before.handles.is_empty()
                                        || faulted_now - faulted_before >= before.handles.len()
                                    {
                                        w.ever_no_handles = true;
                                    }
                                    // C03 / C01 / C08 at quiescent states: two consecutive chunk-free iterations
                                    // (paused as the USER sees it: by the commands issued, all of which have been processed
                                    // when the waker queue is empty — not by the loop's own flag)
                                    let paused_by_cmd = if w.waker.queued() == 0 { w.last_cmd_pause == Some(true) } else { after.paused };
                                    if quiet && c.prev_op_was_quiet_poll && !paused_by_cmd && !report.exited && !c.stop_cmd
                                        && after.socket_deadlines.iter().all(|d| d.is_none())
                                    {
                                        // (after a pause / resume or an accept-error back-off this is also C05's "every listener
                                        // accepts again, including connections that arrived in the meantime")
                                        let tags: &[&str] = match (w.any_die, w.last_cmd_pause.is_some() || w.any_inject) {
                                            (true, true) => &["C08", "C01", "C03", "C05"],
                                            (true, false) => &["C08", "C01", "C03"],
                                            (false, true) => &["C03", "C01", "C05"],
                                            (false, false) => &["C03", "C01"],
                                        };
                                        // C02: a worker marked available really has spare capacity (no send is in flight
                                        // at an iteration boundary); fault-free histories only (a dead worker's late
                                        // notification may legitimately set the bit of its saturated replacement)
                                        if !w.any_die {
                                            for idx in after.handles.iter().cloned() {
                                                if let Some(wid) = w.alive_wid(idx) {
                                                    if after.avail.get(idx).copied().unwrap_or(false) && w.live_wid[wid] >= w.limit as i64 {
                                                        let msg = format!(
                                                            "quiescent: worker {idx} has {} of {} connections in progress (saturated) but is marked available: the next connection would exceed max_concurrent_connections",
                                                            w.live_wid[wid], w.limit);
                                                        w.t3.push(("C02".into(), msg.clone()));
                                                        w.t3.push(("C04".into(), msg));
                                                    }
                                                }
                                            }
                                        }
                                        if w.waker.queued() > 0 {
                                            let msg = format!("{} notification(s) are still in the waker queue after two full iterations: wake-ups are not being processed", w.waker.queued());
                                            for t in tags { w.t3.push((t.to_string(), msg.clone())); }
                                        }
                                        // C04: round-robin skips a worker only when it is at its limit — with no wake-up
                                        // in flight, a live worker in the rotation that is below the limit is marked available
                                        if w.waker.queued() == 0 {
                                            for idx in after.handles.iter().cloned() {
                                                if let Some(wid) = w.alive_wid(idx) {
                                                    if w.live_wid[wid] < w.limit as i64 && !after.avail.get(idx).copied().unwrap_or(true) {
                                                        let msg = format!(
                                                            "quiescent, no wake-up pending: worker {idx} is alive, in the rotation and has {} of {} connections in progress but is marked unavailable — round-robin skips a worker that is not saturated",
                                                            w.live_wid[wid], w.limit);
                                                        w.t3.push(("C04".into(), msg.clone()));
                                                        if w.any_die { w.t3.push(("C08".into(), msg)); }
                                                    }
                                                }
                                            }
                                        }
                                        // a live worker that has a handle and spare capacity
                                        let spare: Vec<usize> = after.handles.iter().cloned()
                                            .filter(|idx| w.alive_wid(*idx).map_or(false, |wid| w.live_wid[wid] < w.limit as i64)).collect();
                                        let sent = w.sends.len();
                                        let opened = w.connected.len();
                                        if !spare.is_empty() && sent < opened && !w.ever_no_handles {
                                            let msg = format!(
                                                "quiescent, not paused, worker(s) {:?} are alive, in the rotation and below the limit {} but {} connection(s) are still waiting to be dispatched",
                                                spare, w.limit, opened - sent);
                                            for t in tags { w.t3.push((t.to_string(), msg.clone())); }
                                            // fault-free: the waiting connection was held back although a worker is NOT at
                                            // its limit — round robin may pass over saturated workers only (C04)
                                            if !w.any_die {
                                                w.t3.push(("C04".into(), msg.clone()));
                                            }
                                        }
                                    }
                                    c.prev_op_was_quiet_poll = quiet;
                                    format!("ev=ok yields={y} {snap}")
                                }
                                Err(msg) => {
                                    c.world.borrow_mut().t3.push(("C08".into(), format!("accept loop panicked: {msg}")));
                                    format!("panic {msg}")
                                }
                            }
                        }
                        ["finishw2", wi, cid, rest @ ..] if wi.parse::<usize>().is_ok() && (*cid == "*" || cid.parse::<u32>().is_ok()) => {
                            // W2: one accept iteration runs between `dec` (crossing) and the wake-up push
                            let wi: usize = wi.parse().unwrap();
                            let taken = {
                                let mut w = c.world.borrow_mut();
                                if wi < w.inflight.len() {
                                    let pos = if *cid == "*" {
                                        if w.inflight[wi].is_empty() { None } else { Some(0) }
                                    } else {
                                        let id: u32 = cid.parse().unwrap();
                                        w.inflight[wi].iter().position(|(i, _)| *i == id)
                                    };
                                    pos.map(|p| {
                                        let idx = w.idx_of[wi];
                                        *w.sends_by_wid_live.entry(idx).or_insert(0) -= 1;
                                        w.live_wid[wi] -= 1;
                                        w.inflight[wi].remove(p).1
                                    })
                                } else {
                                    None
                                }
                            };
                            c.prev_op_was_quiet_poll = false;
                            match taken {
                                None => {
                                    c.world.borrow_mut().acts.push("bad".into());
                                    c.snapshot()
                                }
                                Some(inf) => {
                                    let crossed = Rc::new(RefCell::new(false));
                                    let order_obs: Rc<RefCell<Option<Vec<usize>>>> = Rc::new(RefCell::new(None));
                                    let disp = Rc::new(RefCell::new(vec![]));
                                    // the driver is used re-entrantly from the AfterDec hook: move it behind a pointer
                                    let drv: *mut AcceptDriver = &mut c.driver;
                                    let exited_cell = Rc::new(std::cell::Cell::new(false));
                                    let ex = exited_cell.clone();
                                    let (cr, oo, world, yields, disp2) = (crossed.clone(), order_obs.clone(), c.world.clone(), c.yields.clone(), disp.clone());
                                    hooks::set_yield_hook(Some(Box::new(move |p: Point| {
                                        if let Point::AfterDec(_) = p {
                                            *cr.borrow_mut() = true;
                                            // inner iteration: its own (chunk-free) hook for send bookkeeping
                                            install_hook(&world, &yields, vec![], disp2.clone());
                                            // SAFETY: single-threaded; the outer code does not touch the driver until the drop returns
                                            let rep = unsafe { (*drv).step() };
                                            if rep.exited {
                                                ex.set(true);
                                            }
                                            *oo.borrow_mut() = Some(rep.events);
                                        }
                                    })));
                                    drop(inf);
                                    hooks::set_yield_hook(None);
                                    if exited_cell.get() {
                                        c.exited = true;
                                    }
                                    let crossed = *crossed.borrow();
                                    c.world.borrow_mut().acts.push(if crossed { "dec1".into() } else { "dec0".into() });
                                    if crossed {
                                        c.world.borrow_mut().acts.push("ok".into()); // the push
                                    }
                                    let order: Vec<String> = order_obs.borrow().clone().unwrap_or_default().iter().map(|t| if *t == WAKER { "W".to_string() } else { t.to_string() }).collect();
                                    let others: Vec<&str> = rest.iter().filter(|w| !w.starts_with("order=")).cloned().collect();
                                    op_out = format!("finishw2 {wi} {cid} order={} {}", order.join(","), others.join(" ")).trim_end().to_string();
                                    let snap = c.snapshot();
                                    let disp_s: Vec<String> = disp.borrow().iter().map(|i| format!(">{i}")).collect();
                                    snap.replacen("disp=[]", &format!("disp=[{}]", disp_s.join(",")), 1)
                                }
                            }
                        }
                        _ => "bad-op".into(),
                    },
                },
            };
            rep.obs(&op_out, &real);
            if let Some(c) = case.as_ref() {
                let t3: Vec<(String, String)> = std::mem::take(&mut c.world.borrow_mut().t3);
                for (p, m) in t3 {
                    rep.t3(&p, &m);
                }
            }
            let _ = &prop;
        }
        if let Some(c) = case.take() {
            hooks::set_yield_hook(None);
            for p in &c.uds_paths {
                let _ = std::fs::remove_file(p);
            }
        }
        rep.finish();
    });
}

// ------------------------------------------------------------------------------------------------
// generators
// ------------------------------------------------------------------------------------------------

struct Gen<'a> {
    rng: &'a mut Rng,
    workers: usize,
    listeners: usize,
    wids: usize,
    faults: bool,
    cmds: bool,
    inject: bool,
}

impl Gen<'_> {
    fn act(&mut self) -> String {
        let r = self.rng.below(100);
        let w = self.rng.below(self.wids);
        if r < 30 {
            format!("recv:{w}")
        } else if r < 55 {
            format!("finish:{w}:*")
        } else if r < 70 {
            format!("connect:{}", self.rng.below(self.listeners))
        } else if r < 76 && self.cmds {
            (*self.rng.pick(&["pause", "resume", "resume", "pause", "stop"])).to_string()
        } else if r < 82 && self.inject {
            let k = *self.rng.pick(&["ConnectionReset", "ConnectionAborted", "ConnectionRefused", "EMFILE", "PermissionDenied", "Other", "OutOfMemory"]);
            format!("inject:{}:{k}", self.rng.below(self.listeners))
        } else if r < 88 && (self.inject || self.cmds) {
            format!("advance:{}", *self.rng.pick(&[100u32, 400, 500, 600]))
        } else if r < 93 && self.faults {
            format!("die:{w}")
        } else if r < 98 && self.faults {
            self.wids += 1; // may be rejected; ids stay in range anyway
            format!("restart:{}", self.rng.below(self.workers))
        } else {
            format!("finish:{w}:{}", self.rng.below(6))
        }
    }

    fn chunk(&mut self, max: usize) -> String {
        let n = self.rng.below(max + 1);
        (0..n).map(|_| self.act()).collect::<Vec<_>>().join(",")
    }
}

fn gen_case(w: &mut dyn Write, rng: &mut Rng, name: &str, prop: &str, long: bool) {
    let workers = rng.range(1, if prop == "C04" { 4 } else { 3 });
    let limit = rng.range(1, if prop == "C02" || prop == "C03" { 4 } else { 3 });
    let lst = *rng.pick(&["tcp", "tcp", "tcp,tcp", "tcp,uds", "uds"]);
    let listeners = lst.split(',').count();
    writeln!(w, "case {name} workers={workers} limit={limit} listeners={lst}").unwrap();
    let faults = prop == "C08" || (prop == "C01" && rng.chance(1, 3)) || (matches!(prop, "C04" | "C03") && rng.chance(1, 4));
    let cmds = (matches!(prop, "C05" | "C01" | "C08") && rng.chance(2, 3)) || (matches!(prop, "C03" | "C04" | "C02") && rng.chance(1, 3));
    let inject = prop == "C05" || (prop == "C03" && rng.chance(1, 4));
    let mut g = Gen { rng, workers, listeners, wids: workers, faults, cmds, inject };
    let n = if long { g.rng.range(20, 80) } else { g.rng.range(5, 40) };
    for _ in 0..n {
        let r = g.rng.below(100);
        if r < 30 {
            writeln!(w, "connect {}", g.rng.below(listeners)).unwrap();
        } else if r < 60 {
            // poll, sometimes with chunks at the first few yield points
            if g.rng.chance(1, 2) {
                let k = g.rng.range(1, 6);
                let chunks: Vec<String> = (0..k).map(|_| if g.rng.chance(1, 2) { g.chunk(3) } else { String::new() }).collect();
                writeln!(w, "poll y={}", chunks.join(";")).unwrap();
            } else {
                writeln!(w, "poll").unwrap();
            }
        } else if r < 90 {
            let c = g.chunk(4);
            if !c.is_empty() {
                writeln!(w, "env {c}").unwrap();
            }
        } else if r < 96 {
            writeln!(w, "finishw2 {} *", g.rng.below(g.wids)).unwrap();
        } else {
            writeln!(w, "poll").unwrap();
            writeln!(w, "poll").unwrap();
        }
    }
    // closing sequence: let everything drain, then reach a quiescent state
    if cmds {
        writeln!(w, "env resume").unwrap();
    }
    if inject || cmds {
        writeln!(w, "env advance:600").unwrap();
    }
    let wids = g.wids;
    for _ in 0..3 {
        writeln!(w, "poll").unwrap();
        writeln!(w, "poll").unwrap();
        let acts: Vec<String> = (0..wids).flat_map(|i| vec![format!("recv:{i}"), format!("recv:{i}"), format!("recv:{i}"), format!("finish:{i}:*")]).collect();
        writeln!(w, "env {}", acts.join(",")).unwrap();
    }
    writeln!(w, "poll").unwrap();
    writeln!(w, "poll").unwrap();
}

fn gen(a: &Args) {
    let mut w = out_writer(&a.output);
    let thorough = a.tier == "thorough";
    let mut rng = Rng::new(a.seed ^ 0x5151);
    let prop = a.prop.as_str();
    // kernel agreement (T1 validation): generated Lean kernels vs the Rust functions
    writeln!(w, "case kernels workers=1 limit=1 listeners=tcp").unwrap();
    if matches!(prop, "C02" | "C03" | "C04" | "C01" | "C08") {
        for l in 0..=6usize {
            writeln!(w, "k-new {l}").unwrap();
            for v in 0..=l + 3 {
                writeln!(w, "k-inc {v} {l}").unwrap();
                if v >= 1 {
                    writeln!(w, "k-dec {v} {l}").unwrap();
                }
            }
        }
    }
    if matches!(prop, "C02" | "C03") {
        // inc (accept thread) and dec (worker threads) are concurrent in the real server (seed11 C03-22)
        for (v, l, n) in [(300_001usize, 1usize, 300_000usize), (400_003, 25_600, 400_000)] {
            writeln!(w, "k-race {v} {l} {}", if thorough { n * 5 } else { n }).unwrap();
        }
        writeln!(w, "k-race 5 1 5").unwrap();
        writeln!(w, "k-race 5 1 x").unwrap();
        // "for every limit ≥ 1": limits beyond 32 bits reach the workers unharmed (real Servers; seed12 C03-23 stored
        // the limit in a u32)
        writeln!(w, "bld workers=1 limit=4294967297 n=3 calls=workers,limit").unwrap();
        writeln!(w, "bld workers=2 limit=18446744073709551615 n=5 calls=maxconn,workers").unwrap();
        if thorough {
            writeln!(w, "bld workers=2 limit=4294967296 n=4 calls=limit,workers").unwrap();
            writeln!(w, "bld workers=1 limit=2147483648 n=2 calls=workers,limit").unwrap();
            writeln!(w, "bld workers=1 limit=8589934594 n=6 calls=workers,maxconn").unwrap();
        }
        // the limit is not disturbed by the other builder options, whatever their values and order (seed15 C03-30 stored
        // `worker_max_blocking_threads` into the connection limit)
        // a released slot is refilled — through the real `ServerWorker::start` of a real server (seed17 C03-33: the
        // worker's notifications carried the number of services instead of its index)
        writeln!(w, "bld workers=1 limit=1 n=3 calls=workers,limit rel=2").unwrap();
        writeln!(w, "bld workers=2 limit=1 n=5 calls=limit,workers,listen rel=2").unwrap();
        writeln!(w, "bld workers=1 limit=3 n=5 calls=limit,blocking:1,workers").unwrap();
        writeln!(w, "bld workers=2 limit=2 n=6 calls=workers,limit,backlog:1,timeout:1,blocking:1").unwrap();
        writeln!(w, "bld workers=1 limit=18446744073709551616 n=3 calls=workers,limit").unwrap();
        writeln!(w, "bld workers=1 limit=17 n=20 calls=workers,limit").unwrap();
    }
    if prop == "C04" {
        // a saturated worker receives nothing until it has released a connection — also a worker the server started
        // as a replacement (real Servers through the builder; the second one loses a worker first)
        writeln!(w, "bld workers=2 limit=1 n=5 calls=workers,limit,blocking:8").unwrap();
        writeln!(w, "bld workers=2 limit=1 n=4 calls=limit,blocking:3,workers kill=1").unwrap();
        // a worker below its limit is not skipped, whichever builder call set the limit and in which order (seed15 C04-29:
        // the deprecated `maxconn` alias divided the limit by the number of workers)
        writeln!(w, "bld workers=2 limit=2 n=6 calls=workers,maxconn").unwrap();
        writeln!(w, "bld workers=3 limit=3 n=10 calls=maxconn,workers rel=2").unwrap();
        for i in 0..=600usize {
            writeln!(w, "k-offset {i}").unwrap();
        }
        let n = if thorough { 20000 } else { 3000 };
        for _ in 0..n {
            let ws: Vec<String> = (0..4)
                .map(|_| match rng.below(4) {
                    0 => "0".to_string(),
                    1 => format!("{:x}", 1u128 << rng.below(128)),
                    2 => format!("{:x}", ((rng.next() as u128) << 64) | rng.next() as u128),
                    _ => format!("{:x}", u128::MAX),
                })
                .collect();
            let i = if rng.chance(1, 20) { rng.range(500, 530) } else { rng.below(512) };
            if rng.chance(1, 2) {
                writeln!(w, "k-bits {} get {i}", ws.join(" ")).unwrap();
            } else {
                writeln!(w, "k-bits {} set {i} {}", ws.join(" "), rng.below(2)).unwrap();
            }
        }
    }
    if prop == "C05" {
        // every way a listener can be handed to the builder: pause holds connections back, resume serves them
        writeln!(w, "case builder-pause workers=1 limit=1 listeners=tcp").unwrap();
        for l in ["pse workers=1 ls=ul,tl", "pse workers=2 ls=ub,t2"] {
            writeln!(w, "{l}").unwrap();
        }
        // more clients during ONE pause than a 128-entry listen queue holds (seed16 C05-31 capped the backlog at 128)
        writeln!(w, "pse workers=2 ls=tb flood=200").unwrap();
        writeln!(w, "pse workers=1 ls=tl flood=401").unwrap();
        if thorough {
            for l in ["pse workers=1 ls=ul", "pse workers=1 ls=ub", "pse workers=1 ls=tl", "pse workers=1 ls=tb", "pse workers=3 ls=tb,ul,tl,ub"] {
                writeln!(w, "{l}").unwrap();
            }
        }
        writeln!(w, "pse workers=1 ls=xx").unwrap();
        writeln!(w, "pse workers=0 ls=tb").unwrap();
    }
    if prop == "C04" {
        // directed: fill every worker, release on some of them (so that available and saturated workers alternate around
        // the cursor), let the accept thread learn about it, then a burst: it must follow the cursor over the available ones
        let mut k = 0;
        for workers in [3usize, 4] {
            for limit in [2usize, 3] {
                for mask in 1..(1u32 << workers) - 1 {
                    if !thorough && (mask as usize + workers + limit) % 3 != 0 {
                        continue;
                    }
                    k += 1;
                    writeln!(w, "case rr-skip-{k} workers={workers} limit={limit} listeners=tcp").unwrap();
                    for _ in 0..workers * limit {
                        writeln!(w, "connect 0").unwrap();
                    }
                    writeln!(w, "poll").unwrap();
                    for wi in 0..workers {
                        for _ in 0..limit {
                            writeln!(w, "env recv:{wi}").unwrap();
                        }
                    }
                    let mut freed = 0;
                    for wi in 0..workers {
                        if mask & (1 << wi) != 0 {
                            // every connection of this worker ends: it stays available after its next dispatch
                            for _ in 0..limit {
                                writeln!(w, "env finish:{wi}:*").unwrap();
                                freed += 1;
                            }
                        }
                    }
                    writeln!(w, "poll").unwrap();
                    for _ in 0..freed {
                        writeln!(w, "connect 0").unwrap();
                    }
                    writeln!(w, "poll").unwrap();
                    writeln!(w, "poll").unwrap();
                }
            }
        }
    }
    if prop == "C01" {
        // MANY listeners (more than 256: tokens do not fit a byte): a connection reaches the service of ITS listener
        // (seed12 C01-24 narrowed the listener record's token to u8)
        for nl in if thorough { vec![257usize, 260, 300] } else { vec![260usize] } {
            writeln!(w, "case many-listeners-{nl} workers=2 limit=8 listeners={}", vec!["tcp"; nl].join(",")).unwrap();
            for l in [nl - 1, 256, 0, 255, nl - 3, 1] {
                writeln!(w, "connect {l}").unwrap();
            }
            writeln!(w, "poll").unwrap();
            writeln!(w, "poll").unwrap();
            writeln!(w, "env recv:0,recv:1,recv:0,recv:1,recv:0,recv:1").unwrap();
            writeln!(w, "connect 256").unwrap();
            writeln!(w, "env pause").unwrap();
            writeln!(w, "poll").unwrap();
            writeln!(w, "env resume").unwrap();
            writeln!(w, "poll").unwrap();
            writeln!(w, "poll").unwrap();
            writeln!(w, "env recv:0,recv:1").unwrap();
        }
    }
    if matches!(prop, "C04" | "C02" | "C03" | "C08" | "C01") {
        // MANY workers (the availability bitset has four 128-bit words, 512 indices): every worker is marked available
        // at start-up and takes its turn; limit 1 saturates them one by one, releases re-open exactly those
        let sizes: &[usize] = if thorough { &[31, 32, 33, 64, 65, 127, 128, 129, 130, 255, 256, 257, 383, 384, 385, 511, 512] } else { &[33, 129, 130, 257, 512] };
        for (k, wk) in sizes.iter().enumerate() {
            writeln!(w, "case many-workers-{wk} workers={wk} limit=1 listeners=tcp").unwrap();
            let n = if *wk > 120 { 120 } else { *wk };
            // the listen backlog holds ~128: connect in waves
            let mut sent = 0;
            while sent < wk + 2 {
                let wave = n.min(wk + 2 - sent);
                for _ in 0..wave {
                    writeln!(w, "connect 0").unwrap();
                }
                writeln!(w, "poll").unwrap();
                sent += wave;
            }
            writeln!(w, "poll").unwrap();
            // the last, the first of the upper words and some in between take a connection, finish it, and get the next
            for wi in [wk - 1, wk / 2, (k * 37) % wk, 0] {
                writeln!(w, "env recv:{wi},finish:{wi}:*").unwrap();
                writeln!(w, "poll").unwrap();
                writeln!(w, "poll").unwrap();
            }
        }
    }
    if prop == "C03" {
        // a server with listeners handed over every way the builder accepts them serves what waits after a pause
        writeln!(w, "case builder-listeners workers=1 limit=1 listeners=tcp").unwrap();
        writeln!(w, "pse workers=1 ls=ul,tb").unwrap();
        if thorough {
            writeln!(w, "pse workers=2 ls=tl,ub,ul").unwrap();
        }
    }
    if prop == "C01" {
        // every listener's connections reach THAT listener's service: real `Server`s through the public builder,
        // listener names not in lexicographic order of registration, TCP and UDS mixed
        writeln!(w, "case builder-routing workers=1 limit=1 listeners=tcp").unwrap();
        writeln!(w, "pse workers=1 ls=t2,tl,tb").unwrap();
        writeln!(w, "pse workers=2 ls=ub,t2").unwrap();
        // a Unix listener handed over by the caller (blocking, as std creates it) among TCP ones (seed11 C01-22)
        writeln!(w, "pse workers=1 ls=ul,tb").unwrap();
        if thorough {
            writeln!(w, "pse workers=2 ls=tl,ul,ub").unwrap();
        }
    }
    if prop == "C02" {
        // the configured limit reaches the workers whatever the order of the builder calls: real `Server`s
        // through the public `ServerBuilder` API, clients held open (each scenario takes about half a second)
        writeln!(w, "case builder workers=1 limit=1 listeners=tcp").unwrap();
        let fixed = [
            "bld workers=1 limit=2 n=5 calls=workers,limit,blocking:8",
            "bld workers=2 limit=1 n=4 calls=limit,workers,blocking:3,backlog:64",
            "bld workers=1 limit=3 n=6 calls=blocking:7,timeout:2,limit,workers",
            "bld workers=2 limit=2 n=7 calls=backlog:32,workers,limit,timeout:1,blocking:16",
        ];
        for f in fixed {
            writeln!(w, "{f}").unwrap();
        }
        // the limit survives `TestServer::start_with_builder` (seed12 C02-23 re-set it there), and a `resume()` at the
        // plateau — with or without a `pause()` before it — dispatches nothing to the saturated workers (seed12 C02-24
        // queued an availability notice for every worker on Resume)
        writeln!(w, "bld workers=1 limit=2 n=6 calls=workers,limit via=test").unwrap();
        writeln!(w, "bld workers=1 limit=1 n=3 calls=maxconn,blocking:4,workers via=test").unwrap();
        writeln!(w, "bld workers=2 limit=2 n=8 calls=workers,limit resume=1").unwrap();
        writeln!(w, "bld workers=2 limit=1 n=5 calls=limit,workers resume=2").unwrap();
        writeln!(w, "bld workers=2 limit=1 n=5 calls=limit,workers via=test").unwrap();
        writeln!(w, "bld workers=1 limit=1 n=3 calls=limit,workers via=test resume=1").unwrap();
        writeln!(w, "bld workers=1 limit=1 n=3 calls=limit,workers resume=3").unwrap();
        writeln!(w, "bld workers=2 limit=1 n=4 calls=workers,limit kill=1").unwrap();
        writeln!(w, "bld workers=1 limit=2 n=4 calls=limit,workers,blocking:4 kill=1").unwrap();
        writeln!(w, "bld workers=1 limit=1 n=1 calls=limit,workers kill=2").unwrap();
        // held connections end one at a time: the freed slot is refilled on the worker that freed it
        writeln!(w, "bld workers=2 limit=1 n=5 calls=workers,limit rel=2").unwrap();
        writeln!(w, "bld workers=3 limit=2 n=9 calls=limit,workers,blocking:4 rel=3").unwrap();
        // further listeners registered before / after the limit is configured
        writeln!(w, "bld workers=1 limit=1 n=3 calls=listen,listen,workers,limit").unwrap();
        writeln!(w, "bld workers=2 limit=2 n=6 calls=listen,limit,listen,listen,workers rel=1").unwrap();
        // the deprecated alias `maxconn`, and the neutral `mptcp` setter, in every position
        writeln!(w, "bld workers=1 limit=1 n=3 calls=maxconn,workers").unwrap();
        writeln!(w, "bld workers=2 limit=2 n=6 calls=mptcp:1,workers,backlog:16,maxconn,mptcp:0 rel=1").unwrap();
        writeln!(w, "bld workers=1 limit=1 n=1 calls=limit,maxconn,workers").unwrap();
        writeln!(w, "bld workers=1 limit=1 n=1 calls=limit,workers rel=9").unwrap();
        writeln!(w, "bld workers=1 limit=1 n=1 calls=limit,workers,listen,listen,listen,listen").unwrap();
        let extra = if thorough { 40 } else { 4 };
        for _ in 0..extra {
            let wk = 1 + rng.below(3) as usize;
            let l = 1 + rng.below(3) as usize;
            let n = wk * l + rng.below(4) as usize;
            let mut calls = vec![if rng.chance(1, 3) { "maxconn".to_string() } else { "limit".to_string() }, "workers".to_string()];
            if rng.chance(1, 3) {
                calls.push(format!("mptcp:{}", rng.below(2)));
            }
            for (k, hi) in [("blocking", 64usize), ("backlog", 256), ("timeout", 3)] {
                if rng.chance(2, 3) {
                    calls.push(format!("{k}:{}", 1 + rng.below(hi)));
                }
            }
            for _ in 0..rng.below(4) {
                calls.push("listen".to_string());
            }
            // Fisher-Yates
            for i in (1..calls.len()).rev() {
                let j = rng.below(i + 1);
                calls.swap(i, j);
            }
            let rel = rng.below(4);
            writeln!(w, "bld workers={wk} limit={l} n={n} calls={} rel={rel}", calls.join(",")).unwrap();
        }
        // malformed
        writeln!(w, "bld workers=0 limit=1 n=1 calls=limit,workers").unwrap();
        writeln!(w, "bld workers=1 limit=2 n=1 calls=limit,workers").unwrap();
        writeln!(w, "bld workers=1 limit=1 n=1 calls=limit").unwrap();
        writeln!(w, "bld workers=1 limit=1 n=1 calls=limit,workers,bogus:3").unwrap();
    }
    if matches!(prop, "C05" | "C03" | "C01" | "C02") {
        // a long backlog on one listener: everything that arrived during a pause (or simply at once) is accepted by the
        // iteration that follows — the readiness event is edge-triggered, an accept loop that stops early strands the rest
        for (i, (n, paused)) in [(100usize, true), (90, false), (120, true)].iter().enumerate().take(if thorough { 3 } else { 2 }) {
            writeln!(w, "case flood-{i} workers=2 limit={} listeners=tcp", n / 2 + 5).unwrap();
            if *paused {
                writeln!(w, "env pause").unwrap();
                writeln!(w, "poll").unwrap();
            }
            for _ in 0..*n {
                writeln!(w, "connect 0").unwrap();
            }
            if *paused {
                writeln!(w, "env resume").unwrap();
            }
            writeln!(w, "poll").unwrap();
            writeln!(w, "poll").unwrap();
            writeln!(w, "poll").unwrap();
        }
        // two listeners backing off with different deadlines, the higher token first: the poll time-out follows the EARLIEST
        writeln!(w, "case backoff-two-deadlines workers=1 limit=4 listeners=tcp,tcp").unwrap();
        for l in ["env inject:1:EMFILE", "connect 1", "poll", "env advance:350", "env inject:0:EMFILE", "connect 0", "poll", "poll",
                  "env advance:160", "poll", "poll", "env advance:350", "poll", "poll", "poll"] {
            writeln!(w, "{l}").unwrap();
        }
        // … and everything that arrived during an accept-error back-off, once it is over
        writeln!(w, "case flood-backoff workers=2 limit=60 listeners=tcp").unwrap();
        writeln!(w, "env inject:0:EMFILE").unwrap();
        writeln!(w, "connect 0").unwrap();
        writeln!(w, "poll").unwrap();
        for _ in 0..95 {
            writeln!(w, "connect 0").unwrap();
        }
        writeln!(w, "env advance:600").unwrap();
        writeln!(w, "poll").unwrap();
        writeln!(w, "poll").unwrap();
        writeln!(w, "poll").unwrap();
        writeln!(w, "poll").unwrap();
    }
    if matches!(prop, "C02" | "C04" | "C05") {
        // an accept-error back-off (injected, and REAL through nofile) while one worker is full and another is not: when it
        // is over the full worker is still full (seed13 C02-26 cleared all availability bits on the error and set them ALL
        // again at the expiry)
        for (i, err) in ["env inject:0:EMFILE", "nofile"].iter().enumerate() {
            writeln!(w, "case backoff-with-a-full-worker-{i} workers=2 limit=1 listeners=tcp").unwrap();
            writeln!(w, "connect 0").unwrap();
            writeln!(w, "poll").unwrap();
            if *err == "nofile" {
                writeln!(w, "connect 0").unwrap();
                writeln!(w, "poll nofile=1").unwrap();
            } else {
                writeln!(w, "{err}").unwrap();
                writeln!(w, "connect 0").unwrap();
                writeln!(w, "poll").unwrap();
            }
            for l in ["env advance:600", "poll", "poll", "connect 0", "poll", "poll", "connect 0", "poll", "env recv:0,recv:1", "poll"] {
                writeln!(w, "{l}").unwrap();
            }
        }
    }
    if matches!(prop, "C05" | "C03" | "C08" | "C06") {
        // interests pushed by another thread WHILE the loop drains its queue are all processed (seed13 C05-25 dropped
        // the queue's lock between the empty pop and the reset)
        writeln!(w, "case waker-queue-race workers=1 limit=1 listeners=tcp").unwrap();
        for (n, r) in if thorough { vec![(512usize, 3000usize), (300, 1000), (64, 2000), (1, 200)] } else { vec![(512usize, 400usize), (64, 400)] } {
            writeln!(w, "wq-race {n} {r}").unwrap();
        }
        writeln!(w, "wq-race 0 1").unwrap();
        writeln!(w, "wq-race 513 1").unwrap();
        writeln!(w, "wq-race 5 0").unwrap();
        writeln!(w, "wq-race 5").unwrap();
    }
    if matches!(prop, "C05" | "C03") {
        // the process REALLY runs out of file descriptors (RLIMIT_NOFILE lowered for one iteration): accept(2) itself
        // fails with EMFILE — the listener backs off and the waiting connections are served once the shortage is over
        // (seed12 C05-23 turned the kernel's EMFILE / ENFILE into WouldBlock below the injection hook)
        let scripts: [(&str, &[&str]); 4] = [
            ("tcp", &["connect 0", "poll nofile=1", "poll", "env advance:600", "poll", "poll", "poll"]),
            ("tcp,tcp", &["connect 1", "connect 0", "connect 1", "poll nofile=1", "env advance:300", "poll", "connect 0", "env advance:300", "poll", "poll", "poll"]),
            ("uds,tcp", &["connect 0", "poll", "connect 0", "connect 1", "poll nofile=1", "poll nofile=1", "env advance:501", "poll", "poll", "env recv:0", "poll"]),
            ("tcp", &["connect 0", "poll nofile=1", "env pause", "poll", "env advance:600", "poll", "env resume", "poll", "poll", "poll"]),
        ];
        for (i, (ls, ops)) in scripts.iter().enumerate() {
            writeln!(w, "case real-emfile-{i} workers=2 limit=2 listeners={ls}").unwrap();
            for l in ops.iter() {
                writeln!(w, "{l}").unwrap();
            }
        }
        writeln!(w, "case real-emfile-malformed workers=1 limit=1 listeners=tcp").unwrap();
        for l in ["poll nofile=2", "poll nofile=1 quiet=1", "poll nofile=1 y=connect:0", "env inject:0:EMFILE", "poll nofile=1", "poll"] {
            writeln!(w, "{l}").unwrap();
        }
    }
    if matches!(prop, "C06" | "C05" | "C03" | "C08" | "C01") {
        // a command handed to `WakerQueue::wake` while the queue's mutex is busy still wakes the accept thread
        // (`wqc` + an iteration the driver does not wake itself)
        let seqs: [&[&str]; 5] = [
            &["wqc stop", "poll quiet=1"],
            &["wqc pause", "poll quiet=1", "wqc stop", "poll quiet=1"],
            &["wqc pause", "poll quiet=1", "wqc resume", "poll quiet=1", "connect 0", "poll", "wqc stop", "poll quiet=1"],
            &["poll quiet=1", "wqc resume", "poll quiet=1", "wqc pause", "poll quiet=1", "wqc pause", "poll quiet=1"],
            &["connect 0", "poll", "wqc pause", "poll quiet=1", "connect 0", "poll", "wqc stop", "poll quiet=1"],
        ];
        let n = if thorough { 5 } else if prop == "C06" { 5 } else { 2 };
        for (i, sq) in seqs.iter().enumerate().take(n) {
            let lst = if i % 2 == 0 { "tcp" } else { "uds,tcp" };
            writeln!(w, "case wq-contended-{i} workers={} limit=2 listeners={lst}", 1 + i % 2).unwrap();
            for l in *sq {
                writeln!(w, "{l}").unwrap();
            }
        }
        writeln!(w, "case wq-malformed workers=1 limit=1 listeners=tcp").unwrap();
        writeln!(w, "wqc").unwrap();
        writeln!(w, "wqc restart").unwrap();
        writeln!(w, "connect 0").unwrap();
        writeln!(w, "wqc pause").unwrap();
    }
    if prop == "C06" {
        // (C06's own engine is `worker`; this engine contributes the waker-queue hand-over of `Stop` only)
        w.flush().unwrap();
        return;
    }
    let cases = if thorough { 30000 } else { 1200 };
    for c in 0..cases {
        gen_case(&mut *w, &mut rng, &format!("r{c}"), prop, thorough && c % 4 == 0);
    }
    w.flush().unwrap();
}

fn main() {
    let a = parse_args();
    match a.cmd.as_str() {
        "gen" => gen(&a),
        "run" => run(&a),
        _ => {
            eprintln!("usage: srv gen|run …");
            std::process::exit(2)
        }
    }
}
