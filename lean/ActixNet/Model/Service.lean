/-!
# Model of the `actix-service` combinators (C11, C12)

Import-free executable model.  Part 1: services and their call futures (and_then.rs, map.rs,
map_err.rs, apply.rs, boxed.rs, fn_service.rs, the wrapper impls of lib.rs, macros.rs).
Part 2: service factories and their init futures (the factory halves of the same files plus
transform.rs, transform_err.rs, apply_cfg.rs, map_config.rs, map_init_err.rs).

Leaves are *scripted*: a leaf's call future answers `Pending` `cp` times and then `Ok`/`Err`; its
`poll_ready` answers `Pending` `rp` times and then `Ready(Ok)`/`Ready(Err)` for ever.  The readiness
countdown lives in the tree itself (`pollReady` returns the new tree), the completion countdown in
the future (`Fut.leafF`).  Every observable action is logged as an `Evt`; `w` is the identity of the
waker of the current top-level poll (the harness uses a fresh one for every poll).  A leaf that
answers `Pending` to waker `w` (events `polled _ w none`, `ipolled _ w none`, `rdy _ w pending`) has
parked that waker: this is the only way a wake-up is arranged, the combinators never wake by
themselves.
-/
namespace ActixNet.Service

inductive Res where
  | ok (v : Nat) | err (e : Nat)
deriving Repr, DecidableEq, Inhabited

/-- result of one `poll_ready` -/
inductive Rdy where
  | pending | ok | err (e : Nat)
deriving Repr, DecidableEq, Inhabited

/-- the observable mapper / leaf functions (the harness uses the same arithmetic) -/
def mapFn (f v : Nat) : Nat := (31 * v + f + 1) % 9973
def leafVal (id req : Nat) : Nat := (17 * req + id + 5) % 9973
def leafErr (id req : Nat) : Nat := (13 * req + id + 2) % 9973
def rdyErr (id : Nat) : Nat := 7000 + id
def initErr (id cfg : Nat) : Nat := (11 * cfg + id + 3) % 9973

inductive Evt where
  | called (id req : Nat)                    -- leaf `call(req)`
  | polled (id w : Nat) (out : Option Res)   -- leaf call future polled with waker `w`
  | repoll (id w : Nat)                      -- leaf call future polled after completion (panic)
  | mapped (f v : Nat)                       -- `map` closure applied to an Ok value
  | mappedErr (f e : Nat)                    -- `map_err` closure applied to an Err value (call path)
  | wrapFn (k req : Nat)                     -- `apply_fn` closure invoked
  | post (t v : Nat)                         -- user post-processing of an Ok response (apply_fn / middleware)
  | mw (t req : Nat)                         -- middleware service called
  | rdy (id w : Nat) (out : Rdy)             -- leaf `poll_ready` with waker `w`
  | rdyMapErr (f e : Nat)                    -- `map_err` closure applied to a readiness error
  | new (id cfg : Nat)                       -- leaf factory `new_service(cfg)`
  | ipolled (id w : Nat) (out : Option (Option Nat))  -- leaf init future polled: pending / ok / err e
  | irepoll (id w : Nat)                     -- init future polled after completion (panic)
  | cfgMapped (f c : Nat)                    -- `map_config` closure applied
  | initErrMapped (f e : Nat)                -- `map_init_err` closure applied
  | newTransform (t : Nat)                   -- `Transform::new_transform` invoked
  | cfgFn (f cfg : Nat)                      -- `apply_cfg` / `apply_cfg_factory` closure invoked
  | reent (k req : Nat)                      -- re-entrant shim service entered by `call(req)`
  | freent (k cfg : Nat)                     -- re-entrant shim factory entered by `new_service(cfg)`
deriving Repr, DecidableEq

/-- transparent wrappers: `boxed::service`, `boxed::rc_service`, `Rc<S>`, `RefCell<S>`, `&S`, `Box<S>`,
`&mut S` -/
inductive Wrap where
  | boxed | rcBoxed | rc | refCell | ref | box | refMut
deriving Repr, DecidableEq

/-- what the closure given to `apply_fn` does with `(req, &service)` -/
inductive AKind where
  | pre    -- `service.call(g(req))`
  | short  -- answers `Err(g(req))` without calling the service
  | post   -- `service.call(req)` and then maps an Ok response
deriving Repr, DecidableEq

inductive Svc where
  | leaf (id cp : Nat) (cok : Bool) (rp : Nat) (rok : Bool)
  | fnSvc (id : Nat) (cok : Bool)          -- `fn_service(f)`: always ready, completes on the first poll
  | map (s : Svc) (f : Nat)
  | mapErr (s : Svc) (f : Nat)
  | andThen (a b : Svc)
  | applyFn (s : Svc) (kind : AKind) (k : Nat)
  | wrap (w : Wrap) (s : Svc)
  | mw (s : Svc) (t : Nat)                 -- user middleware (built by a `Transform` / `apply_cfg`)
  /-- wrapper `w` around a user shim that re-enters *the wrapped service itself* (through a clone of
  the handle) while its own `call` / `poll_ready` is on the stack: `call(req)` with odd `req` calls
  the wrapper again with `req - 1`, which (even) goes on to `s`; `poll_ready` polls the wrapper
  once more, which then polls `s`.  Transparent wrappers make this the same as `s` on `req - req % 2` -/
  | reenter (w : Wrap) (k : Nat) (s : Svc)
deriving Repr, DecidableEq, Inhabited

inductive Fut where
  | leafF (id pend : Nat) (res : Res) (fin : Bool)
  | mapF (fu : Fut) (f : Nat)
  | mapErrF (fu : Fut) (f : Nat)
  | postF (fu : Fut) (t : Nat)
  | andThenA (fu : Fut) (b : Svc)
  | andThenB (fu : Fut)
deriving Repr, DecidableEq

def leafRes (id : Nat) (cok : Bool) (req : Nat) : Res :=
  if cok then .ok (leafVal id req) else .err (leafErr id req)

/-- the request / config that reaches the inner service of a re-entrant shim: an odd value re-enters
the wrapper once with the value below it -/
def reReq (req : Nat) : Nat := if req % 2 = 1 then req - 1 else req
/-- the shim entries of one `call(req)` through a re-entrant wrapper -/
def reEvts (k req : Nat) : List Evt := if req % 2 = 1 then [.reent k req, .reent k (req - 1)] else [.reent k req]
def freEvts (k cfg : Nat) : List Evt := if cfg % 2 = 1 then [.freent k cfg, .freent k (cfg - 1)] else [.freent k cfg]

/-- `Service::call`: the future and the events emitted synchronously by the call -/
def call : Svc → Nat → Fut × List Evt
  | .leaf id cp cok _ _, req => (.leafF id cp (leafRes id cok req) false, [.called id req])
  | .fnSvc id cok, req => (.leafF id 0 (leafRes id cok req) false, [.called id req])
  | .map s f, req => ((.mapF (call s req).1 f), (call s req).2)
  | .mapErr s f, req => ((.mapErrF (call s req).1 f), (call s req).2)
  | .andThen a b, req => ((.andThenA (call a req).1 b), (call a req).2)
  | .applyFn s .pre k, req => ((call s (mapFn k req)).1, .wrapFn k req :: (call s (mapFn k req)).2)
  | .applyFn _ .short k, req => (.leafF k 0 (.err (mapFn k req)) false, [.wrapFn k req])
  | .applyFn s .post k, req => (.postF (call s req).1 k, .wrapFn k req :: (call s req).2)
  | .wrap _ s, req => call s req
  | .mw s t, req => (.postF (call s req).1 t, .mw t req :: (call s req).2)
  | .reenter _ k s, req => ((call s (reReq req)).1, reEvts k req ++ (call s (reReq req)).2)

def svcSize : Svc → Nat
  | .leaf .. => 1
  | .fnSvc .. => 1
  | .map s _ => svcSize s + 1
  | .mapErr s _ => svcSize s + 1
  | .andThen a b => svcSize a + svcSize b + 1
  | .applyFn s _ _ => svcSize s + 1
  | .wrap _ s => svcSize s + 1
  | .mw s _ => svcSize s + 1
  | .reenter _ _ s => svcSize s + 1

def futSize : Fut → Nat
  | .leafF .. => 0
  | .mapF fu _ => futSize fu + 1
  | .mapErrF fu _ => futSize fu + 1
  | .postF fu _ => futSize fu + 1
  | .andThenA fu b => futSize fu + svcSize b + 1
  | .andThenB fu => futSize fu + 1

theorem futSize_call (s : Svc) (req : Nat) : futSize (call s req).1 < svcSize s := by
  induction s generalizing req with
  | leaf => simp [call, futSize, svcSize]
  | fnSvc => simp [call, futSize, svcSize]
  | map s f ih => have := ih req; simp [call, futSize, svcSize]; omega
  | mapErr s f ih => have := ih req; simp [call, futSize, svcSize]; omega
  | andThen a b iha ihb => have := iha req; simp [call, futSize, svcSize]; omega
  | applyFn s kind k ih =>
    cases kind
    · have := ih (mapFn k req); simp [call, svcSize]; omega
    · simp [call, futSize, svcSize]
    · have := ih req; simp [call, futSize, svcSize]; omega
  | wrap w s ih => have := ih req; simp [call, svcSize]; omega
  | mw s t ih => have := ih req; simp [call, futSize, svcSize]; omega
  | reenter w k s ih => have := ih (reReq req); simp [call, svcSize]; omega

/-- `Future::poll` of the response futures with waker identity `w`: new state, `none` = Pending,
and the events.  `andThenA` is and_then.rs:108-118: when the first future completes with `Ok` the
second service is called and the *same* poll continues into the new future. -/
def poll : Fut → Nat → Fut × Option Res × List Evt
  | .leafF id p r true, w => (.leafF id p r true, none, [.repoll id w])
  | .leafF id 0 r false, w => (.leafF id 0 r true, some r, [.polled id w (some r)])
  | .leafF id (p+1) r false, w => (.leafF id p r false, none, [.polled id w none])
  | .mapF fu f, w =>
    match poll fu w with
    | (fu', some (.ok v), l) => (.mapF fu' f, some (.ok (mapFn f v)), l ++ [.mapped f v])
    | (fu', some (.err e), l) => (.mapF fu' f, some (.err e), l)
    | (fu', none, l) => (.mapF fu' f, none, l)
  | .mapErrF fu f, w =>
    match poll fu w with
    | (fu', some (.ok v), l) => (.mapErrF fu' f, some (.ok v), l)
    | (fu', some (.err e), l) => (.mapErrF fu' f, some (.err (mapFn f e)), l ++ [.mappedErr f e])
    | (fu', none, l) => (.mapErrF fu' f, none, l)
  | .postF fu t, w =>
    match poll fu w with
    | (fu', some (.ok v), l) => (.postF fu' t, some (.ok (mapFn t v)), l ++ [.post t v])
    | (fu', some (.err e), l) => (.postF fu' t, some (.err e), l)
    | (fu', none, l) => (.postF fu' t, none, l)
  | .andThenA fu b, w =>
    match poll fu w with
    | (fu', none, l) => (.andThenA fu' b, none, l)
    | (fu', some (.err e), l) => (.andThenA fu' b, some (.err e), l)
    | (_, some (.ok v), l) =>
      match poll (call b v).1 w with
      | (fb', r, l3) => (.andThenB fb', r, l ++ (call b v).2 ++ l3)
  | .andThenB fu, w =>
    match poll fu w with
    | (fu', r, l) => (.andThenB fu', r, l)
termination_by fu => futSize fu
decreasing_by
  all_goals simp only [futSize]
  all_goals first
    | omega
    | (have := futSize_call b v; omega)

/-- the manual executor: poll with a fresh waker identity until completion (`fuel` polls at most) -/
def drive : Nat → Fut → Nat → Option Res × List Evt × Nat
  | 0, _, w => (none, [], w)
  | n+1, fu, w =>
    match poll fu w with
    | (_, some r, l) => (some r, l, w)
    | (fu', none, l) =>
      match drive n fu' (w+1) with
      | (r, l2, w') => (r, l ++ l2, w')

/-- `Service::poll_ready` with waker `w`: new service state, result, events.
and_then.rs:47-55: `a` is polled first, `?` returns its error at once; then `b` is polled *even if
`a` is pending*; ready only if both are.  `map`, `apply_fn`, the wrappers and middleware forward
(`forward_ready!`); `map_err` maps the error. -/
def pollReady : Svc → Nat → Svc × Rdy × List Evt
  | .leaf id cp cok (rp+1) rok, w => (.leaf id cp cok rp rok, .pending, [.rdy id w .pending])
  | .leaf id cp cok 0 true, w => (.leaf id cp cok 0 true, .ok, [.rdy id w .ok])
  | .leaf id cp cok 0 false, w => (.leaf id cp cok 0 false, .err (rdyErr id), [.rdy id w (.err (rdyErr id))])
  | .fnSvc id cok, _ => (.fnSvc id cok, .ok, [])
  | .map s f, w => match pollReady s w with | (s', r, l) => (.map s' f, r, l)
  | .mapErr s f, w =>
    match pollReady s w with
    | (s', .err e, l) => (.mapErr s' f, .err (mapFn f e), l ++ [.rdyMapErr f e])
    | (s', r, l) => (.mapErr s' f, r, l)
  | .andThen a b, w =>
    match pollReady a w with
    | (a', .err e, la) => (.andThen a' b, .err e, la)
    | (a', ra, la) =>
      match pollReady b w with
      | (b', .err e, lb) => (.andThen a' b', .err e, la ++ lb)
      | (b', rb, lb) => (.andThen a' b', (if ra = .ok ∧ rb = .ok then .ok else .pending), la ++ lb)
  | .applyFn s kind k, w => match pollReady s w with | (s', r, l) => (.applyFn s' kind k, r, l)
  | .wrap wr s, w => match pollReady s w with | (s', r, l) => (.wrap wr s', r, l)
  | .mw s t, w => match pollReady s w with | (s', r, l) => (.mw s' t, r, l)
  | .reenter wr k s, w => match pollReady s w with | (s', r, l) => (.reenter wr k s', r, l)

/-- a new readiness round of leaf `i` begins (its capacity was consumed by a call, or it broke): its
`poll_ready` answers `Pending` `rp` times again and then `Ready(Ok)` / `Ready(Err)`.  Nothing else
in the tree has any readiness state, so a combinator that *remembers* an earlier answer is wrong. -/
def rescript : Svc → Nat → Nat → Bool → Svc
  | .leaf id cp cok rp0 rok0, i, rp, rok => if id = i then .leaf id cp cok rp rok else .leaf id cp cok rp0 rok0
  | .fnSvc id cok, _, _, _ => .fnSvc id cok
  | .map s f, i, rp, rok => .map (rescript s i rp rok) f
  | .mapErr s f, i, rp, rok => .mapErr (rescript s i rp rok) f
  | .andThen a b, i, rp, rok => .andThen (rescript a i rp rok) (rescript b i rp rok)
  | .applyFn s kind k, i, rp, rok => .applyFn (rescript s i rp rok) kind k
  | .wrap w s, i, rp, rok => .wrap w (rescript s i rp rok)
  | .mw s t, i, rp, rok => .mw (rescript s i rp rok) t
  | .reenter w k s, i, rp, rok => .reenter w k (rescript s i rp rok)

/-! ## Part 2: service factories -/

/-- result of building a service -/
inductive IRes where
  | ok (s : Svc) | err (e : Nat)
deriving Repr, DecidableEq, Inhabited

inductive Fac where
  /-- scripted leaf: `fn_factory_with_config` (`useCfg`) or `fn_factory` (config not passed on);
  the init future is Pending `ip` times, then `Ok(s)` / `Err(initErr id cfg)` -/
  | leaf (id ip : Nat) (iok useCfg : Bool) (s : Svc)
  | fnSvc (id : Nat) (cok : Bool)              -- `fn_service(f)` used as a factory
  | map (a : Fac) (f : Nat)
  | mapErr (a : Fac) (f : Nat)
  | mapInitErr (a : Fac) (f : Nat)
  | andThen (a b : Fac)
  | applyFn (a : Fac) (kind : AKind) (k : Nat) -- `apply_fn_factory`
  /-- `apply(transform, factory)`; with `mie = some m` the transform is
  `TransformExt::map_init_err(transform, m)` (transform_err.rs) -/
  | transform (t tp : Nat) (tok : Bool) (mie : Option Nat) (a : Fac)
  | applyCfg (s : Svc) (f ip : Nat) (iok : Bool)    -- `apply_cfg(service, f)`
  | applyCfgFac (a : Fac) (f ip : Nat) (iok : Bool) -- `apply_cfg_factory(factory, f)`
  | mapConfig (a : Fac) (f : Nat)
  | unitConfig (a : Fac)
  | boxed (a : Fac)                            -- `boxed::factory`
  | rc (a : Fac)                               -- `Rc<factory>` / `Arc<factory>`
  /-- `Rc`/`Arc` around a user shim factory that re-enters the same `Rc`/`Arc` while its own
  `new_service` is on the stack: odd `cfg` asks the wrapper again with `cfg - 1`, even goes on to `a` -/
  | reenter (k : Nat) (a : Fac)
deriving Repr, DecidableEq, Inhabited

inductive IFut where
  | leafI (id pend : Nat) (res : IRes) (fin : Bool)
  | readyI (s : Svc) (fin : Bool)              -- `crate::Ready`: panics when polled twice
  | mapI (fu : IFut) (f : Nat)
  | mapErrI (fu : IFut) (f : Nat)
  | mapInitErrI (fu : IFut) (f : Nat)
  | applyFnI (fu : IFut) (kind : AKind) (k : Nat)
  | boxedI (fu : IFut)
  | andThenI (fa fb : IFut) (a b : Option Svc) -- and_then.rs:185-248 (join with `is_none` guards)
  | transA (fu : IFut) (t tp : Nat) (tok : Bool) (mie : Option Nat)
  | transB (fu : IFut)
  | cfgA (fu : IFut) (f ip : Nat) (iok : Bool) (cfg : Nat)   -- apply_cfg.rs:150-232
  | cfgB (svc : Svc) (f ip : Nat) (iok : Bool) (cfg : Nat)
  | cfgC (fu : IFut)
deriving Repr, DecidableEq

def leafIRes (id : Nat) (iok : Bool) (cfg : Nat) (s : Svc) : IRes :=
  if iok then .ok s else .err (initErr id cfg)

/-- what the closure of `apply_cfg*` builds from `(cfg, &service)` -/
def cfgRes (svc : Svc) (f : Nat) (iok : Bool) (cfg : Nat) : IRes :=
  if iok then .ok (.mw (.wrap .rc svc) (mapFn f cfg)) else .err (initErr f cfg)

def transRes (svc : Svc) (t : Nat) (tok : Bool) : IRes :=
  if tok then .ok (.mw svc t) else .err (initErr t 0)

/-- `ServiceFactory::new_service(cfg)`: the init future and the events emitted synchronously -/
def newService : Fac → Nat → IFut × List Evt
  | .leaf id ip iok true s, cfg => (.leafI id ip (leafIRes id iok cfg s) false, [.new id cfg])
  | .leaf id ip iok false s, _ => (.leafI id ip (leafIRes id iok 0 s) false, [.new id 0])
  | .fnSvc id cok, _ => (.readyI (.fnSvc id cok) false, [])
  | .map a f, cfg => (.mapI (newService a cfg).1 f, (newService a cfg).2)
  | .mapErr a f, cfg => (.mapErrI (newService a cfg).1 f, (newService a cfg).2)
  | .mapInitErr a f, cfg => (.mapInitErrI (newService a cfg).1 f, (newService a cfg).2)
  | .andThen a b, cfg =>
    (.andThenI (newService a cfg).1 (newService b cfg).1 none none, (newService a cfg).2 ++ (newService b cfg).2)
  | .applyFn a kind k, cfg => (.applyFnI (newService a cfg).1 kind k, (newService a cfg).2)
  | .transform t tp tok mie a, cfg => (.transA (newService a cfg).1 t tp tok mie, (newService a cfg).2)
  | .applyCfg s f ip iok, cfg => (.leafI f ip (cfgRes s f iok cfg) false, [.cfgFn f cfg])
  | .applyCfgFac a f ip iok, cfg => (.cfgA (newService a 0).1 f ip iok cfg, (newService a 0).2)
  | .mapConfig a f, cfg => ((newService a (mapFn f cfg)).1, .cfgMapped f cfg :: (newService a (mapFn f cfg)).2)
  | .unitConfig a, _ => newService a 0
  | .boxed a, cfg => (.boxedI (newService a cfg).1, (newService a cfg).2)
  | .rc a, cfg => newService a cfg
  | .reenter k a, cfg => ((newService a (reReq cfg)).1, freEvts k cfg ++ (newService a (reReq cfg)).2)

def iresOut : IRes → Option Nat
  | .ok _ => none
  | .err e => some e

def pollLeafI (id pend : Nat) (res : IRes) (fin : Bool) (w : Nat) : IFut × Option IRes × List Evt :=
  match fin, pend with
  | true, p => (.leafI id p res true, none, [.irepoll id w])
  | false, 0 => (.leafI id 0 res true, some res, [.ipolled id w (some (iresOut res))])
  | false, p+1 => (.leafI id p res false, none, [.ipolled id w none])

/-- first poll of the future returned by `new_transform` (a scripted leaf future); with
`mie = some m` it is wrapped in a `TransformMapInitErrFuture` (transform_err.rs:80-95), which maps an
`Err` with `m` and leaves `Pending` / `Ok` alone -/
def pollTrans (t tp : Nat) (res : IRes) (mie : Option Nat) (w : Nat) : IFut × Option IRes × List Evt :=
  match mie with
  | none => pollLeafI t tp res false w
  | some m =>
    match pollLeafI t tp res false w with
    | (fu, some (.err e), l) => (.mapInitErrI fu m, some (.err (mapFn m e)), l ++ [.initErrMapped m e])
    | (fu, r, l) => (.mapInitErrI fu m, r, l)

/-- state B of apply_cfg_factory: wait for the created service to be ready, then call the closure
and continue into its future within the same poll -/
def cfgBStep (svc : Svc) (f ip : Nat) (iok : Bool) (cfg w : Nat) : IFut × Option IRes × List Evt :=
  match pollReady svc w with
  | (svc', .pending, l) => (.cfgB svc' f ip iok cfg, none, l)
  | (svc', .err e, l) => (.cfgB svc' f ip iok cfg, some (.err e), l)
  | (svc', .ok, l) =>
    match pollLeafI f ip (cfgRes svc' f iok cfg) false w with
    | (fu, r, l2) => (.cfgC fu, r, l ++ .cfgFn f cfg :: l2)

def svcOf : Option IRes → Option Svc
  | some (.ok s) => some s
  | _ => none

/-- tail of AndThenServiceFactoryResponse::poll: ready when both services are there -/
def joinDone (fa fb : IFut) (a b : Option Svc) (l : List Evt) : IFut × Option IRes × List Evt :=
  match a, b with
  | some sa, some sb => (.andThenI fa fb none none, some (.ok (.andThen sa sb)), l)
  | _, _ => (.andThenI fa fb a b, none, l)

/-- `Future::poll` of the factory futures -/
def ipoll : IFut → Nat → IFut × Option IRes × List Evt
  | .leafI id p r fin, w => pollLeafI id p r fin w
  | .readyI s false, _ => (.readyI s true, some (.ok s), [])
  | .readyI s true, w => (.readyI s true, none, [.irepoll 0 w])
  | .mapI fu f, w =>
    match ipoll fu w with
    | (fu', some (.ok s), l) => (.mapI fu' f, some (.ok (.map s f)), l)
    | (fu', r, l) => (.mapI fu' f, r, l)
  | .mapErrI fu f, w =>
    match ipoll fu w with
    | (fu', some (.ok s), l) => (.mapErrI fu' f, some (.ok (.mapErr s f)), l)
    | (fu', r, l) => (.mapErrI fu' f, r, l)
  | .mapInitErrI fu f, w =>
    match ipoll fu w with
    | (fu', some (.err e), l) => (.mapInitErrI fu' f, some (.err (mapFn f e)), l ++ [.initErrMapped f e])
    | (fu', r, l) => (.mapInitErrI fu' f, r, l)
  | .applyFnI fu kind k, w =>
    match ipoll fu w with
    | (fu', some (.ok s), l) => (.applyFnI fu' kind k, some (.ok (.applyFn s kind k)), l)
    | (fu', r, l) => (.applyFnI fu' kind k, r, l)
  | .boxedI fu, w =>
    match ipoll fu w with
    | (fu', some (.ok s), l) => (.boxedI fu', some (.ok (.wrap .boxed s)), l)
    | (fu', r, l) => (.boxedI fu', r, l)
  | .andThenI fa fb none none, w =>
    match ipoll fa w with
    | (fa', some (.err e), la) => (.andThenI fa' fb none none, some (.err e), la)
    | (fa', ra, la) =>
      match ipoll fb w with
      | (fb', some (.err e), lb) => (.andThenI fa' fb' (svcOf ra) none, some (.err e), la ++ lb)
      | (fb', rb, lb) => joinDone fa' fb' (svcOf ra) (svcOf rb) (la ++ lb)
  | .andThenI fa fb (some sa) none, w =>
    match ipoll fb w with
    | (fb', some (.err e), lb) => (.andThenI fa fb' (some sa) none, some (.err e), lb)
    | (fb', rb, lb) => joinDone fa fb' (some sa) (svcOf rb) lb
  | .andThenI fa fb none (some sb), w =>
    match ipoll fa w with
    | (fa', some (.err e), la) => (.andThenI fa' fb none (some sb), some (.err e), la)
    | (fa', ra, la) => joinDone fa' fb (svcOf ra) (some sb) la
  | .andThenI fa fb (some sa) (some sb), _ => joinDone fa fb (some sa) (some sb) []
  | .transA fu t tp tok mie, w =>
    match ipoll fu w with
    | (fu', none, l) => (.transA fu' t tp tok mie, none, l)
    | (fu', some (.err e), l) => (.transA fu' t tp tok mie, some (.err e), l)
    | (_, some (.ok s), l) =>
      match pollTrans t tp (transRes s t tok) mie w with
      | (fb, r, l2) => (.transB fb, r, l ++ .newTransform t :: l2)
  | .transB fu, w => match ipoll fu w with | (fu', r, l) => (.transB fu', r, l)
  | .cfgA fu f ip iok cfg, w =>
    match ipoll fu w with
    | (fu', none, l) => (.cfgA fu' f ip iok cfg, none, l)
    | (fu', some (.err e), l) => (.cfgA fu' f ip iok cfg, some (.err e), l)
    | (_, some (.ok s), l) =>
      match cfgBStep s f ip iok cfg w with
      | (st, r, l2) => (st, r, l ++ l2)
  | .cfgB svc f ip iok cfg, w => cfgBStep svc f ip iok cfg w
  | .cfgC fu, w => match ipoll fu w with | (fu', r, l) => (.cfgC fu', r, l)

def idrive : Nat → IFut → Nat → Option IRes × List Evt × Nat
  | 0, _, w => (none, [], w)
  | n+1, fu, w =>
    match ipoll fu w with
    | (_, some r, l) => (some r, l, w)
    | (fu', none, l) =>
      match idrive n fu' (w+1) with
      | (r, l2, w') => (r, l ++ l2, w')

end ActixNet.Service
