//! Engine `rt` (C09, C10): the real `actix_rt::{System, Arbiter}` on real OS threads.
//!
//! A case is a scenario built line by line (`arb …`, `stop …`, `spawn …`), executed by `go`.  Real
//! threads cannot be stepped, so the tie to the Lean model is *membership*: `go …` is rewritten in
//! the output to `observe … || <canonical observed log>` and the Lean driver answers with the same
//! normalised verdict iff the observed log is a behaviour of the model (it builds a witness schedule
//! and runs the model on it).  `observe … || …` is accepted as input too (the log part is ignored and
//! the scenario is run again), so replays and shrunk cases are ordinary op files.
//!
//! Every scenario runs its own `System` on a fresh thread; every blocking wait has a watchdog so a
//! hang is an observation (`hang`), never a hung check.
//!
//! Scenario dimensions beyond the obvious ones (they come from the property statements, which
//! quantify over *every* arbiter, *every* queue and *whatever* the process has done before):
//! * C09 `align K`: the process-wide counters are shifted beforehand (throw-away Systems / arbiters)
//!   so that arbiter K's process-wide number equals its system's id — the only way two ids in play
//!   can coincide; kind `done` = an arbiter stopped *and joined* before anything else happens.
//! * C10 `sysarb`: the system arbiter (`System::arbiter()`) as a command target; `gate` tasks hold
//!   an arbiter's thread so that a backlog builds up behind them and is found in one go; `spawnn`
//!   sends hundreds of commands (tokio's co-operative budget splits such a batch); `host N kept|dropped`:
//!   the OS thread has hosted N Systems before (thread-locals must be overwritten, not kept).
//! * C09 `batch <origin> <items…>`: a straight-line piece of client code — `s<code>` =
//!   `stop_with_code`, `n<kind>` = `Arbiter::new` — run back to back with no await in between: on the
//!   system thread before `run` (`sys-pre`: the whole message sequence is queued before the controller
//!   is polled for the first time), inside one poll of a task on the system thread (`sys-task`), or
//!   inside a task on an arbiter's thread (`arb:k`, so `Arbiter::new` is called from an arbiter).
//!   Arbiters created *between* two stops are covered by the later stop.
//! * C10 vias `t<g>` / `c<g>`: the command is sent by gate task `g` *while it holds its arbiter's
//!   thread* — through a captured `ArbiterHandle` (`t`) or through `Arbiter::current()` (`c`, the
//!   task's own arbiter only).  A task running ON the target arbiter sends to its own arbiter while
//!   commands of other threads (or a stop) sit undrained in the channel.
//! * C10 `late <a> dir|sys`: once target `a`'s loop has ended (its channel refuses commands, seen through a
//!   handle) a future, a function and a stop are sent through the OWNER `Arbiter` object — from the
//!   director's thread (no System there) or from a task on the system thread (a live System whose own
//!   arbiter is running): all three report false and nothing starts anywhere.
//! * C10 `runner plain|block` + `dropsys`: the System's runner is never `run`: it is kept idle (`plain`: the
//!   controller is never polled, as with `let _ = System::new();`) or driven by `block_on` (`block`: the
//!   controller sees the arbiters' registrations) and DROPPED, without any `System::stop()`, where `dropsys`
//!   stands in the command sequence (at the end otherwise).  Arbiters are independent of their System's
//!   lifetime: nobody stopped them, so they go on accepting and running commands until they are stopped.
//! * `case <name> c09|c10 rt=custom`: `System::with_tokio_rt` / `Arbiter::with_tokio_rt` with a
//!   caller-built runtime instead of `System::new` / `Arbiter::new`.
use std::{
    collections::HashMap,
    future::Future,
    io::Write,
    pin::Pin,
    sync::{
        atomic::{AtomicBool, AtomicUsize, Ordering},
        mpsc, Arc, Mutex, RwLock,
    },
    task::{Context, Poll},
    thread,
    time::{Duration, Instant},
};

use actix_rt::{Arbiter, ArbiterHandle, System};
use vh::*;

const WATCHDOG: Duration = Duration::from_secs(5);

/// System ids and arbiter numbers are process-wide counters.  Whoever creates Systems / arbiters
/// holds this lock shared; a scenario that *aligns* the counters holds it exclusively while it
/// measures, shifts and creates.
static ID_LOCK: RwLock<()> = RwLock::new(());
/// how long a scenario waits for `ID_LOCK` before it gives up (reported as `setup=blocked`, which is
/// not an oracle failure: it only happens behind a scenario that hangs while creating arbiters)
const LOCK_WAIT: Duration = Duration::from_secs(90);

// -------------------------------------------------------------------------------------------------
// scenario description (shared grammar with lean/Driver/Rt.lean — keep the validity rules identical)
// -------------------------------------------------------------------------------------------------

#[derive(Clone, Copy, PartialEq, Debug)]
enum Kind {
    Early,
    Dropped,
    Running,
    Busy,
    /// stopped and joined right after creation: has "already stopped" in the strongest sense
    Done,
    /// busy with a task that never completes and owns what a `spawn_blocking` helper on the same runtime
    /// waits for (the sending half of a channel): the helper ends only when the task is dropped
    Feeding,
    /// its thread is inside a task when the system is stopped (held until `run` has returned) and several
    /// hundred commands are queued behind that task: every one of them was accepted (`spawn` on a live
    /// arbiter returns true whatever the backlog), and the system's `Stop` queues up behind them
    Backlog(usize),
}

#[derive(Clone, PartialEq, Debug)]
enum Origin {
    SysPre,
    SysTask,
    Foreign,
    Arb(usize),
    /// a task on an arbiter of ANOTHER System (a bystander alive on its own thread): its system arbiter
    /// (`osys`) or a worker arbiter of it (`oarb`), holding a `System` handle of this one
    Other(bool),
}

/// one step of a piece of straight-line client code
#[derive(Clone, Copy, PartialEq, Debug)]
enum Action {
    Stop(i32),
    New(Kind),
    /// `x`: stop the SYSTEM ARBITER (`System::current().arbiter().stop()`, or `Arbiter::current().stop()` on the
    /// system thread).  Its loop ends; the system, its controller and every other arbiter go on, and a
    /// later `stop_with_code` works as ever.
    StopSysArb,
}

/// `stop …` (one `Stop` action) or `batch …`: actions issued back to back from one origin
#[derive(Clone, Debug)]
struct Entry {
    origin: Origin,
    actions: Vec<Action>,
    /// issued only after every earlier entry has been acknowledged
    seq: bool,
}

impl Entry {
    fn first_stop(&self) -> Option<(usize, i32)> {
        self.actions.iter().enumerate().find_map(|(i, a)| match a {
            Action::Stop(c) => Some((i, *c)),
            _ => None,
        })
    }
    fn news(&self) -> usize {
        self.actions.iter().filter(|a| matches!(a, Action::New(_))).count()
    }
}

#[derive(Clone, Copy, PartialEq, Debug)]
enum Via {
    Own,
    H1,
    H2,
    /// sent by gate task `g` while it holds its thread; `true`: through `Arbiter::current()`
    Task(usize, bool),
}

#[derive(Clone, Copy, PartialEq, Debug)]
enum TaskKind {
    Fn,
    Fut,
    Pend,
    Yield,
    Sleep,
    Panic,
    FnPanic,
    Block,
    /// a function that holds the arbiter's thread until the director `open`s it (3 s at most)
    Gate,
    /// a function that has the OWNER `Arbiter` of the very arbiter it is sent to moved into it and calls
    /// `join()` on it there: that call cannot return while the loop that runs it is alive
    SelfJoin,
    /// a future that starts a `spawn_blocking` job which runs until the director releases it: the arbiter's
    /// runtime cannot finish being dropped — the thread cannot exit — while the job runs, so the time between
    /// "the loop has ended" and "the thread has exited" becomes long enough to be looked at
    Blocking,
    /// `pend`, and the future owns what a `spawn_blocking` helper on the arbiter's runtime waits for (see
    /// `feeding_future`): the thread can only finish once the future has been dropped
    PendOwn,
    /// a future that — running on an arbiter of THIS system — stops ANOTHER System (alive on its own thread,
    /// with a worker arbiter of its own) through a `System` handle taken there earlier: that system's `run`
    /// returns the code and its arbiters stop; the arbiter the caller runs on, and its system, are not touched
    StopOther,
}

#[derive(Clone, Debug)]
enum Cmd10 {
    /// `burst`: not the first command of a `spawnn` (no pause in front of it)
    Spawn { arb: usize, via: Via, kind: TaskKind, task: usize, burst: bool },
    Stop { arb: usize, via: Via },
    Wait { task: usize },
    Open { task: usize },
    /// the System's runner is dropped now (`runner plain|block` scenarios)
    DropSys,
}

#[derive(Default)]
struct Scenario {
    proto: u8, // 9, 10, 0 = none
    done: bool,
    /// `rt=custom` on the case line: `System::with_tokio_rt` / `Arbiter::with_tokio_rt`
    /// 0 = default runtimes, 1 = `rt=custom` (caller-built current-thread runtime), 2 = `rt=multi` (caller-built
    /// MULTI-THREAD runtime: the arbiter's loop and the commands still run on the arbiter's own thread)
    custom_rt: u8,
    /// `rt=slow`: `rt=custom`, and the runtime factory of the last arbiter created in front of the stops
    /// (and of the first one a batch creates) takes its time
    slow_rt: bool,
    kinds: Vec<Kind>,
    entries: Vec<Entry>,
    /// c09: a `batch` line exists
    has_batch: bool,
    /// c09: `sysfeed`: the SYSTEM ARBITER hosts a feeding task (see `Kind::Feeding`)
    sysfeed: bool,
    /// c09: `retire i j …`: once all arbiters exist, these are stopped and joined, in this order
    retire: Vec<usize>,
    /// c09: `sysload N`: the system thread has N local tasks that are runnable all the time
    sysload: Option<usize>,
    /// c09: arbiter whose process-wide number is made equal to the system's id
    align: Option<usize>,
    /// c10: number of command targets (arbiters incl. the system arbiter)
    narb: usize,
    /// c10: index of the target that is the system arbiter
    sys_idx: Option<usize>,
    /// c10: the OS thread hosted this many Systems before (kept alive / dropped)
    host: Option<(usize, bool)>,
    cmds: Vec<Cmd10>,
    nlines: usize,
    ntask: usize,
    task_arb: Vec<usize>,
    /// c10: per task: None = not a gate, Some(opened)
    task_gate: Vec<Option<bool>>,
    /// c10: a `wait` line for this task exists (it has started when the director gets past that line)
    task_waited: Vec<bool>,
    /// c10: `late` lines: (target, from a task on the system thread?, first of its two task numbers)
    lates: Vec<(usize, bool, usize)>,
    /// c10: targets whose owner object goes into a `selfjoin` task (target, task)
    selfjoined: Vec<(usize, usize)>,
    /// c10: `Arbiter::new` targets that get a `blocking` task (ascending)
    blocked: Vec<usize>,
    /// c10: `runner plain` (0) / `runner block` (1) / `runner stopped` (2): the runner is not run but dropped
    runner_mode: Option<u8>,
    /// c10: a `dropsys` line exists
    dropsys: bool,
    /// c10: the `stopother` task (one per case)
    stopother: Option<usize>,
    stopped: Vec<bool>, // c10: a stop command exists for this arbiter
}

const MAX_LINES: usize = 24;
const MAX_TASKS: usize = 2400;

fn parse_i32(s: &str) -> Option<i32> {
    // same grammar as the Lean driver: optional '-', then 1..10 digits, value in the range of `i32`
    // (exit codes are `i32`: the whole range is the property's domain, not just small numbers)
    let (neg, d) = match s.strip_prefix('-') {
        Some(r) => (true, r),
        None => (false, s),
    };
    if d.is_empty() || d.len() > 10 || !d.bytes().all(|b| b.is_ascii_digit()) {
        return None;
    }
    let v: i64 = d.parse().ok()?;
    i32::try_from(if neg { -v } else { v }).ok()
}

fn parse_nat(s: &str) -> Option<usize> {
    if s.is_empty() || s.len() > 6 || !s.bytes().all(|b| b.is_ascii_digit()) {
        return None;
    }
    s.parse().ok()
}

fn parse_prefixed(s: &str, p: &str) -> Option<usize> {
    parse_nat(s.strip_prefix(p)?)
}

// -------------------------------------------------------------------------------------------------
// helpers
// -------------------------------------------------------------------------------------------------

struct Guard(Arc<AtomicBool>);
impl Drop for Guard {
    fn drop(&mut self) {
        self.0.store(true, Ordering::SeqCst);
    }
}

fn jitter(rng: &mut Rng) {
    match rng.below(8) {
        0 | 1 => {}
        2 | 3 => thread::yield_now(),
        4 | 5 => thread::sleep(Duration::from_micros(20 + rng.below(300) as u64)),
        6 => thread::sleep(Duration::from_micros(300 + rng.below(1200) as u64)),
        _ => thread::sleep(Duration::from_micros(1000 + rng.below(3000) as u64)),
    }
}

fn wait_flag(f: &AtomicBool, d: Duration) -> bool {
    let t0 = Instant::now();
    while !f.load(Ordering::SeqCst) {
        if t0.elapsed() > d {
            return false;
        }
        thread::sleep(Duration::from_micros(200));
    }
    true
}

/// join with a watchdog: "ok" | "panicked" | "hang"
fn join_watchdog(arb: Arbiter, d: Duration) -> &'static str {
    let (tx, rx) = mpsc::channel();
    thread::spawn(move || {
        let r = arb.join();
        let _ = tx.send(r.is_ok());
    });
    match rx.recv_timeout(d) {
        Ok(true) => "ok",
        Ok(false) => "panicked",
        Err(_) => "hang",
    }
}

fn arb_number_of(name: &str) -> Option<usize> {
    name.rsplit("arbiter:").next()?.parse().ok()
}

/// process-wide number of a live arbiter (read from its thread's name)
fn arb_number(a: &Arbiter) -> Option<usize> {
    let (tx, rx) = mpsc::channel();
    a.spawn_fn(move || {
        let _ = tx.send(thread::current().name().map(|s| s.to_string()));
    });
    arb_number_of(&rx.recv_timeout(WATCHDOG).ok()??)
}

/// Shift the process-wide counters (caller holds `ID_LOCK` exclusively) so that, if the caller now
/// creates a System and then arbiters, the (k+1)-th of them gets a number equal to the System's id.
/// Done the way a program would get there: Systems and arbiters created — and gone — earlier on.
fn align_counters(k: usize) -> bool {
    let r0 = System::new();
    let s0 = System::current().id();
    let a = Arbiter::new();
    let n0 = arb_number(&a);
    a.stop();
    let _ = join_watchdog(a, WATCHDOG);
    let Some(n0) = n0 else { return false };
    let (next_sys, next_arb) = (s0 + 1, n0 + 1);
    let target = next_arb + k;
    if next_sys.abs_diff(target) > 20_000 {
        return false;
    }
    if next_sys <= target {
        // Systems that never ran
        for _ in next_sys..target {
            drop(System::new());
        }
    } else {
        // arbiters that came and went (under the throw-away System, which is still current)
        for _ in 0..(next_sys - target) {
            let a = Arbiter::new();
            a.stop();
            let _ = join_watchdog(a, WATCHDOG);
        }
    }
    drop(r0);
    true
}

struct YieldN(usize);
impl Future for YieldN {
    type Output = ();
    fn poll(mut self: Pin<&mut Self>, cx: &mut Context<'_>) -> Poll<()> {
        if self.0 == 0 {
            Poll::Ready(())
        } else {
            self.0 -= 1;
            cx.waker().wake_by_ref();
            Poll::Pending
        }
    }
}

// -------------------------------------------------------------------------------------------------
// C09
// -------------------------------------------------------------------------------------------------

struct ArbSlot {
    arb: Option<Arbiter>,
    handle: ArbiterHandle,
    ended: Arc<AtomicBool>,
    /// `done` arbiters: result of the join made right after creation
    joined: Option<&'static str>,
    /// thread name seen by the guard task (None: the guard never started)
    name: Arc<Mutex<Option<String>>>,
    /// `backlog`: releases the task that holds the thread / how many of the queued commands were refused
    release: Option<mpsc::Sender<()>>,
    refused: usize,
}

struct Out {
    log: String,
    verdict: String,
    t3: Vec<(String, String)>,
}

/// the runtime a caller of `with_tokio_rt` would build
fn custom_tokio_rt() -> tokio::runtime::Runtime {
    tokio::runtime::Builder::new_current_thread().enable_all().build().unwrap()
}

/// how long the slow runtime factory of `rt=slow` takes on the new arbiter's thread, in front of the
/// registration: `Arbiter::with_tokio_rt` must not return before the arbiter is registered however long
const SLOW_FACTORY: Duration = Duration::from_millis(350);
/// the code a `stopother` task / an `osys` / `oarb` entry's bystander system is stopped with
const OTHER_CODE: i32 = 77;
/// commands queued behind the held task of a `backlog` arbiter when no number is given (`backlog:N`)
const BACKLOG: usize = 1100;

/// the multi-thread runtime a caller of `with_tokio_rt` may just as well hand over
fn multi_tokio_rt() -> tokio::runtime::Runtime {
    tokio::runtime::Builder::new_multi_thread().worker_threads(2).enable_all().build().unwrap()
}

fn new_arbiter(custom: u8, slow: bool) -> Arbiter {
    if slow {
        Arbiter::with_tokio_rt(|| {
            thread::sleep(SLOW_FACTORY);
            custom_tokio_rt()
        })
    } else if custom == 2 {
        Arbiter::with_tokio_rt(multi_tokio_rt)
    } else if custom == 1 {
        Arbiter::with_tokio_rt(custom_tokio_rt)
    } else {
        Arbiter::new()
    }
}

fn new_system_runner(custom: u8) -> actix_rt::SystemRunner {
    if custom == 2 {
        System::with_tokio_rt(multi_tokio_rt)
    } else if custom == 1 {
        System::with_tokio_rt(custom_tokio_rt)
    } else {
        System::new()
    }
}

/// A local task that never completes and holds the sending half of a channel, and a `spawn_blocking`
/// helper (on the same runtime's blocking pool) that drains the receiving half until the sender is dropped.
/// When the runtime is torn down the task — dropped with the LocalSet — must go first: the runtime's own drop
/// waits for running blocking closures.  (The helper gives up after 12 s so that a thread stuck in a defective
/// teardown does not stay for good; the watchdogs are much shorter.)
fn feeding_future(helper_started: Arc<AtomicBool>, on_start: impl FnOnce() + Send + 'static) -> impl Future<Output = ()> + Send + 'static {
    async move {
        on_start();
        let (work_tx, work_rx) = mpsc::channel::<u32>();
        tokio::task::spawn_blocking(move || {
            helper_started.store(true, Ordering::SeqCst);
            let t0 = Instant::now();
            while t0.elapsed() < Duration::from_secs(12) {
                match work_rx.recv_timeout(Duration::from_secs(12)) {
                    Ok(_) => {}
                    Err(_) => break,
                }
            }
        });
        let _ = work_tx.send(1);
        std::future::pending::<()>().await;
        drop(work_tx);
    }
}

/// `Arbiter::new()` (on the calling thread, which must belong to a System) plus the per-kind set-up;
/// `after_new` runs in the very next statement after `Arbiter::new()` returned.
/// Returns the slot and, for `early` / `done`, what `stop()` returned.
fn make_slot(k: Kind, rng: &mut Rng, custom: u8, slow: bool, after_new: &mut dyn FnMut()) -> (ArbSlot, Option<bool>) {
    let arb = new_arbiter(custom, slow);
    after_new();
    let handle = arb.handle();
    let ended = Arc::new(AtomicBool::new(false));
    let g = Guard(ended.clone());
    let name = Arc::new(Mutex::new(None));
    let name2 = name.clone();
    handle.spawn(async move {
        let _g = g;
        *name2.lock().unwrap() = thread::current().name().map(|s| s.to_string());
        std::future::pending::<()>().await
    });
    let mut joined = None;
    let mut early = None;
    let mut release = None;
    let mut refused = 0;
    let arb = match k {
        Kind::Backlog(nq) => {
            let (tx, rx) = mpsc::channel::<()>();
            let st = Arc::new(AtomicBool::new(false));
            let st2 = st.clone();
            handle.spawn_fn(move || {
                st2.store(true, Ordering::SeqCst);
                let _ = rx.recv_timeout(Duration::from_secs(8));
            });
            wait_flag(&st, Duration::from_secs(2));
            // owner and handle alternate; more than any "reasonable" queue bound
            for i in 0..nq {
                let ok = if i % 2 == 0 { arb.spawn_fn(|| {}) } else { handle.spawn(async {}) };
                refused += !ok as usize;
            }
            release = Some(tx);
            Some(arb)
        }
        Kind::Early => {
            jitter(rng);
            early = Some(arb.stop());
            Some(arb)
        }
        Kind::Done => {
            jitter(rng);
            early = Some(arb.stop());
            joined = Some(join_watchdog(arb, WATCHDOG));
            None
        }
        Kind::Dropped => {
            drop(arb);
            None
        }
        Kind::Running => Some(arb),
        Kind::Feeding => {
            let st = Arc::new(AtomicBool::new(false));
            handle.spawn(feeding_future(st.clone(), || {}));
            // the helper is running (the arbiter may have been stopped meanwhile: do not insist)
            wait_flag(&st, Duration::from_secs(2));
            Some(arb)
        }
        Kind::Busy => {
            let rounds = 3 + rng.below(6);
            let us = 100 + rng.below(1500) as u64;
            let timer = rng.chance(1, 3);
            handle.spawn(async move {
                for _ in 0..rounds {
                    thread::sleep(Duration::from_micros(us));
                    if timer {
                        actix_rt::time::sleep(Duration::from_millis(2)).await;
                    } else {
                        YieldN(1).await;
                    }
                }
            });
            Some(arb)
        }
    };
    (ArbSlot { arb, handle, ended, joined, name, release, refused }, early)
}

/// `System::stop()` is `stop_with_code(0)`: both spellings are used
fn issue_stop(sys: &System, code: i32, plain: bool) {
    if code == 0 && plain {
        sys.stop()
    } else {
        sys.stop_with_code(code)
    }
}

/// arbiters created by `n<kind>` actions, in the order created: (slot, what an `early` stop returned)
type Late = Arc<Mutex<Vec<(ArbSlot, Option<bool>)>>>;

/// the actions of one entry, back to back, on the calling thread (`sys`: None = `System::current()`)
fn perform(actions: &[Action], sys: Option<&System>, rng: &mut Rng, custom: (u8, bool), plain: bool, late: &Late, on_sys_thread: bool) {
    // `custom.1` (`rt=slow`): the first arbiter created here has a slow runtime factory
    let (custom, mut slow) = custom;
    for a in actions {
        match a {
            Action::StopSysArb => {
                match sys {
                    Some(s) => s.arbiter().stop(),
                    // on the system thread `Arbiter::current()` is the system arbiter
                    None if on_sys_thread && plain => Arbiter::current().stop(),
                    None => System::current().arbiter().stop(),
                };
            }
            Action::Stop(c) => match sys {
                Some(s) => issue_stop(s, *c, plain),
                None => issue_stop(&System::current(), *c, plain),
            },
            Action::New(k) => {
                let x = make_slot(*k, rng, custom, slow, &mut || {});
                slow = false;
                late.lock().unwrap().push(x);
            }
        }
    }
}

/// entry `b` happens-before entry `j`: some entry in `(b, j]` was issued only after all earlier acks
fn entry_hb(entries: &[Entry], b: usize, j: usize) -> bool {
    b < j && (b + 1..=j).any(|k| entries[k].seq)
}

/// join every arbiter that still has its owner object (watchdog; shorter once one has hung), wait for the
/// loop-ended guards, try a send: (joins, ended, post, hung)
fn join_all_c09(slots: &mut [ArbSlot]) -> (Vec<&'static str>, Vec<bool>, Vec<bool>, bool) {
    // the held threads are let go: what was queued behind them is found in one go, the system's `Stop` last
    for s in slots.iter_mut() {
        s.release.take();
    }
    let mut joins = vec![];
    let mut hung = false;
    for s in slots.iter_mut() {
        match s.arb.take() {
            None => match s.joined {
                Some(r) => joins.push(r),
                None => joins.push("-"),
            },
            Some(a) => {
                let r = join_watchdog(a, if hung { Duration::from_millis(500) } else { WATCHDOG });
                hung |= r == "hang";
                joins.push(r);
            }
        }
    }
    let mut ended = vec![];
    for s in slots.iter() {
        ended.push(wait_flag(&s.ended, if hung { Duration::from_millis(500) } else { WATCHDOG }));
    }
    let post: Vec<bool> = slots.iter().map(|s| s.handle.spawn_fn(|| {})).collect();
    (joins, ended, post, hung)
}

/// `block`: the system is driven by `SystemRunner::block_on` (what `#[actix_rt::main]` / `#[actix_rt::test]`
/// do) with a future that ends when the harness releases it — the arbiters are joined while it is still
/// running — and `run_with_code` is called on the same runner afterwards.
fn exec_c09(sc: &Scenario, mode_run: bool, block: bool, jseed: u64) -> Out {
    let n = sc.kinds.len();
    let kinds = sc.kinds.clone();
    let entries = sc.entries.clone();
    let ne = entries.len();
    let custom = sc.custom_rt;
    let slow = sc.slow_rt;
    let sysfeed = sc.sysfeed;
    let retire = sc.retire.clone();
    let sysload = sc.sysload;
    let plain = (jseed >> 3) & 1 == 0;
    let mut rng = Rng::new(jseed);
    let late: Late = Arc::new(Mutex::new(vec![]));
    let nlate: usize = entries.iter().map(|e| e.news()).sum();

    // gates / acks, one per entry.  The ack sender is owned by the issuer alone: an issuer that can never
    // run (its task was dropped with its runtime) disconnects the channel instead of making us wait.
    let mut gate_tx = vec![];
    let mut gate_rx = vec![];
    let mut ack_rx = vec![];
    let mut ack_tx = vec![];
    for _ in &entries {
        let (g, r) = tokio::sync::oneshot::channel::<()>();
        gate_tx.push(Some(g));
        gate_rx.push(Some(r));
        let (a, b) = mpsc::channel::<()>();
        ack_tx.push(Some(a));
        ack_rx.push(b);
    }

    let (setup_tx, setup_rx) = mpsc::channel();
    let (locked_tx, locked_rx) = mpsc::channel::<()>();
    let (res_tx, res_rx) = mpsc::channel::<Result<i32, String>>();
    let (release_tx, release_rx) = mpsc::channel::<()>();
    // `block`: ends the future `block_on` runs / what `block_on` returned
    let (unblock_tx, unblock_rx) = tokio::sync::oneshot::channel::<()>();
    let (blockret_tx, blockret_rx) = mpsc::channel::<i32>();
    // `block` flavours: the arbiters are created (and the entries of the system thread issued) inside the
    // future, not in front of `block_on`; the `sys-task` entries are issued by the future itself, not by tasks
    let inside = block && (jseed >> 5) & 1 == 1;
    let inline_tasks = block && (jseed >> 4) & 1 == 0;

    // issuers that live on the system thread
    let mut sys_issuers = vec![];
    for (i, e) in entries.iter().enumerate() {
        if matches!(e.origin, Origin::SysPre | Origin::SysTask) {
            sys_issuers.push((i, e.clone(), gate_rx[i].take().unwrap(), ack_tx[i].take().unwrap()));
        }
    }
    let mut rng_sys = Rng::new(jseed ^ 0x5151);
    let kinds2 = kinds.clone();
    let align = sc.align;
    let late_sys = late.clone();
    thread::spawn(move || {
        // creation phase under the id lock (exclusive when the counters are being aligned)
        let excl = align.map(|_| ID_LOCK.write().unwrap_or_else(|e| e.into_inner()));
        let shared = if excl.is_none() { Some(ID_LOCK.read().unwrap_or_else(|e| e.into_inner())) } else { None };
        let shifted = align.map(align_counters).unwrap_or(false);
        let _ = locked_tx.send(());
        let runner = new_system_runner(custom);
        let sys = System::current();
        if let Some(nq) = sysload {
            // local tasks on the system thread that are ready whenever the event loop looks: what the controller
            // does when it handles a command has to be done there and then, not queued up behind them
            let spin = || async {
                loop {
                    YieldN(1).await;
                }
            };
            if plain {
                for _ in 0..nq {
                    sys.arbiter().spawn(spin());
                }
            } else {
                runner.block_on(async {
                    for _ in 0..nq {
                        actix_rt::spawn(spin());
                    }
                });
            }
        }
        if sysfeed {
            // started (with its helper) by the first turns of the system's event loop
            sys.arbiter().spawn(feeding_future(Arc::new(AtomicBool::new(false)), || {}));
        }
        // "immediate" flavour: the first stop, when it comes from the system thread before `run`,
        // is issued in the very next statement after the last `Arbiter::new()` returned — the
        // tightest race between that arbiter's `Register` and the `Exit`
        let imm_code = match sys_issuers.first() {
            Some((0, e, _, _)) if jseed % 3 == 0 && !inside && retire.is_empty() && e.origin == Origin::SysPre && e.actions.len() == 1 => match e.actions[0] {
                Action::Stop(c) => Some(c),
                _ => None,
            },
            _ => None,
        };
        let mut rng_c = Rng::new(jseed ^ 0x5152);
        let mut create = move || {
            let mut slots = vec![];
            let mut early = vec![];
            let mut immediate_done = false;
            let nk = kinds2.len();
            for (ki, k) in kinds2.iter().enumerate() {
                jitter(&mut rng_c);
                // `rt=slow`: the last arbiter created in front of the stops has a slow runtime factory
                let (slot, e) = make_slot(*k, &mut rng_c, custom, slow && ki + 1 == nk, &mut || {
                    if let (Some(c), true) = (imm_code, ki + 1 == nk) {
                        System::current().stop_with_code(c);
                        immediate_done = true;
                    }
                });
                if let Some(e) = e {
                    early.push(e);
                }
                slots.push(slot);
            }
            // `retire`: now that all of them exist (and are registered), some stop and are joined — their
            // `Deregister`s reach the controller in this order, in front of every `Exit`
            for k in &retire {
                jitter(&mut rng_c);
                let sl: &mut ArbSlot = &mut slots[*k];
                if let Some(a) = sl.arb.take() {
                    early.push(a.stop());
                    sl.joined = Some(join_watchdog(a, WATCHDOG));
                }
            }
            (slots, early, immediate_done)
        };
        // the tasks that will issue the `sys-task` entries are handed to the system arbiter first — before any
        // entry (one of which may stop the system arbiter) can run
        let mut pre_issuers = vec![];
        let mut inline = vec![];
        for (i, e, gate, ack) in sys_issuers {
            if e.origin == Origin::SysTask && !inline_tasks {
                let late = late_sys.clone();
                let mut r = Rng::new(jseed ^ (0x99 + i as u64));
                sys.arbiter().spawn(async move {
                    let _ = gate.await;
                    // one poll: no await between the actions
                    perform(&e.actions, None, &mut r, (custom, slow), plain, &late, true);
                    let _ = ack.send(());
                });
            } else if e.origin == Origin::SysTask || inside {
                inline.push((i, e, gate, ack));
            } else {
                pre_issuers.push((i, e, gate, ack));
            }
        }
        let mut guards = Some((shared, excl));
        let mut immediate_done = false;
        if !inside {
            let (slots, early, imm) = create();
            immediate_done = imm;
            // a scenario that creates arbiters later on keeps the id lock (shared) until it is over
            if nlate == 0 {
                guards = None;
            } else if let Some(g) = guards.as_mut() {
                g.1 = None;
            }
            let _ = setup_tx.send((sys.clone(), slots, early, shifted));
        }
        for (i, e, gate, ack) in pre_issuers {
            if i == 0 && immediate_done {
                let _ = ack.send(());
                continue;
            }
            // blocks the system thread until the director opens the gate
            if gate.blocking_recv().is_err() {
                let _ = res_tx.send(Err("gate-dropped".into()));
                return;
            }
            jitter(&mut rng_sys);
            perform(&e.actions, None, &mut rng_sys, (custom, slow), plain, &late_sys, true);
            let _ = ack.send(());
        }
        let r = if block {
            let sys2 = sys.clone();
            let late = late_sys.clone();
            let v = runner.block_on(async move {
                if inside {
                    let (slots, early, _) = create();
                    drop(guards.take());
                    let _ = setup_tx.send((sys2, slots, early, shifted));
                }
                // the entries the system thread issues from inside the future, in the order of their gates
                for (i, e, gate, ack) in inline {
                    let _ = gate.await;
                    let mut r = Rng::new(jseed ^ (0x99 + i as u64));
                    perform(&e.actions, None, &mut r, (custom, slow), plain, &late, true);
                    let _ = ack.send(());
                }
                let _ = unblock_rx.await;
                4242
            });
            let _ = blockret_tx.send(v);
            runner.run_with_code().map_err(|e| format!("io:{e}"))
        } else if mode_run {
            runner.run().map(|_| 0).map_err(|e| e.to_string())
        } else {
            runner.run_with_code().map_err(|e| format!("io:{e}"))
        };
        let _ = res_tx.send(r);
        if nlate > 0 {
            let _ = release_rx.recv_timeout(Duration::from_secs(60));
        }
    });

    let mut t3 = vec![];
    // waiting for the id lock (other scenarios' creation phases, counters being shifted) is not part of
    // the scenario: the watchdog runs from the moment the lock is held
    if locked_rx.recv_timeout(LOCK_WAIT).is_err() {
        return Out { log: "setup=blocked".into(), verdict: "setup=blocked".into(), t3: vec![] };
    }
    let (sys, mut slots, early, shifted) = match setup_rx.recv_timeout(4 * WATCHDOG) {
        Ok(x) => x,
        Err(_) => {
            return Out {
                log: "setup=hang".into(),
                verdict: "setup=hang".into(),
                t3: vec![("C09".into(), "System::new / Arbiter::new did not return within the watchdog".into())],
            }
        }
    };

    // the bystander System of `osys` / `oarb` entries
    let mut bystander = None;
    if entries.iter().any(|e| matches!(e.origin, Origin::Other(_))) {
        bystander = side_system();
    }
    // issuers on arbiter threads and foreign threads
    for (i, e) in entries.iter().enumerate() {
        match e.origin {
            Origin::Other(worker) => {
                let gate = gate_rx[i].take().unwrap();
                let ack = ack_tx[i].take().unwrap();
                let sys = sys.clone();
                let late = late.clone();
                let actions = e.actions.clone();
                let mut r = Rng::new(jseed ^ (0x55 + i as u64));
                if let Some((bsys, bworker, _)) = &bystander {
                    let h = if worker { bworker.handle() } else { bsys.arbiter().clone() };
                    // it runs on the other System's arbiter and stops THIS system through the handle
                    h.spawn(async move {
                        let _ = gate.await;
                        perform(&actions, Some(&sys), &mut r, (custom, slow), plain, &late, false);
                        let _ = ack.send(());
                    });
                }
            }
            Origin::Arb(k) => {
                let gate = gate_rx[i].take().unwrap();
                let ack = ack_tx[i].take().unwrap();
                let late = late.clone();
                let actions = e.actions.clone();
                let mut r = Rng::new(jseed ^ (0x99 + i as u64));
                slots[k].handle.spawn(async move {
                    let _ = gate.await;
                    perform(&actions, None, &mut r, (custom, slow), plain, &late, false);
                    let _ = ack.send(());
                });
            }
            Origin::Foreign => {
                let gate = gate_rx[i].take().unwrap();
                let ack = ack_tx[i].take().unwrap();
                let sys = sys.clone();
                let late = late.clone();
                let actions = e.actions.clone();
                let mut r = Rng::new(jseed ^ (0x77 + i as u64));
                thread::spawn(move || {
                    let _ = gate.blocking_recv();
                    jitter(&mut r);
                    perform(&actions, Some(&sys), &mut r, (custom, slow), plain, &late, false);
                    let _ = ack.send(());
                });
            }
            _ => {}
        }
    }
    // open the gates: the first at once; a later one at once (race) or after the acks of all earlier
    // entries (seq).  An entry whose issuer is gone (channel disconnected) counts as answered.
    jitter(&mut rng);
    let mut acked = vec![false; ne];
    let mut asked = vec![false; ne];
    // an acknowledgement that did not arrive in time (not: an issuer that is gone): the sequencing the
    // scenario asks for cannot be relied on, the oracle then only uses what holds without it
    let mut unordered = false;
    for i in 0..ne {
        if i > 0 && entries[i].seq {
            for j in 0..i {
                if !asked[j] {
                    asked[j] = true;
                    let r = ack_rx[j].recv_timeout(WATCHDOG);
                    acked[j] = r.is_ok();
                    unordered |= r == Err(mpsc::RecvTimeoutError::Timeout);
                }
            }
        } else if i > 0 {
            jitter(&mut rng);
        }
        if let Some(g) = gate_tx[i].take() {
            let _ = g.send(());
        }
    }

    // `block`: every entry has been issued (or its issuer is gone) while `block_on` is still running …
    let mut early_joins = None;
    if block {
        for j in 0..ne {
            if !asked[j] {
                asked[j] = true;
                acked[j] = ack_rx[j].recv_timeout(WATCHDOG).is_ok();
            }
        }
        // … the arbiters are joined now, and only then is the future released and `run_with_code` called
        early_joins = Some(join_all_c09(&mut slots));
        let _ = unblock_tx.send(());
        match blockret_rx.recv_timeout(WATCHDOG) {
            Ok(4242) => {}
            Ok(v) => t3.push(("C09".into(), format!("block_on returned {v}, its future's output is 4242"))),
            Err(_) => t3.push(("C09".into(), format!("block_on did not return within {WATCHDOG:?} after its future had become ready"))),
        }
    }
    let res = res_rx.recv_timeout(WATCHDOG);
    let (code_s, res_s): (String, String) = match &res {
        Err(_) => ("hang".into(), "hang".into()),
        Ok(Ok(c)) => (c.to_string(), "ok".into()),
        Ok(Err(e)) => {
            // `run` reports a non-zero code only through the error text
            match e.strip_prefix("Non-zero exit code: ").and_then(|c| c.trim().parse::<i32>().ok()) {
                Some(c) => (c.to_string(), "err".into()),
                None => (format!("error({})", e.replace(' ', "_")), "err".into()),
            }
        }
    };

    // joins / loop-ended guards / post spawns of the arbiters created before any stop
    let (joins, ended, post, mut hung) = match early_joins {
        Some(x) => x,
        None => join_all_c09(&mut slots),
    };

    // ---- arbiters created by `n<kind>` actions ----
    // Did the entry run at all?  (Its ack arrives after its last action; a dropped issuer disconnects.)
    let mut ran = vec![true; ne];
    for (i, e) in entries.iter().enumerate() {
        if e.news() > 0 {
            if !asked[i] {
                asked[i] = true;
                acked[i] = ack_rx[i].recv_timeout(WATCHDOG).is_ok();
            }
            ran[i] = acked[i];
        }
    }
    let late_slots: Vec<(ArbSlot, Option<bool>)> = late.lock().unwrap().drain(..).collect();
    // When `run` has returned, the controller is gone with its runtime: every `Stop` the system will
    // ever send has been sent.  A probe sent now either finds a `Stop` ahead of it (the loop ends, the
    // guard is dropped) or starts — then this arbiter was not stopped by the system (`o`, an orphan:
    // stopped by the harness).  No timing involved.
    let mut letters: Vec<&'static str> = vec![];
    let mut late_t3: Vec<String> = vec![];
    let mut li = 0usize;
    let mut late_iter = late_slots.into_iter();
    // winner: the stop whose code was returned, when codes identify it
    let all_codes: Vec<i32> = entries.iter().flat_map(|e| e.actions.iter().filter_map(|a| if let Action::Stop(c) = a { Some(*c) } else { None })).collect();
    let winner: Option<(usize, usize)> = code_s.parse::<i32>().ok().filter(|c| all_codes.iter().filter(|x| *x == c).count() == 1).and_then(|c| {
        entries.iter().enumerate().find_map(|(j, e)| e.actions.iter().position(|a| *a == Action::Stop(c)).map(|q| (j, q)))
    });
    for (b, e) in entries.iter().enumerate() {
        for (p, a) in e.actions.iter().enumerate() {
            let Action::New(kind) = a else { continue };
            li += 1;
            if !ran[b] {
                letters.push("-");
                continue;
            }
            let Some((mut slot, early_ret)) = late_iter.next() else {
                letters.push("-");
                continue;
            };
            // (created on an arbiter's thread, the system — stopped by a racing entry — may get to it first)
            if early_ret == Some(false) && matches!(e.origin, Origin::SysPre | Origin::SysTask) {
                late_t3.push("stop() on a freshly created arbiter returned false".into());
            }
            slot.release.take();
            if slot.refused > 0 {
                late_t3.push(format!("{} of the spawn / spawn_fn calls on a live arbiter (created by the batch, its thread held by a task) returned false", slot.refused));
            }
            let started = Arc::new(AtomicBool::new(false));
            let st = started.clone();
            let accepted = res.is_ok() && slot.handle.spawn_fn(move || st.store(true, Ordering::SeqCst));
            let t0 = Instant::now();
            let lim = if hung { Duration::from_millis(500) } else { WATCHDOG };
            while accepted && !slot.ended.load(Ordering::SeqCst) && !started.load(Ordering::SeqCst) && t0.elapsed() < lim {
                thread::sleep(Duration::from_micros(200));
            }
            let ended_alone = (!accepted && res.is_ok() && wait_flag(&slot.ended, lim)) || slot.ended.load(Ordering::SeqCst);
            let letter = if ended_alone { "e" } else { "o" };
            letters.push(letter);
            // which later stop had to reach it
            let later_stop = e.actions[p + 1..].iter().find_map(|a| if let Action::Stop(c) = a { Some(*c) } else { None });
            let why: Option<String> = if let (Origin::SysPre, Some(c)) = (&e.origin, later_stop) {
                Some(format!("its Register and the later Exit({c}) of the same straight-line code were both queued before `run` was called"))
            } else if let (Origin::SysTask, Some(c), true) = (&e.origin, later_stop, winner.map(|w| Some(w) == e.first_stop().map(|f| (b, f.0))).unwrap_or(false)) {
                Some(format!("its Register and the later Exit({c}) were queued in the same poll as the Exit that delivered the code"))
            } else if let Some((j, q)) = winner {
                if (j == b && p < q) || (!unordered && entry_hb(&entries, b, j)) {
                    Some("Arbiter::new had returned before the stop that delivered the code was issued".to_string())
                } else {
                    None
                }
            } else {
                None
            };
            if letter == "o" {
                if let (Some(why), true) = (why, res.is_ok()) {
                    late_t3.push(format!("arbiter #{} ({kind:?}, created by the batch from {:?}) was not stopped by the system: {why}", li - 1, e.origin));
                }
                slot.handle.stop();
            }
            if let Some(a) = slot.arb.take() {
                let r = join_watchdog(a, lim);
                if r != "ok" {
                    hung |= r == "hang";
                    late_t3.push(format!("join of arbiter #{} ({kind:?}, created by the batch): {r}", li - 1));
                }
            }
            if !wait_flag(&slot.ended, lim) {
                late_t3.push(format!("event loop of arbiter #{} ({kind:?}, created by the batch) did not end after stop()", li - 1));
            }
        }
    }
    let _ = release_tx.send(());
    // the bystander System is none of this system's business: the arbiters the stops were issued from still
    // run commands, its `run` has not returned; stopped itself, it returns its own code and its worker ends
    if let Some((bsys, bworker, bres)) = bystander {
        for (i, e) in entries.iter().enumerate() {
            let Origin::Other(worker) = e.origin else { continue };
            if !asked[i] {
                asked[i] = true;
                acked[i] = ack_rx[i].recv_timeout(WATCHDOG).is_ok();
            }
            let h = if worker { bworker.handle() } else { bsys.arbiter().clone() };
            let st = Arc::new(AtomicBool::new(false));
            let st2 = st.clone();
            let accepted = h.spawn_fn(move || st2.store(true, Ordering::SeqCst));
            if !accepted || !wait_flag(&st, WATCHDOG) {
                t3.push(("C09".into(), format!(
                    "a task on {} of ANOTHER System stopped this system; afterwards that arbiter — which nobody stopped — {}",
                    if worker { "a worker arbiter" } else { "the system arbiter" },
                    if accepted { "accepted a command that never started" } else { "refused a command" }
                )));
            }
        }
        if let Ok(r) = bres.try_recv() {
            t3.push(("C09".into(), format!("the other System's run_with_code returned {r:?} although only THIS system was stopped")));
        } else {
            bsys.stop_with_code(OTHER_CODE);
            match bres.recv_timeout(WATCHDOG) {
                Ok(Ok(c)) if c == OTHER_CODE => {}
                r => t3.push(("C09".into(), format!("the other System, stopped with code {OTHER_CODE}: run_with_code gave {r:?}"))),
            }
        }
        if join_watchdog(bworker, WATCHDOG) != "ok" {
            t3.push(("C09".into(), "the other System's worker arbiter did not end with its system (join: hang)".into()));
        }
    }

    // ---- T3: the property statement, directly on the observation ----
    // the code returned is that of the first Exit in the queue: the first stop of an entry that no other
    // stop-issuing entry happens-before
    let allowed: Vec<i32> = entries
        .iter()
        .enumerate()
        .filter(|(i, _)| unordered || !(0..*i).any(|j| entries[j].first_stop().is_some() && entry_hb(&entries, j, *i)))
        .filter_map(|(_, e)| e.first_stop().map(|f| f.1))
        .collect();
    let c1 = allowed.first().copied().unwrap_or(0);
    match &res {
        Err(_) => t3.push(("C09".into(), format!("run_with_code did not return within {WATCHDOG:?} after stop_with_code"))),
        Ok(_) => match code_s.parse::<i32>() {
            Ok(c) => {
                if !allowed.contains(&c) && mode_run && res_s == "ok" {
                    t3.push(("C09".into(), format!("run() returned Ok(()), but the first stop issued had the non-zero code {c1} (allowed {allowed:?})")));
                } else if !allowed.contains(&c) {
                    t3.push(("C09".into(), format!("returned code {c}, but the first stop issued had code {c1} (allowed {allowed:?})")));
                }
                if mode_run && (res_s == "ok") != (c == 0) {
                    t3.push(("C09".into(), format!("run() returned {res_s} for exit code {c}")));
                }
            }
            Err(_) => t3.push(("C09".into(), format!("run returned an unexpected error {code_s}"))),
        },
    }
    for (k, j) in joins.iter().enumerate() {
        if *j != "-" && *j != "ok" {
            let how = if block { " (joined while the system was being driven by block_on, after the stop had been issued)" } else { "" };
            t3.push(("C09".into(), format!("join of arbiter {k} ({:?}): {j}{how}", kinds[k])));
        }
    }
    for (k, e) in ended.iter().enumerate() {
        if !e {
            t3.push(("C09".into(), format!("event loop of arbiter {k} ({:?}) did not end after the system stop", kinds[k])));
        }
    }
    if early.iter().any(|b| !b) {
        t3.push(("C09".into(), "stop() on a freshly created arbiter returned false".into()));
    }
    for (k, sl) in slots.iter().enumerate() {
        if sl.refused > 0 {
            t3.push(("C09".into(), format!("arbiter {k} ({:?}): {} of the spawn / spawn_fn calls on the live arbiter (its thread held by a task) returned false", kinds[k], sl.refused)));
        }
    }
    for (b, e) in entries.iter().enumerate() {
        if e.origin == Origin::SysPre && e.news() > 0 && !ran[b] && res.is_ok() {
            t3.push(("C09".into(), "the straight-line code in front of `run` did not complete".into()));
        }
    }
    for m in late_t3 {
        t3.push(("C09".into(), m));
    }

    let b = |x: bool| if x { "1" } else { "0" };
    // was the requested coincidence of ids reached?  (1 / 0 / ? = the arbiter never ran a task)
    let aligned = match sc.align {
        None => "-".to_string(),
        Some(k) => match slots[k].name.lock().unwrap().as_deref().and_then(arb_number_of) {
            Some(nr) => format!("{}", b(shifted && nr == sys.id())),
            None => "?".to_string(),
        },
    };
    let batch_s = if letters.is_empty() { "-".to_string() } else { letters.join(",") };
    let log = format!(
        "code={} res={} joins={} ended={} early={} post={} batch={batch_s} aligned={aligned}",
        code_s,
        if mode_run { res_s.as_str() } else { "-" },
        if joins.is_empty() { "-".to_string() } else { joins.join(",") },
        if ended.is_empty() { "-".to_string() } else { ended.iter().map(|e| b(*e)).collect::<Vec<_>>().join(",") },
        if early.is_empty() { "-".to_string() } else { early.iter().map(|e| b(*e)).collect::<Vec<_>>().join(",") },
        if post.is_empty() { "-".to_string() } else { post.iter().map(|e| b(*e)).collect::<Vec<_>>().join(",") },
    );
    let joinable = joins.iter().filter(|j| **j != "-").count();
    let verdict = format!(
        "code={} res={} joins={}/{} ended={}/{} early={}/{} post={}/{} batch={batch_s}",
        code_s,
        if mode_run { res_s.as_str() } else { "-" },
        joins.iter().filter(|j| **j == "ok").count(),
        joinable,
        ended.iter().filter(|e| **e).count(),
        n,
        early.iter().filter(|e| **e).count(),
        early.len(),
        post.iter().filter(|e| **e).count(),
        n,
    );
    Out { log, verdict, t3 }
}

// -------------------------------------------------------------------------------------------------
// C10
// -------------------------------------------------------------------------------------------------

#[derive(Clone, Debug)]
struct StartRec {
    task: usize,
    seq: usize,
    thread: thread::ThreadId,
    name: String,
    sys_id: Option<usize>,
    has_arb: bool,
    /// probing runs: did `Arbiter::current()` still accept a command when the task started?  (The loop of
    /// the arbiter that runs it had not ended then.)
    loop_alive: Option<bool>,
}

struct TaskLog {
    seq: AtomicUsize,
    recs: Mutex<Vec<StartRec>>,
    counts: Mutex<HashMap<usize, usize>>,
    /// drop flags of the `pend` futures: all of them must have been dropped when `join` returns
    guards: Mutex<Vec<(usize, Arc<AtomicBool>)>>,
    /// the senders that direct the `gate` tasks (open / send a command from inside the task)
    gates: Mutex<HashMap<usize, mpsc::Sender<GateMsg>>>,
    /// handles of all command targets, for commands sent from inside a gate task
    handles: Mutex<Vec<ArbiterHandle>>,
    /// return values of commands sent from inside gate tasks
    gate_ack: Mutex<Option<mpsc::Sender<bool>>>,
    /// owner objects on their way into a `selfjoin` task (by task number)
    selfjoin_owner: Mutex<HashMap<usize, Arbiter>>,
    /// `selfjoin` tasks whose `join()` returned: (task, Ok?, value of the start counter at that moment)
    selfjoin_ret: Mutex<Vec<(usize, bool, usize)>>,
    /// senders that release the `blocking` jobs (dropping them releases too)
    blockers: Mutex<Vec<(usize, mpsc::Sender<()>)>>,
    /// `pendown` tasks: has the blocking helper begun to run?
    helpers: Mutex<Vec<(usize, Arc<AtomicBool>)>>,
    /// `stopother`: the other System
    other_sys: Mutex<Option<System>>,
    /// every task sends a no-op through `Arbiter::current()` when it starts (see `StartRec::loop_alive`)
    probe: bool,
}

/// what the director tells a task that holds its arbiter's thread
enum GateMsg {
    Open,
    /// send a task to target `arb`: through `Arbiter::current()` (`cur`) or a captured handle
    Spawn { arb: usize, cur: bool, kind: TaskKind, task: usize },
    Stop { arb: usize, cur: bool },
}

impl TaskLog {
    fn start(&self, task: usize) {
        let seq = self.seq.fetch_add(1, Ordering::SeqCst);
        let cur = thread::current();
        let rec = StartRec {
            task,
            seq,
            thread: cur.id(),
            name: cur.name().unwrap_or("").to_string(),
            sys_id: System::try_current().map(|s| s.id()),
            has_arb: Arbiter::try_current().is_some(),
            loop_alive: if self.probe { Arbiter::try_current().map(|h| h.spawn_fn(|| {})) } else { None },
        };
        self.recs.lock().unwrap().push(rec);
        *self.counts.lock().unwrap().entry(task).or_insert(0) += 1;
    }
    fn started(&self, task: usize) -> bool {
        self.counts.lock().unwrap().get(&task).copied().unwrap_or(0) > 0
    }
    fn open(&self, task: usize) {
        if let Some(tx) = self.gates.lock().unwrap().remove(&task) {
            let _ = tx.send(GateMsg::Open);
        }
    }
    fn open_all(&self) {
        for (_, tx) in self.gates.lock().unwrap().drain() {
            let _ = tx.send(GateMsg::Open);
        }
    }
    /// have gate task `g` do something; false if it is not there to listen
    fn tell(&self, g: usize, m: GateMsg) -> bool {
        match self.gates.lock().unwrap().get(&g) {
            Some(tx) => tx.send(m).is_ok(),
            None => false,
        }
    }
    /// the handle a task running on the current thread uses for target `arb`
    fn handle_for(&self, arb: usize, cur: bool) -> ArbiterHandle {
        if cur {
            Arbiter::current()
        } else {
            self.handles.lock().unwrap()[arb].clone()
        }
    }
}

fn do_spawn(h: &Sender10, kind: TaskKind, task: usize, log: Arc<TaskLog>) -> bool {
    macro_rules! sp {
        ($f:expr) => {
            match h {
                Sender10::Arb(a) => a.spawn($f),
                Sender10::Handle(a) => a.spawn($f),
            }
        };
    }
    macro_rules! spf {
        ($f:expr) => {
            match h {
                Sender10::Arb(a) => a.spawn_fn($f),
                Sender10::Handle(a) => a.spawn_fn($f),
            }
        };
    }
    match kind {
        TaskKind::Fn => spf!(move || log.start(task)),
        TaskKind::FnPanic => spf!(move || {
            log.start(task);
            panic!("task {task} panics")
        }),
        TaskKind::Fut => sp!(async move { log.start(task) }),
        TaskKind::Pend => {
            let flag = Arc::new(AtomicBool::new(false));
            log.guards.lock().unwrap().push((task, flag.clone()));
            let g = Guard(flag);
            sp!(async move {
                let _g = g;
                log.start(task);
                std::future::pending::<()>().await
            })
        }
        TaskKind::Yield => sp!(async move {
            log.start(task);
            YieldN(2).await;
        }),
        TaskKind::Sleep => sp!(async move {
            log.start(task);
            actix_rt::time::sleep(Duration::from_millis(1)).await;
        }),
        TaskKind::Panic => sp!(async move {
            log.start(task);
            panic!("task {task} panics")
        }),
        // keeps the arbiter's thread busy so that later commands pile up in its channel
        TaskKind::Block => spf!(move || {
            log.start(task);
            thread::sleep(Duration::from_micros(1500));
        }),
        // holds the arbiter's thread until the director opens the gate: everything sent meanwhile
        // is found by the arbiter's loop in one go
        TaskKind::StopOther => {
            let other = log.other_sys.lock().unwrap().clone();
            sp!(async move {
                log.start(task);
                if let Some(o) = other {
                    o.stop_with_code(OTHER_CODE);
                }
            })
        }
        TaskKind::PendOwn => {
            let flag = Arc::new(AtomicBool::new(false));
            log.guards.lock().unwrap().push((task, flag.clone()));
            let g = Guard(flag);
            let helper = Arc::new(AtomicBool::new(false));
            log.helpers.lock().unwrap().push((task, helper.clone()));
            let fut = feeding_future(helper, move || log.start(task));
            sp!(async move {
                let _g = g;
                fut.await
            })
        }
        TaskKind::Blocking => {
            let (tx, rx) = mpsc::channel::<()>();
            log.blockers.lock().unwrap().push((task, tx));
            sp!(async move {
                log.start(task);
                tokio::task::spawn_blocking(move || {
                    let _ = rx.recv_timeout(Duration::from_secs(8));
                });
            })
        }
        // `join()` on the arbiter's own owner object from a task of that arbiter.  (Real code: the OS refuses
        // the self-join, std panics, tokio contains the panic in the task: nothing is recorded.)
        TaskKind::SelfJoin => {
            let owner = log.selfjoin_owner.lock().unwrap().remove(&task);
            spf!(move || {
                log.start(task);
                if let Some(a) = owner {
                    let r = a.join();
                    let at = log.seq.load(Ordering::SeqCst);
                    log.selfjoin_ret.lock().unwrap().push((task, r.is_ok(), at));
                }
            })
        }
        // … and sends commands from inside, on the director's request: a task running ON an arbiter that
        // sends (to its own arbiter or another) while its thread is held
        TaskKind::Gate => {
            let (tx, rx) = mpsc::channel::<GateMsg>();
            log.gates.lock().unwrap().insert(task, tx);
            spf!(move || {
                log.start(task);
                let ack = log.gate_ack.lock().unwrap().clone();
                let ack = move |r: bool| {
                    if let Some(a) = &ack {
                        let _ = a.send(r);
                    }
                };
                loop {
                    match rx.recv_timeout(Duration::from_secs(6)) {
                        Ok(GateMsg::Spawn { arb, cur, kind, task }) => {
                            let h = log.handle_for(arb, cur);
                            ack(do_spawn(&Sender10::Handle(&h), kind, task, log.clone()));
                        }
                        Ok(GateMsg::Stop { arb, cur }) => ack(log.handle_for(arb, cur).stop()),
                        Ok(GateMsg::Open) | Err(_) => break,
                    }
                }
            })
        }
    }
}

enum Sender10<'a> {
    Arb(&'a Arbiter),
    Handle(&'a ArbiterHandle),
}

enum HelperMsg {
    Spawn(usize, TaskKind, usize),
    Stop(usize),
    Quit,
}

struct Sys10 {
    sys: System,
    sys_thread: thread::ThreadId,
    arbs: Vec<Arbiter>,
    res_rx: mpsc::Receiver<Result<i32, String>>,
    /// `runner plain|block`: makes the system thread drop the runner / tells when that is done
    drop_tx: Option<tokio::sync::oneshot::Sender<()>>,
    dropped_rx: mpsc::Receiver<()>,
}

/// A System on a fresh OS thread, with `narb` arbiters.  `host = (n, kept)`: before that, the same
/// thread hosts `n` other Systems one after the other, each of which does a little work (a local task;
/// every other one also an arbiter that comes and goes); their runners are kept alive until the
/// thread ends, or dropped at once.
fn start_system(narb: usize, host: Option<(usize, bool)>, custom: u8, slow: bool, runner_mode: Option<u8>) -> Result<Sys10, Out> {
    let fail = |what: &str, t3: bool| Out {
        log: format!("setup={what}"),
        verdict: format!("setup={what}"),
        t3: if t3 { vec![("C10".into(), "System::new / Arbiter::new did not return within the watchdog".into())] } else { vec![] },
    };
    let (setup_tx, setup_rx) = mpsc::channel();
    let (locked_tx, locked_rx) = mpsc::channel::<()>();
    let (res_tx, res_rx) = mpsc::channel();
    let (drop_tx, drop_rx) = tokio::sync::oneshot::channel::<()>();
    let (dropped_tx, dropped_rx) = mpsc::channel::<()>();
    thread::spawn(move || {
        let mut kept = vec![];
        let lock = ID_LOCK.read().unwrap_or_else(|e| e.into_inner());
        let _ = locked_tx.send(());
        if let Some((n, keep)) = host {
            for i in 0..n {
                let r = System::new();
                let _ = r.block_on(async move { actix_rt::spawn(async move { i }).await });
                if i % 2 == 1 {
                    let a = Arbiter::new();
                    a.stop();
                    let _ = join_watchdog(a, WATCHDOG);
                }
                if keep {
                    kept.push(r);
                }
            }
        }
        let runner = new_system_runner(custom);
        let sys = System::current();
        let me = thread::current().id();
        let create = move || (0..narb).map(|i| new_arbiter(custom, slow && i + 1 == narb)).collect::<Vec<Arbiter>>();
        if runner_mode != Some(2) {
            let arbs = create();
            drop(lock);
            let _ = setup_tx.send((sys, me, arbs));
            let r = finish_runner(runner, runner_mode, drop_rx, &dropped_tx);
            let _ = res_tx.send(r);
            drop(kept);
            return;
        }
        // `runner stopped`: driven by `block_on`; `System::stop()` is called FIRST and handled by the controller
        // (the system arbiter, stopped with it, refuses commands), and only then are the arbiters created and
        // registered.  Nobody has stopped THEM: the stop broadcast was over before they existed.
        runner.block_on(async move {
            System::current().stop();
            let t0 = Instant::now();
            while sys.arbiter().spawn_fn(|| {}) && t0.elapsed() < WATCHDOG {
                actix_rt::time::sleep(Duration::from_millis(1)).await;
            }
            let arbs = create();
            drop(lock);
            // their registrations, queued before `Arbiter::new` returned, are handled in the next turns
            for _ in 0..3 {
                actix_rt::time::sleep(Duration::from_millis(1)).await;
            }
            let _ = setup_tx.send((sys, me, arbs));
            let _ = drop_rx.await;
        });
        drop(runner);
        let _ = dropped_tx.send(());
        let _ = res_tx.send(Ok(0));
        drop(kept);
    });
    locked_rx.recv_timeout(LOCK_WAIT).map_err(|_| fail("blocked", false))?;
    let (sys, sys_thread, arbs) = setup_rx.recv_timeout(4 * WATCHDOG).map_err(|_| fail("hang", true))?;
    Ok(Sys10 { sys, sys_thread, arbs, res_rx, drop_tx: runner_mode.map(|_| drop_tx), dropped_rx })
}

/// what the system thread does with its runner once the arbiters exist
fn finish_runner(
    runner: actix_rt::SystemRunner,
    runner_mode: Option<u8>,
    drop_rx: tokio::sync::oneshot::Receiver<()>,
    dropped_tx: &mpsc::Sender<()>,
) -> Result<i32, String> {
    match runner_mode {
            None => runner.run_with_code().map_err(|e| e.to_string()),
            // the runner is not run: idle, or driven by `block_on` (the controller is polled and registers the
            // arbiters) until the director says so; then dropped, with no `System::stop()` anywhere
            Some(m) => {
                if m == 1 {
                    runner.block_on(async move {
                        actix_rt::time::sleep(Duration::from_millis(1)).await;
                        let _ = drop_rx.await;
                    });
                } else {
                    let _ = drop_rx.blocking_recv();
                }
                drop(runner);
                let _ = dropped_tx.send(());
                Ok(0)
            }
    }
}

/// a second System on a thread of its own, with one worker arbiter, running until somebody stops it:
/// (its handle, the worker, what `run_with_code` returned)
fn side_system() -> Option<(System, Arbiter, mpsc::Receiver<Result<i32, String>>)> {
    let (tx, rx) = mpsc::channel();
    let (res_tx, res_rx) = mpsc::channel();
    thread::spawn(move || {
        let lock = ID_LOCK.read().unwrap_or_else(|e| e.into_inner());
        let runner = System::new();
        let worker = Arbiter::new();
        drop(lock);
        let _ = tx.send((System::current(), worker));
        let _ = res_tx.send(runner.run_with_code().map_err(|e| e.to_string()));
    });
    let (sys, worker) = rx.recv_timeout(LOCK_WAIT).ok()?;
    Some((sys, worker, res_rx))
}

fn short<T: std::fmt::Debug>(v: &[T]) -> String {
    if v.len() <= 16 {
        format!("{v:?}")
    } else {
        format!("{:?}… ({} in all)", &v[..16], v.len())
    }
}

fn exec_c10(sc: &Scenario, jseed: u64) -> Out {
    let narb = sc.narb; // targets
    let is_sys = |a: usize| sc.sys_idx == Some(a);
    let nreal = narb - sc.sys_idx.map_or(0, |_| 1);
    let mut rng = Rng::new(jseed);
    let mut t3: Vec<(String, String)> = vec![];
    let Sys10 { sys, sys_thread, arbs, res_rx, mut drop_tx, dropped_rx } = match start_system(nreal, sc.host, sc.custom_rt, sc.slow_rt, sc.runner_mode) {
        Ok(x) => x,
        Err(out) => return out,
    };
    let sys_id = sys.id();
    let log = Arc::new(TaskLog {
        seq: AtomicUsize::new(0),
        recs: Mutex::new(vec![]),
        counts: Mutex::new(HashMap::new()),
        guards: Mutex::new(vec![]),
        gates: Mutex::new(HashMap::new()),
        handles: Mutex::new(vec![]),
        gate_ack: Mutex::new(None),
        selfjoin_owner: Mutex::new(HashMap::new()),
        selfjoin_ret: Mutex::new(vec![]),
        blockers: Mutex::new(vec![]),
        helpers: Mutex::new(vec![]),
        other_sys: Mutex::new(None),
        // (in half of the runs: the extra commands change what is queued where)
        probe: jseed % 2 == 0,
    });
    // per target: the owner object (None for the system arbiter) and a handle
    let mut real = arbs.into_iter();
    let mut owners: Vec<Option<Arbiter>> = (0..narb).map(|a| if is_sys(a) { None } else { real.next() }).collect();
    let handles: Vec<ArbiterHandle> =
        owners.iter().map(|o| match o { Some(a) => a.handle(), None => sys.arbiter().clone() }).collect();
    *log.handles.lock().unwrap() = handles.clone();
    // `stopother`: the other System
    let mut other = None;
    if sc.stopother.is_some() {
        other = side_system();
        *log.other_sys.lock().unwrap() = other.as_ref().map(|o| o.0.clone());
    }
    let (gate_ack_tx, gate_ack_rx) = mpsc::channel::<bool>();
    *log.gate_ack.lock().unwrap() = Some(gate_ack_tx);

    // helper threads with cloned handles
    let mut helper_tx = vec![];
    let mut helper_ids = vec![];
    let (ack_tx, ack_rx) = mpsc::channel::<bool>();
    for _ in 0..2 {
        let (tx, rx) = mpsc::channel::<HelperMsg>();
        let hs = handles.clone();
        let log = log.clone();
        let ack = ack_tx.clone();
        let (id_tx, id_rx) = mpsc::channel();
        thread::spawn(move || {
            let _ = id_tx.send(thread::current().id());
            while let Ok(m) = rx.recv() {
                match m {
                    HelperMsg::Spawn(a, k, t) => {
                        let r = do_spawn(&Sender10::Handle(&hs[a]), k, t, log.clone());
                        let _ = ack.send(r);
                    }
                    HelperMsg::Stop(a) => {
                        let _ = ack.send(hs[a].stop());
                    }
                    HelperMsg::Quit => break,
                }
            }
        });
        helper_tx.push(tx);
        helper_ids.push(id_rx.recv().unwrap());
    }

    // the command sequence, in a global order fixed by this (director) thread
    let mut rets: Vec<bool> = vec![];
    let mut waits: Vec<(usize, bool)> = vec![];
    let profile = jseed % 3; // 0: burst (no pauses between commands), 1: pauses, 2: a pause now and then
    for c in &sc.cmds {
        let in_burst = matches!(c, Cmd10::Spawn { burst: true, .. });
        if !in_burst && (profile == 1 || (profile == 2 && rng.chance(1, 4))) {
            jitter(&mut rng);
        }
        match c {
            Cmd10::Spawn { arb, via, kind, task, .. } => {
                if *kind == TaskKind::SelfJoin {
                    if let Some(a) = owners[*arb].take() {
                        log.selfjoin_owner.lock().unwrap().insert(*task, a);
                    }
                }
                let r = match via {
                    Via::Own => match &owners[*arb] {
                        Some(a) => do_spawn(&Sender10::Arb(a), *kind, *task, log.clone()),
                        None => do_spawn(&Sender10::Handle(&handles[*arb]), *kind, *task, log.clone()),
                    },
                    Via::H1 | Via::H2 => {
                        let i = if *via == Via::H1 { 0 } else { 1 };
                        let _ = helper_tx[i].send(HelperMsg::Spawn(*arb, *kind, *task));
                        ack_rx.recv_timeout(WATCHDOG).unwrap_or(false)
                    }
                    Via::Task(g, cur) => {
                        // the gate task was waited for: it holds its thread and listens
                        log.started(*g)
                            && log.tell(*g, GateMsg::Spawn { arb: *arb, cur: *cur, kind: *kind, task: *task })
                            && gate_ack_rx.recv_timeout(WATCHDOG).unwrap_or(false)
                    }
                };
                rets.push(r);
            }
            Cmd10::Stop { arb, via } => {
                let r = match via {
                    Via::Own => match &owners[*arb] {
                        Some(a) => a.stop(),
                        None => handles[*arb].stop(),
                    },
                    Via::H1 | Via::H2 => {
                        let i = if *via == Via::H1 { 0 } else { 1 };
                        let _ = helper_tx[i].send(HelperMsg::Stop(*arb));
                        ack_rx.recv_timeout(WATCHDOG).unwrap_or(false)
                    }
                    Via::Task(g, cur) => {
                        log.started(*g)
                            && log.tell(*g, GateMsg::Stop { arb: *arb, cur: *cur })
                            && gate_ack_rx.recv_timeout(WATCHDOG).unwrap_or(false)
                    }
                };
                rets.push(r);
            }
            Cmd10::Wait { task } => {
                let t0 = Instant::now();
                let mut ok = log.started(*task);
                while !ok && t0.elapsed() < Duration::from_secs(3) {
                    thread::sleep(Duration::from_micros(100));
                    ok = log.started(*task);
                }
                waits.push((*task, ok));
            }
            Cmd10::Open { task } => log.open(*task),
            Cmd10::DropSys => {
                if let Some(tx) = drop_tx.take() {
                    let _ = tx.send(());
                    if dropped_rx.recv_timeout(WATCHDOG).is_err() {
                        t3.push(("C10".into(), format!("dropping the SystemRunner did not return within {WATCHDOG:?}")));
                    }
                }
            }
        }
    }
    log.open_all();
    for tx in &helper_tx {
        let _ = tx.send(HelperMsg::Quit);
    }

    // the helper of every `pendown` task that has started is running (so that the teardown has to cope with it)
    for (t, h) in log.helpers.lock().unwrap().iter() {
        if log.started(*t) {
            wait_flag(h, Duration::from_secs(2));
        }
    }
    // `late`: sends through the owner object once the loop has ended
    let mut owner_rets: Vec<String> = vec![];
    for (ai, on_sys, t1) in sc.lates.iter().copied() {
        let t0 = Instant::now();
        let mut gone = !handles[ai].spawn_fn(|| {});
        while !gone && t0.elapsed() < WATCHDOG {
            thread::sleep(Duration::from_micros(200));
            gone = !handles[ai].spawn_fn(|| {});
        }
        let Some(a) = owners[ai].take().filter(|_| gone) else {
            owner_rets.push("???".into());
            continue;
        };
        let probe = {
            let log = log.clone();
            move |a: &Arbiter| {
                let (l1, l2) = (log.clone(), log.clone());
                (a.spawn(async move { l1.start(t1) }), a.spawn_fn(move || l2.start(t1 + 1)), a.stop())
            }
        };
        let r = if on_sys {
            // the caller's thread has a live System whose own arbiter is running
            let (tx, rx) = mpsc::channel();
            let sent = sys.arbiter().spawn(async move {
                let r = probe(&a);
                let _ = tx.send((a, r));
            });
            match rx.recv_timeout(WATCHDOG) {
                Ok((a, r)) => {
                    owners[ai] = Some(a);
                    // whatever ended up on the system arbiter has started when this marker has run
                    let (mtx, mrx) = mpsc::channel();
                    sys.arbiter().spawn_fn(move || {
                        let _ = mtx.send(());
                    });
                    let _ = mrx.recv_timeout(WATCHDOG);
                    Some(r)
                }
                Err(_) => {
                    t3.push(("C10".into(), format!("a task sent to the live system arbiter (accepted: {sent}) did not run within {WATCHDOG:?}")));
                    None
                }
            }
        } else {
            let r = probe(&a);
            owners[ai] = Some(a);
            Some(r)
        };
        match r {
            Some(r) => {
                if r != (false, false, false) {
                    t3.push(("C10".into(), format!(
                        "arbiter {ai}: its loop has ended (its channel refuses commands), but Arbiter::spawn / spawn_fn / stop on the owner, called from {}, returned {r:?}",
                        if on_sys { "a task on the system thread (live System)" } else { "a thread without a System" }
                    )));
                }
                owner_rets.push([r.0, r.1, r.2].iter().map(|x| if *x { '1' } else { '0' }).collect());
            }
            None => owner_rets.push("???".into()),
        }
    }

    // `blocking`: between "the loop has ended" and "the thread has exited".  The futures the loop owned are
    // dropped when its LocalSet is (the drop flag of a `pend` future that had started fires): the loop is over,
    // and while the blocking job keeps the runtime from going away the channel must already refuse commands.
    let mut teardown: Vec<String> = vec![];
    for ai in sc.blocked.iter().copied() {
        let flags: Vec<Arc<AtomicBool>> =
            log.guards.lock().unwrap().iter().filter(|(t, _)| sc.task_arb[*t] == ai && log.started(*t)).map(|(_, f)| f.clone()).collect();
        let job_started = log.blockers.lock().unwrap().iter().any(|(t, _)| sc.task_arb[*t] == ai && log.started(*t));
        let fired = job_started && !flags.is_empty() && {
            let t0 = Instant::now();
            while !flags.iter().all(|f| f.load(Ordering::SeqCst)) && t0.elapsed() < WATCHDOG {
                thread::sleep(Duration::from_micros(200));
            }
            flags.iter().all(|f| f.load(Ordering::SeqCst))
        };
        if fired {
            let r = (
                handles[ai].spawn(async {}),
                handles[ai].stop(),
                owners[ai].as_ref().map(|a| a.spawn_fn(|| {})).unwrap_or(false),
            );
            if r != (false, false, false) {
                t3.push(("C10".into(), format!(
                    "arbiter {ai}: its loop has ended (the futures it owned have been dropped) but, while its thread was still winding down, ArbiterHandle::spawn / ArbiterHandle::stop / Arbiter::spawn_fn returned {r:?}: the command was accepted and can never run"
                )));
            }
            teardown.push([r.0, r.1, r.2].iter().map(|x| if *x { '1' } else { '0' }).collect());
        } else {
            teardown.push("---".into());
        }
        // release this arbiter's blocking jobs
        log.blockers.lock().unwrap().retain(|(t, _)| sc.task_arb[*t] != ai);
    }
    log.blockers.lock().unwrap().clear();

    // "join returns only after the loop has ended": when join has returned, (a) every `pend` future
    // that had STARTED on that arbiter has been dropped (the LocalSet that owns it is gone) and
    // (b) no task start is logged afterwards.  (A future still sitting in the channel is not covered:
    // tokio may keep a message whose send raced the receiver's drop alive until the last sender goes
    // — observed in 2 of 11 700 runs; that is below the level of this property.)
    let mut joins = vec![];
    let mut seq_at_join = vec![];
    let mut hung = false;
    let mut undropped = vec![];
    for ai in 0..narb {
        let Some(a) = owners[ai].take() else {
            joins.push("-");
            // the owner went into a `selfjoin` task: if that `join()` returned, the loop had ended by then
            let sj = sc.selfjoined.iter().find(|x| x.0 == ai).map(|x| x.1);
            let ret = log.selfjoin_ret.lock().unwrap().iter().find(|r| Some(r.0) == sj).map(|r| r.2);
            seq_at_join.push(ret.unwrap_or(usize::MAX));
            if sj.is_some() {
                // it cannot be joined from here; its loop has ended when its channel refuses commands
                let t0 = Instant::now();
                let mut gone = !handles[ai].spawn_fn(|| {});
                while !gone && t0.elapsed() < WATCHDOG {
                    thread::sleep(Duration::from_micros(200));
                    gone = !handles[ai].spawn_fn(|| {});
                }
                if !gone {
                    t3.push(("C10".into(), format!("arbiter {ai} still accepted commands {WATCHDOG:?} after stop()")));
                }
            }
            continue;
        };
        let r = join_watchdog(a, if hung { Duration::from_millis(500) } else { WATCHDOG });
        hung |= r == "hang";
        joins.push(r);
        seq_at_join.push(log.seq.load(Ordering::SeqCst));
        if r == "ok" {
            for (t, f) in log.guards.lock().unwrap().iter() {
                if sc.task_arb[*t] == ai && log.started(*t) && !f.load(Ordering::SeqCst) {
                    undropped.push(*t);
                }
            }
        }
    }
    // the system arbiter cannot be joined; its loop has ended when its channel refuses commands
    let mut sysgone = None;
    if let Some(si) = sc.sys_idx {
        let t0 = Instant::now();
        let mut gone = !handles[si].stop();
        while !gone && t0.elapsed() < WATCHDOG {
            thread::sleep(Duration::from_micros(200));
            gone = !handles[si].stop();
        }
        sysgone = Some(gone);
    }
    // once the arbiter is gone, spawn reports false
    let post: Vec<bool> = handles.iter().map(|h| h.spawn_fn(|| {})).collect();
    let post_stop: Vec<bool> = handles.iter().map(|h| h.stop()).collect();
    thread::sleep(Duration::from_micros(300));
    // (a runner that is never run is dropped at the latest here)
    if let Some(tx) = drop_tx.take() {
        let _ = tx.send(());
    }
    sys.stop();
    let sys_res = res_rx.recv_timeout(WATCHDOG);
    // (decided only now: on the system arbiter a task may start as long as the system's runtime is there)
    // `stopother`: the other System was stopped by the task (if it started): its `run` returned the code, its
    // worker arbiter ended
    let mut other_s = "-".to_string();
    if let (Some(t), Some((osys, oworker, ores))) = (sc.stopother, other) {
        if log.started(t) {
            other_s = OTHER_CODE.to_string();
            match ores.recv_timeout(WATCHDOG) {
                Ok(Ok(c)) if c == OTHER_CODE => {}
                r => {
                    t3.push(("C10".into(), format!("the other System was stopped with code {OTHER_CODE} by task {t}, but its run_with_code gave {r:?}")));
                    other_s = "?".into();
                    osys.stop_with_code(1);
                }
            }
        } else {
            other_s = "idle".into();
            osys.stop_with_code(1);
            let _ = ores.recv_timeout(WATCHDOG);
        }
        if join_watchdog(oworker, WATCHDOG) != "ok" {
            t3.push(("C10".into(), "the other System's worker arbiter was not stopped with its system (join: hang)".into()));
        }
    } else if sc.stopother.is_some() {
        other_s = "?".into();
    }
    // the system's runtime is gone: the futures its LocalSet owned have been dropped
    if let (Some(si), Ok(_)) = (sc.sys_idx, &sys_res) {
        for (t, f) in log.guards.lock().unwrap().iter() {
            if sc.task_arb[*t] == si && log.started(*t) && !f.load(Ordering::SeqCst) {
                undropped.push(*t);
            }
        }
    }

    // ---- canonical log ----
    let recs = log.recs.lock().unwrap().clone();
    let counts = log.counts.lock().unwrap().clone();
    let mut by_arb: Vec<Vec<&StartRec>> = vec![vec![]; narb];
    let mut sorted: Vec<&StartRec> = recs.iter().collect();
    sorted.sort_by_key(|r| r.seq);
    for r in &sorted {
        by_arb[sc.task_arb[r.task]].push(r);
    }
    // thread identity
    let mut thr_ok = true;
    let mut thr_why = String::new();
    let mut arb_threads: Vec<Option<thread::ThreadId>> = vec![None; narb];
    for (a, rs) in by_arb.iter().enumerate() {
        for r in rs {
            match arb_threads[a] {
                None => arb_threads[a] = Some(r.thread),
                Some(t) if t != r.thread => {
                    thr_ok = false;
                    thr_why = format!("task {} of arbiter {a} ran on a different thread than an earlier task", r.task);
                }
                _ => {}
            }
            if is_sys(a) {
                if r.thread != sys_thread {
                    thr_ok = false;
                    thr_why = format!("task {} sent to the system arbiter did not run on the system's thread", r.task);
                }
                continue;
            }
            if !r.name.starts_with(&format!("actix-rt|system:{sys_id}|arbiter:")) {
                thr_ok = false;
                thr_why = format!("task {} ran on thread named {:?}", r.task, r.name);
            }
            if r.thread == sys_thread || r.thread == thread::current().id() || helper_ids.contains(&r.thread) {
                thr_ok = false;
                thr_why = format!("task {} ran on the system/director/helper thread", r.task);
            }
        }
    }
    for a in 0..narb {
        for b in 0..a {
            if arb_threads[a].is_some() && arb_threads[a] == arb_threads[b] {
                thr_ok = false;
                thr_why = format!("arbiters {a} and {b} ran tasks on the same thread");
            }
        }
    }
    // a task of an `Arbiter::new` arbiter starts while that arbiter's loop is running — never once it has ended
    // (what the loop's last poll spawned but did not start is dropped with the runtime).  The system arbiter's
    // tasks live on the system thread's LocalSet, which goes on after its loop.
    let dead_starts: Vec<usize> = recs.iter().filter(|r| !is_sys(sc.task_arb[r.task]) && r.loop_alive == Some(false)).map(|r| r.task).collect();
    let cur_ok = recs.iter().all(|r| r.has_arb) && dead_starts.is_empty();
    let sys_ok = recs.iter().all(|r| r.sys_id == Some(sys_id));
    let once_ok = counts.values().all(|c| *c <= 1);
    let late = !undropped.is_empty() || by_arb.iter().enumerate().any(|(a, rs)| rs.iter().any(|r| r.seq >= seq_at_join[a]));

    // ---- T3: the property statement on the observation ----
    for (a, rs) in by_arb.iter().enumerate() {
        // send order of this arbiter's executes, and which were sent before the first stop
        let mut order = vec![];
        let mut npre = 0;
        let mut seen_stop = false;
        for c in &sc.cmds {
            match c {
                Cmd10::Spawn { arb, task, .. } if *arb == a => {
                    order.push(*task);
                    if !seen_stop {
                        npre += 1;
                    }
                }
                Cmd10::Stop { arb, .. } if *arb == a => seen_stop = true,
                _ => {}
            }
        }
        let pre = &order[..npre];
        let started: Vec<usize> = rs.iter().map(|r| r.task).collect();
        let who = if is_sys(a) { format!("arbiter {a} (the system arbiter)") } else { format!("arbiter {a}") };
        // FIFO: started is a subsequence of the send order — in fact a prefix of it
        if started.len() > order.len() || started[..] != order[..started.len()] {
            t3.push(("C10".into(), format!("{who}: start order {} is not a prefix of the send order {}", short(&started), short(&order))));
        }
        let after: Vec<usize> = started.iter().copied().filter(|t| !pre.contains(t)).collect();
        if !after.is_empty() {
            t3.push(("C10".into(), format!("{who}: task(s) {} were sent after stop() and started", short(&after))));
        }
    }
    if !once_ok {
        let twice: Vec<usize> = counts.iter().filter(|(_, c)| **c > 1).map(|(t, _)| *t).collect();
        t3.push(("C10".into(), format!("a task started more than once: {}", short(&twice))));
    }
    if !thr_ok {
        t3.push(("C10".into(), format!("thread identity: {thr_why}")));
    }
    if !dead_starts.is_empty() {
        t3.push(("C10".into(), format!("task(s) {} started on their arbiter's thread after its loop had ended: Arbiter::current() refused a command at that moment", short(&dead_starts))));
    } else if !cur_ok {
        t3.push(("C10".into(), "Arbiter::try_current() was None inside a task".into()));
    }
    if !sys_ok {
        t3.push(("C10".into(), "System::current() inside a task is not the arbiter's system".into()));
    }
    for (t, ok) in &waits {
        if !ok {
            t3.push(("C10".into(), format!("task {t} sent to a live arbiter with no stop ahead of it never started")));
        }
    }
    for (a, j) in joins.iter().enumerate() {
        if *j != "ok" && *j != "-" {
            t3.push(("C10".into(), format!("join of arbiter {a}: {j}")));
        }
    }
    if sysgone == Some(false) {
        t3.push(("C10".into(), format!("the system arbiter still accepted commands {WATCHDOG:?} after stop()")));
    }
    if late {
        let selfj = log.selfjoin_ret.lock().unwrap().clone();
        let how = if selfj.is_empty() { String::new() } else { format!(" (join() called from task(s) {:?} running on the arbiter's own thread returned)", selfj.iter().map(|r| r.0).collect::<Vec<_>>()) };
        t3.push(("C10".into(), format!("join() returned before the loop had ended{how}: a task started afterwards or pending futures {undropped:?} were still alive")));
    }
    if post.iter().any(|b| *b) || post_stop.iter().any(|b| *b) {
        t3.push(("C10".into(), format!("spawn/stop after the arbiter was joined returned true: spawn={post:?} stop={post_stop:?}")));
    }
    // a send may only fail once a stop is queued ahead of it
    {
        let mut seen_stop = vec![false; narb];
        let mut i = 0;
        for c in &sc.cmds {
            match c {
                Cmd10::Spawn { arb, .. } => {
                    if !rets[i] && !seen_stop[*arb] {
                        t3.push(("C10".into(), format!("spawn #{i} on live arbiter {arb} returned false")));
                    }
                    i += 1;
                }
                Cmd10::Stop { arb, .. } => {
                    if !rets[i] && !seen_stop[*arb] {
                        t3.push(("C10".into(), format!("stop #{i} on live arbiter {arb} returned false")));
                    }
                    seen_stop[*arb] = true;
                    i += 1;
                }
                _ => {}
            }
        }
    }
    if !matches!(sys_res, Ok(Ok(0))) {
        t3.push(("C10".into(), format!("system did not stop cleanly: {sys_res:?}")));
    }

    let b = |x: bool| if x { "1" } else { "0" };
    let starts: Vec<String> = sorted.iter().map(|r| format!("a{}:t{}", sc.task_arb[r.task], r.task)).collect();
    let ids = if thr_ok && cur_ok && sys_ok { "ok".to_string() } else { format!("bad(thr={},cur={},sys={})", b(thr_ok), b(cur_ok), b(sys_ok)) };
    let sysgone_s = match sysgone {
        None => "-",
        Some(g) => b(g),
    };
    let logline = format!(
        "rets={} starts={} waits={} joins={} sysgone={} post={} ids={} once={} late={} owner={} teardown={} other={}",
        if rets.is_empty() { "-".into() } else { rets.iter().map(|r| b(*r)).collect::<Vec<_>>().join("") },
        if starts.is_empty() { "-".into() } else { starts.join(",") },
        if waits.is_empty() { "-".into() } else { waits.iter().map(|(t, ok)| format!("t{t}:{}", b(*ok))).collect::<Vec<_>>().join(",") },
        joins.join(","),
        sysgone_s,
        post.iter().zip(&post_stop).map(|(x, y)| format!("{}{}", b(*x), b(*y))).collect::<Vec<_>>().join(","),
        ids,
        b(once_ok),
        b(late),
        if owner_rets.is_empty() { "-".to_string() } else { owner_rets.join(",") },
        if teardown.is_empty() { "-".to_string() } else { teardown.join(",") },
        other_s,
    );
    // normalised verdict (the Lean driver prints the same from the model's final state)
    let mut v = vec![];
    for (a, rs) in by_arb.iter().enumerate() {
        let pre = count_pre(sc, a);
        v.push(format!("a{a}:started={}/{}", rs.len(), pre));
    }
    v.push(format!("rets={}", if rets.is_empty() { "-".into() } else { rets.iter().map(|r| b(*r)).collect::<Vec<_>>().join("") }));
    v.push(format!("waits={}/{}", waits.iter().filter(|w| w.1).count(), waits.len()));
    v.push(format!("joins={}/{}", joins.iter().filter(|j| **j == "ok").count(), nreal - sc.selfjoined.len()));
    v.push(format!("sysgone={sysgone_s}"));
    v.push(format!("post={}/{}", post.iter().chain(post_stop.iter()).filter(|x| **x).count(), 2 * narb));
    v.push(format!("ids={ids}"));
    v.push(format!("once={}", if once_ok { "ok" } else { "bad" }));
    v.push(format!("late={}", b(late)));
    v.push(format!("owner={}", if owner_rets.is_empty() { "-".to_string() } else { owner_rets.join(",") }));
    v.push(format!("teardown={}", if teardown.is_empty() { "-".to_string() } else { teardown.join(",") }));
    v.push(format!("other={other_s}"));
    Out { log: logline, verdict: v.join(" "), t3 }
}

/// number of executes sent to arbiter `a` before its first stop
fn count_pre(sc: &Scenario, a: usize) -> usize {
    let mut n = 0;
    for c in &sc.cmds {
        match c {
            Cmd10::Spawn { arb, .. } if *arb == a => n += 1,
            Cmd10::Stop { arb, .. } if *arb == a => break,
            _ => {}
        }
    }
    n
}

/// `ident`: `Arbiter::current()` inside a task is a handle to *that* arbiter (a function sent through
/// it runs, and on the same thread), `System::current()` is the arbiter's system, and
/// `System::current().arbiter()` is the system arbiter (runs on the system thread) — for every
/// `Arbiter::new` arbiter and for the system arbiter itself, also when the system's thread has
/// hosted other Systems before (`host`).
fn exec_ident(sc: &Scenario) -> Out {
    let narb = sc.narb;
    let mut t3 = vec![];
    let Sys10 { sys, sys_thread, arbs, res_rx, .. } = match start_system(narb, sc.host, sc.custom_rt, sc.slow_rt, None) {
        Ok(x) => x,
        Err(out) => return out,
    };
    let sys_id = sys.id();
    // (arbiter or usize::MAX for the system arbiter, probe, thread, System::current().id(), return of the send that created a follow-up probe)
    type Rec = (usize, &'static str, thread::ThreadId, Option<usize>);
    const SYS: usize = usize::MAX;
    let (tx, rx) = mpsc::channel::<Rec>();
    let sent_ok = Arc::new(AtomicBool::new(true));
    // `try_current` agrees with `current`, `is_registered` is true inside tasks …
    let here = || {
        let id = System::try_current().map(|s| s.id());
        let consistent = System::is_registered() && Arbiter::try_current().is_some() && id == Some(System::current().id());
        (thread::current().id(), if consistent { id } else { None })
    };
    // … and on a thread that belongs to no System there is nothing to be found
    let fresh_clean = thread::spawn(|| System::try_current().is_none() && Arbiter::try_current().is_none() && !System::is_registered())
        .join()
        .unwrap_or(false);
    for (a, arb) in arbs.iter().enumerate() {
        let tx = tx.clone();
        let sent_ok = sent_ok.clone();
        arb.spawn(async move {
            let (t, s) = here();
            let _ = tx.send((a, "parent", t, s));
            let tx2 = tx.clone();
            let r1 = Arbiter::current().spawn_fn(move || {
                let (t, s) = here();
                let _ = tx2.send((a, "child", t, s));
            });
            let tx3 = tx.clone();
            let r2 = System::current().arbiter().spawn_fn(move || {
                let (t, s) = here();
                let _ = tx3.send((a, "sysarb", t, s));
            });
            if !(r1 && r2) {
                sent_ok.store(false, Ordering::SeqCst);
            }
        });
    }
    {
        // the system arbiter itself: a task on it, and a function it sends through `Arbiter::current()`
        let tx = tx.clone();
        let sent_ok = sent_ok.clone();
        sys.arbiter().spawn(async move {
            let (t, s) = here();
            let _ = tx.send((SYS, "parent", t, s));
            let tx2 = tx.clone();
            let r = Arbiter::current().spawn_fn(move || {
                let (t, s) = here();
                let _ = tx2.send((SYS, "child", t, s));
            });
            if !r {
                sent_ok.store(false, Ordering::SeqCst);
            }
        });
    }
    let want = 3 * narb + 2;
    let mut recs: Vec<Rec> = vec![];
    let t0 = Instant::now();
    while recs.len() < want && t0.elapsed() < Duration::from_secs(3) {
        if let Ok(r) = rx.recv_timeout(Duration::from_millis(50)) {
            recs.push(r);
        }
    }
    let mut ok = true;
    let mut why = String::new();
    let mut threads = vec![];
    let get = |a: usize, w: &str| recs.iter().find(|r| r.0 == a && r.1 == w).cloned();
    let name = |a: usize| if a == SYS { "the system arbiter".to_string() } else { format!("arbiter {a}") };
    for a in (0..narb).chain([SYS]) {
        let (p, c) = (get(a, "parent"), get(a, "child"));
        let Some(p) = p else {
            ok = false;
            why = format!("a task sent to {} never ran", name(a));
            continue;
        };
        match c {
            None => {
                ok = false;
                why = format!("a function sent through Arbiter::current() from a task on {} never ran: Arbiter::current() is not that arbiter", name(a));
            }
            Some(c) => {
                if p.2 != c.2 {
                    ok = false;
                    why = format!("a function sent through Arbiter::current() on {} ran on another thread", name(a));
                }
                if c.3 != Some(sys_id) {
                    ok = false;
                    why = "System::current() differs from the arbiter's system".into();
                }
            }
        }
        if p.3 != Some(sys_id) {
            ok = false;
            why = "System::current() differs from the arbiter's system".into();
        }
        if a == SYS {
            if p.2 != sys_thread {
                ok = false;
                why = "a task sent to the system arbiter did not run on the system's thread".into();
            }
            continue;
        }
        match get(a, "sysarb") {
            None => {
                ok = false;
                why = "a function sent through System::current().arbiter() never ran".into();
            }
            Some(s) => {
                if s.2 != sys_thread {
                    ok = false;
                    why = "a function sent through System::current().arbiter() did not run on the system thread".into();
                }
                if s.3 != Some(sys_id) {
                    ok = false;
                    why = "System::current() differs from the arbiter's system".into();
                }
            }
        }
        if p.2 == sys_thread || threads.contains(&p.2) {
            ok = false;
            why = format!("arbiter {a} shares its thread with the system or another arbiter");
        }
        threads.push(p.2);
    }
    if !fresh_clean {
        ok = false;
        why = "System::try_current() / Arbiter::try_current() / System::is_registered() report a system on a thread that has none".into();
    }
    if !sent_ok.load(Ordering::SeqCst) {
        ok = false;
        why = format!("Arbiter::current().spawn_fn / System::current().arbiter().spawn_fn returned false inside a task of a live arbiter{}", if why.is_empty() { String::new() } else { format!(" ({why})") });
    }
    for a in &arbs {
        a.stop();
    }
    let mut j = 0;
    for a in arbs {
        if join_watchdog(a, WATCHDOG) == "ok" {
            j += 1;
        }
    }
    sys.stop();
    let _ = res_rx.recv_timeout(WATCHDOG);
    if !ok {
        t3.push(("C10".into(), format!("identity: {why}")));
    }
    if j != narb {
        t3.push(("C10".into(), "join after stop did not return".into()));
    }
    let host = match sc.host {
        None => "0".to_string(),
        Some((n, keep)) => format!("{n}{}", if keep { "k" } else { "d" }),
    };
    Out { log: String::new(), verdict: format!("ident={} n={narb} host={host} joins={j}/{narb}", if ok { "ok" } else { "bad" }), t3 }
}

fn new_system() -> actix_rt::SystemRunner {
    let _l = ID_LOCK.read().unwrap_or_else(|e| e.into_inner());
    System::new()
}

/// `sysids <threads> <rounds>`: in every round, `threads` OS threads construct a System at the same moment
/// (a barrier inside the runtime factory of `System::with_tokio_rt`, i.e. right in front of
/// `System::construct`), each starts an arbiter and asks a task on it for `System::current().id()`; all
/// Systems of a round stay alive until every id has been read.  `System::current()` identifies the
/// arbiter's system: the arbiter sees its creator's id, the ids of simultaneously live Systems differ, and
/// no id is handed out twice.
fn exec_sysids(threads: usize, rounds: usize) -> Result<String, String> {
    use std::sync::Barrier;
    let (tx, rx) = mpsc::channel::<Result<(), String>>();
    thread::spawn(move || {
        // nobody shifts the process-wide counters meanwhile
        let _l = ID_LOCK.read().unwrap_or_else(|e| e.into_inner());
        let mut seen = std::collections::HashSet::new();
        for round in 0..rounds {
            let start = Arc::new(Barrier::new(threads));
            let done = Arc::new(Barrier::new(threads));
            let ws: Vec<_> = (0..threads)
                .map(|_| {
                    let (start, done) = (start.clone(), done.clone());
                    thread::spawn(move || {
                        let runner = System::with_tokio_rt(move || {
                            let rt = custom_tokio_rt();
                            start.wait();
                            rt
                        });
                        let creator = System::current().id();
                        let arb = Arbiter::new();
                        let (tx, rx) = mpsc::channel();
                        arb.spawn_fn(move || {
                            let _ = tx.send(System::current().id());
                        });
                        let seen_by_arbiter = rx.recv_timeout(WATCHDOG).ok();
                        done.wait();
                        arb.stop();
                        let _ = arb.join();
                        drop(runner);
                        (creator, seen_by_arbiter)
                    })
                })
                .collect();
            let mut ids = vec![];
            for w in ws {
                match w.join() {
                    Ok(x) => ids.push(x),
                    Err(_) => {
                        let _ = tx.send(Err(format!("round {round}: a thread constructing a System panicked")));
                        return;
                    }
                }
            }
            let mut this_round = std::collections::HashSet::new();
            for (creator, by_arb) in ids {
                let e = if by_arb != Some(creator) {
                    Some(format!("round {round}: a task on an arbiter of system {creator} saw System::current().id() = {by_arb:?}"))
                } else if !this_round.insert(creator) {
                    Some(format!("round {round}: two simultaneously live Systems (and their arbiters) report System::current().id() == {creator}"))
                } else if !seen.insert(creator) {
                    Some(format!("round {round}: system id {creator} was handed out a second time"))
                } else {
                    None
                };
                if let Some(e) = e {
                    let _ = tx.send(Err(e));
                    return;
                }
            }
        }
        let _ = tx.send(Ok(()));
    });
    match rx.recv_timeout(Duration::from_secs(120)) {
        Ok(Ok(())) => Ok(format!("sysids=distinct threads={threads} rounds={rounds}")),
        Ok(Err(e)) => Err(e),
        Err(_) => Err("hang".into()),
    }
}

/// `sysarbgone aligned|plain early|alive`: a System with one worker arbiter — `aligned`: the process-wide
/// counters are shifted first so that the worker's number equals the System's id (the registry keys of the
/// two are different things all the same) — is driven by `block_on` only.  `early`: the worker is stopped and
/// joined, its `Deregister` handled; then `System::stop()`; the runner goes on being driven by `block_on`:
/// the System's own arbiter has been stopped with everything else — it refuses commands, and what is sent to
/// `System::arbiter()` after the stop never starts.  (`run()` would drop the runtime at once and hide it.)
fn exec_sysarbgone(aligned: bool, early: bool) -> Result<String, String> {
    let (tx, rx) = mpsc::channel::<Result<bool, String>>();
    thread::spawn(move || {
        let excl = if aligned { Some(ID_LOCK.write().unwrap_or_else(|e| e.into_inner())) } else { None };
        let shared = if excl.is_none() { Some(ID_LOCK.read().unwrap_or_else(|e| e.into_inner())) } else { None };
        if aligned {
            align_counters(0);
        }
        let runner = System::new();
        let sys = System::current();
        let worker = Arbiter::new();
        drop((excl, shared));
        let tick = |ms: u64| runner.block_on(async move { actix_rt::time::sleep(Duration::from_millis(ms)).await });
        tick(2);
        let mut worker = Some(worker);
        if early {
            let w = worker.take().unwrap();
            w.stop();
            if join_watchdog(w, WATCHDOG) != "ok" {
                let _ = tx.send(Err("join of the worker arbiter after stop(): hang".into()));
                return;
            }
            // its Deregister is handled
            tick(3);
        }
        sys.stop();
        // the controller handles the Exit; the system arbiter's loop ends
        let t0 = Instant::now();
        let started = Arc::new(AtomicUsize::new(0));
        let mut accepted = 0;
        loop {
            tick(2);
            let st = started.clone();
            if !sys.arbiter().spawn_fn(move || {
                st.fetch_add(1, Ordering::SeqCst);
            }) {
                break;
            }
            accepted += 1;
            if t0.elapsed() > Duration::from_secs(2) {
                break;
            }
        }
        tick(5);
        let n = started.load(Ordering::SeqCst);
        let worker_ok = match worker {
            Some(w) => join_watchdog(w, WATCHDOG) == "ok",
            None => true,
        };
        let r = if t0.elapsed() > Duration::from_secs(2) || n > 0 {
            Err(format!(
                "System::arbiter() accepted {accepted} commands in the 2 s after System::stop() had been handled (the runner driven by block_on) and {n} of them started: the System's own arbiter was not stopped"
            ))
        } else if !worker_ok {
            Err("the worker arbiter was not stopped by System::stop() (join: hang)".into())
        } else {
            Ok(true)
        };
        let _ = tx.send(r);
    });
    match rx.recv_timeout(Duration::from_secs(30)) {
        Ok(Ok(_)) => Ok("sysarbgone=1 worker=joined".into()),
        Ok(Err(e)) => Err(e),
        Err(_) => Err("hang".into()),
    }
}

/// `syslive <rounds>`: per round, System A is created, System B is created on another thread (it gets an
/// arbiter and stays alive), A is stopped and its `run()` returns, and then System C is created on a third
/// thread.  B and C are alive at the same time: their ids differ, and a task on an arbiter of each sees its
/// own system's id.  (A System that has finished does not hand its id — or anybody else's — back.)
fn exec_syslive(rounds: usize) -> Result<String, String> {
    // a System on its own thread with one arbiter: (id seen by the creator, id seen by a task on the arbiter);
    // lives until `fin` is dropped / signalled
    fn live_system(fin: mpsc::Receiver<()>) -> mpsc::Receiver<(usize, Option<usize>)> {
        let (tx, rx) = mpsc::channel();
        thread::spawn(move || {
            let runner = System::new();
            let creator = System::current().id();
            let arb = Arbiter::new();
            let (itx, irx) = mpsc::channel();
            arb.spawn_fn(move || {
                let _ = itx.send(System::current().id());
            });
            let _ = tx.send((creator, irx.recv_timeout(WATCHDOG).ok()));
            let _ = fin.recv_timeout(Duration::from_secs(30));
            arb.stop();
            let _ = arb.join();
            drop(runner);
        });
        rx
    }
    let (tx, rx) = mpsc::channel::<Result<(), String>>();
    thread::spawn(move || {
        let _l = ID_LOCK.read().unwrap_or_else(|e| e.into_inner());
        for round in 0..rounds {
            // A: created, later stopped; its `run()` returns
            let (atx, arx) = mpsc::channel();
            let (adone_tx, adone_rx) = mpsc::channel();
            thread::spawn(move || {
                let runner = System::new();
                let _ = atx.send(System::current());
                let _ = adone_tx.send(runner.run().is_ok());
            });
            let Ok(sys_a) = arx.recv_timeout(WATCHDOG) else {
                let _ = tx.send(Err(format!("round {round}: System::new did not return")));
                return;
            };
            let (bfin, bfin_rx) = mpsc::channel();
            let Ok((b, b_arb)) = live_system(bfin_rx).recv_timeout(2 * WATCHDOG) else {
                let _ = tx.send(Err(format!("round {round}: the second System did not come up")));
                return;
            };
            sys_a.stop();
            if adone_rx.recv_timeout(WATCHDOG) != Ok(true) {
                let _ = tx.send(Err(format!("round {round}: run() of the first System did not return Ok after stop()")));
                return;
            }
            let (cfin, cfin_rx) = mpsc::channel();
            let Ok((c, c_arb)) = live_system(cfin_rx).recv_timeout(2 * WATCHDOG) else {
                let _ = tx.send(Err(format!("round {round}: the third System did not come up")));
                return;
            };
            drop((bfin, cfin));
            let e = if b_arb != Some(b) || c_arb != Some(c) {
                Some(format!("round {round}: tasks on the arbiters of systems {b} / {c} saw System::current().id() = {b_arb:?} / {c_arb:?}"))
            } else if b == c {
                Some(format!("round {round}: a System created after another one's run() had returned got id {c}, the id of a System that is still alive (its arbiter reports the same System::current().id())"))
            } else if sys_a.id() == b || sys_a.id() == c {
                Some(format!("round {round}: id {} of a System was handed out again", sys_a.id()))
            } else {
                None
            };
            if let Some(e) = e {
                let _ = tx.send(Err(e));
                return;
            }
        }
        let _ = tx.send(Ok(()));
    });
    match rx.recv_timeout(Duration::from_secs(120)) {
        Ok(Ok(())) => Ok(format!("syslive=distinct rounds={rounds}")),
        Ok(Err(e)) => Err(e),
        Err(_) => Err("hang".into()),
    }
}

/// `blockon <variant> <pends> <value>`
fn exec_blockon(variant: &str, pends: usize, value: i32) -> Result<String, String> {
    let v = variant.to_string();
    let (tx, rx) = mpsc::channel();
    thread::spawn(move || {
        let r = catch(|| match v.as_str() {
            "rt" => actix_rt::Runtime::new().unwrap().block_on(async move {
                YieldN(pends).await;
                value
            }),
            "sys" => new_system().block_on(async move {
                YieldN(pends).await;
                value
            }),
            _ => new_system().block_on(async move {
                let h = actix_rt::spawn(async move {
                    YieldN(pends).await;
                    value
                });
                h.await.unwrap()
            }),
        });
        let _ = tx.send(r);
    });
    match rx.recv_timeout(WATCHDOG) {
        Ok(Ok(v)) => Ok(format!("out={v}")),
        Ok(Err(e)) => Err(format!("panic:{e}")),
        Err(_) => Err("hang".into()),
    }
}

// -------------------------------------------------------------------------------------------------
// line protocol
// -------------------------------------------------------------------------------------------------

/// result of feeding one line to the scenario builder
enum LineRes {
    Plain(String),
    GoC09 { mode_run: bool, block: bool, j: u64, head: String },
    GoC10 { j: u64, head: String },
    Ident,
    BlockOn(String, usize, i32),
    SysIds(usize, usize),
    SysLive(usize),
    SysArbGone(bool, bool),
}

fn feed(sc: &mut Scenario, ws: &[&str]) -> LineRes {
    let bad = || LineRes::Plain("bad-op".into());
    if ws.first() == Some(&"case") {
        *sc = Scenario::default();
        sc.proto = match ws.get(2) {
            Some(&"c09") => 9,
            Some(&"c10") => 10,
            _ => 0,
        };
        sc.slow_rt = ws[3.min(ws.len())..].contains(&"rt=slow");
        let flags = &ws[3.min(ws.len())..];
        sc.custom_rt = if flags.contains(&"rt=multi") { 2 } else if sc.slow_rt || flags.contains(&"rt=custom") { 1 } else { 0 };
        return LineRes::Plain("ok".into());
    }
    if sc.done {
        return bad();
    }
    // `observe <head…> || <log…>` is `go <head…>`
    let ws: Vec<&str> = if ws.first() == Some(&"observe") {
        let cut = ws.iter().position(|w| *w == "||").unwrap_or(ws.len());
        let mut v = vec!["go"];
        v.extend_from_slice(&ws[1..cut]);
        v
    } else {
        ws.to_vec()
    };
    match (sc.proto, ws.as_slice()) {
        (9, ["arb", k]) => {
            let kind = match *k {
                "early" => Kind::Early,
                "dropped" => Kind::Dropped,
                "running" => Kind::Running,
                "busy" => Kind::Busy,
                "feeding" => Kind::Feeding,
                "backlog" => Kind::Backlog(BACKLOG),
                "done" => Kind::Done,
                // `backlog:N`: the number of commands queued behind the held task
                _ => match parse_prefixed(k, "backlog:") {
                    Some(q) if (1..=1600).contains(&q) => Kind::Backlog(q),
                    _ => return bad(),
                },
            };
            if sc.kinds.len() >= 6 || !sc.entries.is_empty() || sc.align.is_some() || !sc.retire.is_empty() {
                return bad();
            }
            sc.kinds.push(kind);
            LineRes::Plain(format!("ok a{}", sc.kinds.len() - 1))
        }
        (9, ["retire", rest @ ..]) => {
            // arbiters that are alive and have their owner object, each once; before the stops
            let ks: Option<Vec<usize>> = rest.iter().map(|x| parse_nat(x)).collect();
            let Some(ks) = ks else { return bad() };
            let ok = !ks.is_empty()
                && sc.retire.is_empty()
                && sc.entries.is_empty()
                && ks.iter().all(|k| *k < sc.kinds.len() && matches!(sc.kinds[*k], Kind::Running | Kind::Busy | Kind::Feeding))
                && (0..ks.len()).all(|i| !ks[..i].contains(&ks[i]));
            if !ok {
                return bad();
            }
            sc.retire = ks;
            LineRes::Plain("ok".into())
        }
        (9, ["sysload", nq]) => {
            match parse_nat(nq) {
                Some(q) if q <= 2000 && sc.sysload.is_none() && sc.entries.is_empty() => {
                    sc.sysload = Some(q);
                    LineRes::Plain("ok".into())
                }
                _ => bad(),
            }
        }
        (9, ["sysfeed"]) => {
            if sc.sysfeed || !sc.entries.is_empty() {
                return bad();
            }
            sc.sysfeed = true;
            LineRes::Plain("ok".into())
        }
        (9, ["align", k]) => {
            // after the `arb` lines, before the stops, once
            match parse_nat(k) {
                Some(k) if k < sc.kinds.len() && sc.entries.is_empty() && sc.align.is_none() => {
                    sc.align = Some(k);
                    LineRes::Plain("ok".into())
                }
                _ => bad(),
            }
        }
        (9, ["stop", o, c, rest @ ..]) => {
            let Some(origin) = parse_origin(sc, o, true) else { return bad() };
            let Some(code) = parse_i32(c) else { return bad() };
            let seq = match rest {
                [] | ["seq"] => true,
                ["race"] => false,
                _ => return bad(),
            };
            if !entry_ok(sc, &origin, seq) {
                return bad();
            }
            sc.entries.push(Entry { origin, actions: vec![Action::Stop(code)], seq });
            LineRes::Plain("ok".into())
        }
        (9, ["batch", o, rest @ ..]) => {
            // straight-line client code: `s<code>` = stop_with_code, `n<r|b|d|e>` = Arbiter::new (kind)
            let Some(origin) = parse_origin(sc, o, true) else { return bad() };
            let (items, seq) = match rest.last() {
                Some(&"seq") => (&rest[..rest.len() - 1], true),
                Some(&"race") => (&rest[..rest.len() - 1], false),
                _ => (rest, true),
            };
            if items.is_empty() || items.len() > 5 {
                return bad();
            }
            let mut actions = vec![];
            for it in items {
                let a = if let Some(c) = it.strip_prefix('s') {
                    match parse_i32(c) {
                        Some(c) => Action::Stop(c),
                        None => return bad(),
                    }
                } else {
                    match *it {
                        "nr" => Action::New(Kind::Running),
                        "nb" => Action::New(Kind::Busy),
                        "nf" => Action::New(Kind::Feeding),
                        "nk" => Action::New(Kind::Backlog(BACKLOG)),
                        "nd" => Action::New(Kind::Dropped),
                        "ne" => Action::New(Kind::Early),
                        "x" => Action::StopSysArb,
                        _ => match parse_prefixed(it, "nk:") {
                            Some(q) if (1..=1600).contains(&q) => Action::New(Kind::Backlog(q)),
                            _ => return bad(),
                        },
                    }
                };
                actions.push(a);
            }
            let e = Entry { origin, actions, seq };
            // one batch per case; at most two arbiters created by it; not while the counters are aligned
            // (a thread that belongs to no System cannot create arbiters)
            if sc.has_batch || e.news() > 2 || (e.news() > 0 && (sc.align.is_some() || matches!(e.origin, Origin::Foreign | Origin::Other(_)))) || !entry_ok(sc, &e.origin, seq) {
                return bad();
            }
            sc.has_batch = true;
            let first = sc.kinds.len();
            let ids: String = (0..e.news()).map(|i| format!(" a{}", first + i)).collect();
            sc.entries.push(e);
            LineRes::Plain(format!("ok{ids}"))
        }
        (9, ["go", m, j]) => {
            let (mode_run, block) = match *m {
                "run" => (true, false),
                "code" => (false, false),
                // driven by `block_on`, then `run_with_code`; no arbiters created by a batch (whether the
                // controller gets to them depends on when the future is released)
                "block" if sc.entries.iter().all(|e| e.news() == 0) => (false, true),
                _ => return bad(),
            };
            let Some(j) = parse_prefixed(j, "j=") else { return bad() };
            if !sc.entries.iter().any(|e| e.first_stop().is_some()) {
                return bad();
            }
            sc.done = true;
            LineRes::GoC09 { mode_run, block, j: j as u64, head: format!("{m} j={j}") }
        }
        (10, ["runner", m]) => {
            let block = match *m {
                "plain" => 0u8,
                "block" => 1,
                // driven by `block_on`, `System::stop()` first, the arbiters created after the controller
                // has handled it
                "stopped" => 2,
                _ => return bad(),
            };
            // first line of the case; `Arbiter::new` targets only (the system arbiter goes with the runner)
            if sc.runner_mode.is_some() || sc.host.is_some() || sc.narb > 0 || sc.nlines > 0 {
                return bad();
            }
            sc.runner_mode = Some(block);
            LineRes::Plain("ok".into())
        }
        (10, ["dropsys"]) => {
            if sc.runner_mode.is_none() || sc.dropsys || sc.narb == 0 || sc.nlines >= MAX_LINES {
                return bad();
            }
            sc.dropsys = true;
            sc.nlines += 1;
            sc.cmds.push(Cmd10::DropSys);
            LineRes::Plain("ok".into())
        }
        (10, ["host", n, mode]) => {
            let keep = match *mode {
                "kept" => true,
                "dropped" => false,
                _ => return bad(),
            };
            match parse_nat(n) {
                Some(n) if (1..=3).contains(&n) && sc.host.is_none() && sc.narb == 0 && sc.nlines == 0 && sc.runner_mode.is_none() => {
                    sc.host = Some((n, keep));
                    LineRes::Plain("ok".into())
                }
                _ => bad(),
            }
        }
        (10, ["arb"]) => {
            if sc.narb - sc.sys_idx.map_or(0, |_| 1) >= 2 || sc.nlines > 0 {
                return bad();
            }
            sc.narb += 1;
            sc.stopped.push(false);
            LineRes::Plain(format!("ok a{}", sc.narb - 1))
        }
        (10, ["sysarb"]) => {
            if sc.sys_idx.is_some() || sc.nlines > 0 || sc.runner_mode.is_some() {
                return bad();
            }
            sc.sys_idx = Some(sc.narb);
            sc.narb += 1;
            sc.stopped.push(false);
            LineRes::Plain(format!("ok a{}", sc.narb - 1))
        }
        (10, ["spawn", a, via, kind]) => {
            let (Some(a), Some(kind)) = (parse_nat(a), parse_kind(kind)) else { return bad() };
            if a >= sc.narb || sc.nlines >= MAX_LINES || sc.ntask >= MAX_TASKS {
                return bad();
            }
            let Some(via) = parse_via(sc, a, via) else { return bad() };
            if kind == TaskKind::StopOther {
                if sc.stopother.is_some() {
                    return bad();
                }
                sc.stopother = Some(sc.ntask);
            }
            if kind == TaskKind::Blocking {
                // the system's runtime is the harness's to drop: `Arbiter::new` targets only
                if sc.sys_idx == Some(a) {
                    return bad();
                }
                if !sc.blocked.contains(&a) {
                    sc.blocked.push(a);
                    sc.blocked.sort();
                }
            }
            if kind == TaskKind::SelfJoin {
                // an `Arbiter::new` target that still has its owner object, which no `late` line needs
                if sc.sys_idx == Some(a) || sc.selfjoined.iter().any(|x| x.0 == a) || sc.lates.iter().any(|l| l.0 == a) {
                    return bad();
                }
                sc.selfjoined.push((a, sc.ntask));
            }
            let task = sc.ntask;
            sc.ntask += 1;
            sc.nlines += 1;
            sc.task_arb.push(a);
            sc.task_gate.push(if kind == TaskKind::Gate { Some(false) } else { None });
            sc.task_waited.push(false);
            sc.cmds.push(Cmd10::Spawn { arb: a, via, kind, task, burst: false });
            LineRes::Plain(format!("ok t{task}"))
        }
        (10, ["spawnn", a, via, kind, n]) => {
            let (Some(a), Some(kind), Some(n)) = (parse_nat(a), parse_kind(kind), parse_nat(n)) else { return bad() };
            if a >= sc.narb || sc.nlines >= MAX_LINES || !(2..=1600).contains(&n) || sc.ntask + n > MAX_TASKS || kind == TaskKind::Gate || kind == TaskKind::SelfJoin || kind == TaskKind::Blocking || kind == TaskKind::PendOwn || kind == TaskKind::StopOther {
                return bad();
            }
            let Some(via) = parse_via(sc, a, via) else { return bad() };
            sc.nlines += 1;
            let first = sc.ntask;
            for i in 0..n {
                let task = sc.ntask;
                sc.ntask += 1;
                sc.task_arb.push(a);
                sc.task_gate.push(None);
                sc.task_waited.push(false);
                sc.cmds.push(Cmd10::Spawn { arb: a, via, kind, task, burst: i > 0 });
            }
            LineRes::Plain(format!("ok t{first}..t{}", sc.ntask - 1))
        }
        (10, ["stop", a, via]) => {
            let Some(a) = parse_nat(a) else { return bad() };
            if a >= sc.narb || sc.nlines >= MAX_LINES {
                return bad();
            }
            let Some(via) = parse_via(sc, a, via) else { return bad() };
            sc.nlines += 1;
            sc.stopped[a] = true;
            sc.cmds.push(Cmd10::Stop { arb: a, via });
            LineRes::Plain("ok".into())
        }
        (10, ["wait", t]) => {
            let Some(t) = parse_prefixed(t, "t") else { return bad() };
            // only for a task with no stop ahead of it on its arbiter and no closed gate in front of it
            // (the two tasks of a `late` line are never meant to start)
            if t >= sc.ntask || sc.stopped[sc.task_arb[t]] || sc.nlines >= MAX_LINES || sc.lates.iter().any(|l| t == l.2 || t == l.2 + 1) {
                return bad();
            }
            if (0..t).any(|g| sc.task_arb[g] == sc.task_arb[t] && sc.task_gate[g] == Some(false)) {
                return bad();
            }
            sc.nlines += 1;
            sc.task_waited[t] = true;
            sc.cmds.push(Cmd10::Wait { task: t });
            LineRes::Plain("ok".into())
        }
        (10, ["open", t]) => {
            let Some(t) = parse_prefixed(t, "t") else { return bad() };
            if t >= sc.ntask || sc.task_gate[t] != Some(false) || sc.nlines >= MAX_LINES {
                return bad();
            }
            sc.nlines += 1;
            sc.task_gate[t] = Some(true);
            sc.cmds.push(Cmd10::Open { task: t });
            LineRes::Plain("ok".into())
        }
        (10, ["late", a, w]) => {
            let on_sys = match *w {
                "dir" => false,
                "sys" => true,
                _ => return bad(),
            };
            let Some(a) = parse_nat(a) else { return bad() };
            // an `Arbiter::new` target (the system arbiter has no owner object), once per target; from the
            // system thread only while the system arbiter is not itself a target (it must stay alive)
            if a >= sc.narb || sc.sys_idx == Some(a) || sc.nlines >= MAX_LINES || sc.ntask + 2 > MAX_TASKS
                || sc.lates.iter().any(|l| l.0 == a) || (on_sys && (sc.sys_idx.is_some() || sc.runner_mode.is_some())) || sc.selfjoined.iter().any(|x| x.0 == a)
            {
                return bad();
            }
            sc.nlines += 1;
            sc.lates.push((a, on_sys, sc.ntask));
            for _ in 0..2 {
                sc.ntask += 1;
                sc.task_arb.push(a);
                sc.task_gate.push(None);
                sc.task_waited.push(false);
            }
            LineRes::Plain(format!("ok t{} t{}", sc.ntask - 2, sc.ntask - 1))
        }
        (10, ["go", j]) => {
            let Some(j) = parse_prefixed(j, "j=") else { return bad() };
            if sc.narb == 0 || sc.stopped.iter().any(|s| !s) {
                return bad();
            }
            sc.done = true;
            LineRes::GoC10 { j: j as u64, head: format!("j={j}") }
        }
        (10, ["ident"]) => {
            // the system arbiter is always probed; `arb` lines add `Arbiter::new` arbiters
            if sc.sys_idx.is_some() || sc.nlines > 0 || sc.runner_mode.is_some() {
                return bad();
            }
            sc.done = true;
            LineRes::Ident
        }
        (10, ["sysarbgone", a, v]) => {
            let aligned = match *a {
                "aligned" => true,
                "plain" => false,
                _ => return bad(),
            };
            let early = match *v {
                "early" => true,
                "alive" => false,
                _ => return bad(),
            };
            LineRes::SysArbGone(aligned, early)
        }
        (10, ["syslive", r]) => {
            match parse_nat(r) {
                Some(r) if (1..=200).contains(&r) => LineRes::SysLive(r),
                _ => bad(),
            }
        }
        (10, ["sysids", t, r]) => {
            let (Some(t), Some(r)) = (parse_nat(t), parse_nat(r)) else { return bad() };
            if !(2..=8).contains(&t) || !(1..=1000).contains(&r) {
                return bad();
            }
            LineRes::SysIds(t, r)
        }
        (10, ["blockon", v, p, x]) => {
            let (Some(p), Some(x)) = (parse_nat(p), parse_i32(x)) else { return bad() };
            if !matches!(*v, "rt" | "sys" | "spawn") || p > 1000 {
                return bad();
            }
            LineRes::BlockOn(v.to_string(), p, x)
        }
        _ => bad(),
    }
}

/// where an entry is issued from (`foreign`: a thread that belongs to no System — stops only)
fn parse_origin(sc: &Scenario, o: &str, foreign_ok: bool) -> Option<Origin> {
    match o {
        "sys-pre" => Some(Origin::SysPre),
        "sys-task" => Some(Origin::SysTask),
        "foreign" if foreign_ok => Some(Origin::Foreign),
        "osys" if foreign_ok => Some(Origin::Other(false)),
        "oarb" if foreign_ok => Some(Origin::Other(true)),
        _ => match parse_prefixed(o, "arb:") {
            // (a task on it must be able to run: not stopped, not retired, its thread not held)
            Some(k) if k < sc.kinds.len() && !matches!(sc.kinds[k], Kind::Early | Kind::Done | Kind::Backlog(_)) && !sc.retire.contains(&k) => Some(Origin::Arb(k)),
            _ => None,
        },
    }
}

/// at most three entries; an entry on the system thread in front of `run` cannot be made to wait for the
/// acknowledgement of one that needs the system to be running
fn entry_ok(sc: &Scenario, origin: &Origin, seq: bool) -> bool {
    let i = sc.entries.len();
    if i >= 3 {
        return false;
    }
    // acks awaited before this entry's gate opens: those of all entries in front of the last `seq` one
    let k = if i > 0 && seq { i } else { (1..i).rev().find(|j| sc.entries[*j].seq).unwrap_or(0) };
    !(*origin == Origin::SysPre && sc.entries[..k].iter().any(|e| e.origin == Origin::SysTask))
}

/// `own` | `h1` | `h2` | `t<g>` | `c<g>` — the last two: sent by gate task `g`, which has been waited for
/// and is still closed; `c` = through `Arbiter::current()`, so only to the gate task's own arbiter
fn parse_via(sc: &Scenario, target: usize, s: &str) -> Option<Via> {
    match s {
        "own" => Some(Via::Own),
        "h1" => Some(Via::H1),
        "h2" => Some(Via::H2),
        _ => {
            let (g, cur) = match (parse_prefixed(s, "t"), parse_prefixed(s, "c")) {
                (Some(g), _) => (g, false),
                (_, Some(g)) => (g, true),
                _ => return None,
            };
            if g >= sc.ntask || sc.task_gate[g] != Some(false) || !sc.task_waited[g] || (cur && sc.task_arb[g] != target) {
                return None;
            }
            Some(Via::Task(g, cur))
        }
    }
}

fn parse_kind(s: &str) -> Option<TaskKind> {
    Some(match s {
        "fn" => TaskKind::Fn,
        "fut" => TaskKind::Fut,
        "pend" => TaskKind::Pend,
        "yield" => TaskKind::Yield,
        "sleep" => TaskKind::Sleep,
        "panic" => TaskKind::Panic,
        "fnpanic" => TaskKind::FnPanic,
        "block" => TaskKind::Block,
        "gate" => TaskKind::Gate,
        "selfjoin" => TaskKind::SelfJoin,
        "blocking" => TaskKind::Blocking,
        "pendown" => TaskKind::PendOwn,
        "stopother" => TaskKind::StopOther,
        _ => return None,
    })
}

struct CaseOut {
    lines: Vec<(String, String)>,
    t3: Vec<(String, String)>,
}

fn run_case(lines: &[String]) -> CaseOut {
    let mut sc = Scenario::default();
    let mut out = CaseOut { lines: vec![], t3: vec![] };
    for line in lines {
        let ws: Vec<&str> = line.split_whitespace().collect();
        match feed(&mut sc, &ws) {
            LineRes::Plain(r) => out.lines.push((line.clone(), r)),
            LineRes::GoC09 { mode_run, block, j, head } => {
                let o = exec_c09(&sc, mode_run, block, j);
                out.lines.push((format!("observe {head} || {}", o.log), o.verdict));
                out.t3.extend(o.t3);
            }
            LineRes::GoC10 { j, head } => {
                let o = exec_c10(&sc, j);
                out.lines.push((format!("observe {head} || {}", o.log), o.verdict));
                out.t3.extend(o.t3);
            }
            LineRes::Ident => {
                let o = exec_ident(&sc);
                out.lines.push((line.clone(), o.verdict));
                out.t3.extend(o.t3);
            }
            LineRes::SysArbGone(a, e) => match exec_sysarbgone(a, e) {
                Ok(v) => out.lines.push((line.clone(), v)),
                Err(msg) => {
                    out.t3.push(("C10".into(), msg));
                    out.lines.push((line.clone(), "sysarbgone=0".into()));
                }
            },
            LineRes::SysLive(r) => match exec_syslive(r) {
                Ok(v) => out.lines.push((line.clone(), v)),
                Err(e) => {
                    out.t3.push(("C10".into(), format!("system ids: {e}")));
                    out.lines.push((line.clone(), format!("syslive=bad rounds={r}")));
                }
            },
            LineRes::SysIds(t, r) => match exec_sysids(t, r) {
                Ok(v) => out.lines.push((line.clone(), v)),
                Err(e) => {
                    out.t3.push(("C10".into(), format!("system ids: {e}")));
                    out.lines.push((line.clone(), format!("sysids=bad threads={t} rounds={r}")));
                }
            },
            LineRes::BlockOn(v, p, x) => match exec_blockon(&v, p, x) {
                Ok(r) => {
                    if r != format!("out={x}") {
                        out.t3.push(("C10".into(), format!("block_on returned {r}, the future's output is {x}")));
                    }
                    out.lines.push((line.clone(), r));
                }
                Err(e) => {
                    out.t3.push(("C10".into(), format!("block_on: {e}")));
                    out.lines.push((line.clone(), e));
                }
            },
        }
    }
    out
}

fn run(a: &Args) {
    silence_panics();
    let mut rep = Report::new(&a.output);
    // split into cases
    let mut cases: Vec<Vec<String>> = vec![];
    for line in in_lines(&a.input) {
        if line.trim().is_empty() || line.starts_with('#') {
            continue;
        }
        if line.starts_with("case") || cases.is_empty() {
            cases.push(vec![]);
        }
        cases.last_mut().unwrap().push(line);
    }
    let n = cases.len();
    let cases = Arc::new(cases);
    let next = Arc::new(AtomicUsize::new(0));
    let results: Arc<Mutex<HashMap<usize, CaseOut>>> = Arc::new(Mutex::new(HashMap::new()));
    let env_n = |k: &str, d: usize| std::env::var(k).ok().and_then(|s| s.parse().ok()).unwrap_or(d);
    let workers = env_n("VERIF_RT_WORKERS", 6);
    // A run against defective code spends a watchdog period on every hanging scenario.  Scenarios are
    // started in input order; no new one is started once enough of them have failed their oracle
    // (the orchestrator shrinks the first few only) or the time budget is used up.  The scenarios not
    // run are left out of the output (and named in a note); on sound code neither limit is reached.
    let max_fail = env_n("VERIF_RT_MAX_FAIL", 10);
    let budget = Duration::from_secs(env_n("VERIF_RT_BUDGET_S", 420) as u64);
    let t_start = Instant::now();
    let failed = Arc::new(AtomicUsize::new(0));
    let mut ths = vec![];
    for _ in 0..workers.max(1) {
        let (cases, next, results, failed) = (cases.clone(), next.clone(), results.clone(), failed.clone());
        ths.push(thread::spawn(move || loop {
            if failed.load(Ordering::SeqCst) >= max_fail || t_start.elapsed() > budget {
                break;
            }
            let i = next.fetch_add(1, Ordering::SeqCst);
            if i >= cases.len() {
                break;
            }
            // each scenario on its own fresh thread: System::new installs thread-locals
            let cs = cases.clone();
            let h = thread::spawn(move || run_case(&cs[i]));
            let out = h.join().unwrap_or_else(|_| CaseOut {
                lines: cases[i].iter().map(|l| (l.clone(), "harness-panic".to_string())).collect(),
                t3: vec![],
            });
            if !out.t3.is_empty() {
                failed.fetch_add(1, Ordering::SeqCst);
            }
            results.lock().unwrap().insert(i, out);
        }));
    }
    for t in ths {
        let _ = t.join();
    }
    let mut results = results.lock().unwrap();
    let mut skipped = 0;
    for i in 0..n {
        let Some(out) = results.remove(&i) else {
            skipped += 1;
            continue;
        };
        for (op, real) in &out.lines {
            rep.obs(op, real);
        }
        for (p, m) in &out.t3 {
            rep.t3(p, m);
        }
    }
    if skipped > 0 {
        rep.note(&format!(
            "{skipped} of {n} scenarios not run: {} scenarios had failed their oracle / {:.0?} elapsed (limits {max_fail} / {budget:?})",
            failed.load(Ordering::SeqCst),
            t_start.elapsed()
        ));
    }
    rep.finish();
    // leaked threads of hung scenarios must not keep the process alive
    std::process::exit(0);
}

// -------------------------------------------------------------------------------------------------
// generators
// -------------------------------------------------------------------------------------------------

const KINDS9: [&str; 7] = ["early", "dropped", "running", "busy", "done", "feeding", "backlog"];

fn write_c09(w: &mut dyn Write, name: &str, kinds: &[usize], align: Option<usize>, stops: &[(String, i32, &str)], mode: &str, j: u64) {
    // (`name@flags`: flags for the case line)
    match name.split_once('@') {
        Some((n, f)) => writeln!(w, "case {n} c09 {f}").unwrap(),
        None => writeln!(w, "case {name} c09").unwrap(),
    }
    for k in kinds {
        writeln!(w, "arb {}", KINDS9[*k]).unwrap();
    }
    if let Some(k) = align {
        writeln!(w, "align {k}").unwrap();
    }
    for (i, (o, c, m)) in stops.iter().enumerate() {
        if i == 0 {
            writeln!(w, "stop {o} {c}").unwrap();
        } else {
            writeln!(w, "stop {o} {c} {m}").unwrap();
        }
    }
    writeln!(w, "go {mode} j={j}").unwrap();
}

/// origins a stop can come from: the system thread before `run`, a task on it, a foreign thread, a
/// task on an arbiter whose loop is running
fn origins_for(kinds: &[usize]) -> Vec<String> {
    let mut v = vec!["sys-pre".to_string(), "sys-task".to_string(), "foreign".to_string(), "osys".to_string(), "oarb".to_string()];
    for (k, kind) in kinds.iter().enumerate() {
        if *kind != 0 && *kind != 4 && *kind != 6 {
            v.push(format!("arb:{k}"));
        }
    }
    v
}

/// Directed scenarios (both tiers, in front): arbiters that stopped — and were joined — before the
/// stop while others live, with the process-wide counters shifted beforehand so that a live (or an
/// already stopped) arbiter's number equals the system's id.
fn directed_c09(w: &mut dyn Write, rng: &mut Rng, thorough: bool) {
    const E: usize = 0;
    const D: usize = 1;
    const R: usize = 2;
    const B: usize = 3;
    const X: usize = 4; // done
    let configs: [(&[usize], usize); 10] = [
        (&[R, X], 0),
        (&[X, R], 1),
        (&[R, E], 0),
        (&[B, X, R], 0),
        (&[X, R, B], 2),
        (&[D, X], 0),
        (&[E, D, R], 1),
        (&[R], 0),
        (&[X, X, R], 2),
        (&[X, R, R], 0),
    ];
    let mut n = 0;
    for (ci, (kinds, k)) in configs.iter().enumerate() {
        let origins = origins_for(kinds);
        let picks: Vec<usize> = if thorough { (0..origins.len()).collect() } else { vec![ci % 3, (ci + 1 + rng.below(2)) % origins.len()] };
        for oi in picks {
            let code = *rng.pick(&[0, 3, 7, -1, 65536, i32::MIN]);
            let mut stops = vec![(origins[oi].clone(), code, "seq")];
            if n % 3 == 2 {
                stops.push(("foreign".to_string(), 9, if n % 2 == 0 { "seq" } else { "race" }));
            }
            let mode = if n % 2 == 0 { "code" } else { "run" };
            write_c09(w, &format!("d{n}"), kinds, Some(*k), &stops, mode, rng.next() % 1_000_000);
            n += 1;
        }
    }
}

/// codes that identify the stop they came from: all different within a scenario
fn distinct_codes(rng: &mut Rng, n: usize, zero_first: bool) -> Vec<i32> {
    // small codes, and codes that do not survive a narrower integer on the way: beyond 8 / 16 bits, multiples of
    // 65 536 (whose low half is 0), the ends of the range
    let mut pool = vec![0, 1, 2, 3, 7, 9, -1, -3, 255, 42, -128, 256, 32768, 65536, 70000, -65536, -40000, 1 << 20, i32::MAX, i32::MIN];
    let mut v = vec![];
    if zero_first {
        v.push(pool.remove(0));
    }
    while v.len() < n {
        v.push(pool.remove(rng.below(pool.len())));
    }
    v
}

/// one `batch` scenario: `pattern` over {s, n}; `others`: 0 none, 1 a foreign stop sequenced after the
/// batch, 2 a foreign stop racing it, 3 a sequenced stop from another origin in front of it, 4 a stop
/// on the system thread in front of `run` racing it, 5 a later stop from a task on the system thread
fn write_batch_c09(w: &mut dyn Write, name: &str, rng: &mut Rng, kinds: &[usize], origin: &str, pattern: &str, others: usize, mode: &str, custom: bool) {
    let ns = pattern.bytes().filter(|b| *b == b's').count();
    let zero_first = mode == "run" && rng.chance(1, 2);
    let codes = distinct_codes(rng, ns + 1, zero_first);
    let (mut ci, extra) = (0, codes[ns]);
    let items: Vec<String> = pattern
        .bytes()
        .map(|b| {
            if b == b's' {
                ci += 1;
                format!("s{}", codes[ci - 1])
            } else if b == b'x' {
                "x".to_string()
            } else {
                format!("n{}", ["r", "r", "b", "d", "e", "f"][rng.below(6)])
            }
        })
        .collect();
    writeln!(w, "case {name} c09{}", if custom { " rt=custom" } else { "" }).unwrap();
    for k in kinds {
        writeln!(w, "arb {}", KINDS9[*k]).unwrap();
    }
    // a stop in front of the batch must not need the running system if the batch runs in front of `run`
    let front = if origin == "sys-pre" { "foreign" } else { ["foreign", "sys-task"][rng.below(2)] };
    // (the tasks that issue `sys-task` entries are handed to the system arbiter before anything runs, so a
    // stopped system arbiter does not keep them from issuing)
    match others {
        3 => writeln!(w, "stop {front} {extra}\nbatch {origin} {} seq", items.join(" ")).unwrap(),
        4 => writeln!(w, "stop sys-pre {extra}\nbatch {origin} {} race", items.join(" ")).unwrap(),
        _ => writeln!(w, "batch {origin} {}", items.join(" ")).unwrap(),
    }
    match others {
        1 => writeln!(w, "stop foreign {extra} seq").unwrap(),
        2 => writeln!(w, "stop foreign {extra} race").unwrap(),
        5 => writeln!(w, "stop sys-task {extra} race").unwrap(),
        _ => {}
    }
    if ns == 0 && !matches!(others, 1..=5) {
        writeln!(w, "stop foreign {extra} seq").unwrap();
    }
    writeln!(w, "go {mode} j={}", rng.next() % 1_000_000).unwrap();
}

/// Directed `batch` scenarios (both tiers, in front): message sequences queued before the controller
/// first runs / within one poll on the system thread / from an arbiter's thread; arbiters created
/// between two stops; three stops; `Arbiter::new` called on an arbiter thread.
fn directed_batch_c09(w: &mut dyn Write, rng: &mut Rng, thorough: bool) {
    const R: usize = 2;
    const B: usize = 3;
    const D: usize = 1;
    let n = std::cell::Cell::new(0usize);
    let one = |w: &mut dyn Write, rng: &mut Rng, kinds: &[usize], origin: &str, pattern: &str, others: usize| {
        let k = n.get();
        let mode = if k % 2 == 0 { "code" } else { "run" };
        write_batch_c09(w, &format!("b{k}"), rng, kinds, origin, pattern, others, mode, k % 5 == 4);
        n.set(k + 1);
    };
    // the history `stop; Arbiter::new; stop` and its neighbours, from every origin
    for (origin, kinds) in [("sys-pre", &[][..]), ("sys-task", &[][..]), ("sys-pre", &[R][..]), ("sys-task", &[B][..]), ("arb:0", &[R][..]), ("arb:1", &[D, B][..])] {
        for pattern in ["sns", "snns", "ns", "sn", "sss", "nsns"] {
            if !thorough && n.get() >= 12 && rng.chance(1, 2) {
                continue;
            }
            one(w, rng, kinds, origin, pattern, 0);
        }
    }
    for (origin, kinds) in [("sys-pre", &[R][..]), ("sys-task", &[R][..]), ("arb:0", &[B, R][..])] {
        for others in 1..=5usize {
            for pattern in ["sns", "nn", "n", "ssn"] {
                if !thorough && !rng.chance(1, 3) {
                    continue;
                }
                one(w, rng, kinds, origin, pattern, others);
            }
        }
    }
    if thorough {
        // every pattern of length ≤ 4 over {s, n} with at most two `n`, every origin, every neighbourhood
        for rep in 0..2 {
            for len in 1..=4usize {
                for code in 0..(1usize << len) {
                    let pattern: String = (0..len).map(|i| if (code >> i) & 1 == 0 { 's' } else { 'n' }).collect();
                    if pattern.bytes().filter(|b| *b == b'n').count() > 2 {
                        continue;
                    }
                    for (oi, origin) in ["sys-pre", "sys-task", "arb:0"].iter().enumerate() {
                        for others in 0..=5usize {
                            let kinds: Vec<usize> = match (oi, (rep + code + others) % 3) {
                                (2, 0) => vec![R],
                                (2, _) => vec![B, rng.below(5)],
                                (_, 0) => vec![],
                                (_, 1) => vec![rng.below(5)],
                                _ => vec![R, rng.below(5)],
                            };
                            one(w, rng, &kinds, origin, &pattern, others);
                        }
                    }
                }
            }
        }
    }
}

/// Directed `rt=slow` scenarios (both tiers, in front): `Arbiter::with_tokio_rt` with a runtime factory that
/// takes its time on the new thread — the constructor must not return before the arbiter is registered,
/// so a stop issued right after it reaches that arbiter too.
fn directed_slow_c09(w: &mut dyn Write, rng: &mut Rng, thorough: bool) {
    let mut n = 0;
    let mut case = |w: &mut dyn Write, rng: &mut Rng, lines: &[&str], mode: &str| {
        writeln!(w, "case s{n} c09 rt=slow").unwrap();
        n += 1;
        for l in lines {
            writeln!(w, "{l}").unwrap();
        }
        writeln!(w, "go {mode} j={}", rng.next() % 1_000_000).unwrap();
    };
    case(w, rng, &["arb running", "stop sys-pre 3"], "code");
    case(w, rng, &["arb busy", "arb running", "stop foreign 0"], "run");
    case(w, rng, &["batch sys-pre nr s1"], "code");
    case(w, rng, &["arb dropped", "batch sys-task nr s2 nd s5"], "run");
    if thorough {
        for kinds in [&["running"][..], &["dropped"], &["busy"], &["early", "running"], &["done", "busy"], &["running", "dropped", "running"]] {
            for origin in ["sys-pre", "sys-task", "foreign", "arb:0"] {
                if origin == "arb:0" && matches!(kinds[0], "early" | "done") {
                    continue;
                }
                let mut lines: Vec<String> = kinds.iter().map(|k| format!("arb {k}")).collect();
                lines.push(format!("stop {origin} {}", *rng.pick(&[0, 4, -2])));
                let ls: Vec<&str> = lines.iter().map(|x| x.as_str()).collect();
                let mode = if rng.chance(1, 2) { "code" } else { "run" };
                case(w, rng, &ls, mode);
            }
        }
        for origin in ["sys-pre", "sys-task", "arb:0"] {
            for items in ["nr s1", "nd s1 nr s2", "s1 nr s2", "nb nr s7"] {
                let mut lines = vec![];
                if origin == "arb:0" {
                    lines.push("arb running".to_string());
                }
                lines.push(format!("batch {origin} {items}"));
                let ls: Vec<&str> = lines.iter().map(|x| x.as_str()).collect();
                case(w, rng, &ls, "code");
            }
        }
    }
}

/// Directed scenarios over the width of the exit code (both tiers, in front): `stop_with_code(c)` makes
/// `run_with_code` return exactly `c` for every `i32`, and `run` fail for every non-zero one — also where a
/// narrower integer on the way would have lost it.
fn directed_codes_c09(w: &mut dyn Write, rng: &mut Rng, thorough: bool) {
    let codes: &[i32] = if thorough {
        &[65536, 32768, -32769, 70000, i32::MAX, i32::MIN, -65536, 1 << 20, 1 << 24, -(1 << 30), 256, -129, 131072, 2147418112, 65535]
    } else {
        &[65536, 32768, i32::MAX, i32::MIN, -131072, 70000]
    };
    for (i, c) in codes.iter().enumerate() {
        let origin = ["sys-pre", "foreign", "sys-task", "arb:0"][i % 4];
        writeln!(w, "case c{i} c09\narb running\nstop {origin} {c}\ngo {} j={}", if i % 2 == 0 { "run" } else { "code" }, rng.next() % 1_000_000).unwrap();
    }
    // two wide codes racing / in a row: the first one, exactly
    writeln!(w, "case c{} c09\nstop foreign 65536\nstop sys-task 131072 race\ngo run j={}", codes.len(), rng.next() % 1_000_000).unwrap();
    writeln!(w, "case c{} c09\narb busy\nbatch sys-pre s-65536 nr s2147483647\ngo code j={}", codes.len() + 1, rng.next() % 1_000_000).unwrap();
}

/// Directed scenarios (both tiers, in front): the SYSTEM ARBITER is stopped first (`x`) — from the system thread
/// in front of `run`, from a task on it, from an arbiter, from a foreign thread — and the system is stopped
/// afterwards: the stop goes to the controller, not through the system arbiter, so the code is delivered and
/// every arbiter is stopped all the same.
fn directed_sysarb_stop_c09(w: &mut dyn Write, rng: &mut Rng, thorough: bool) {
    const R: usize = 2;
    const B: usize = 3;
    let mut n = 0;
    let mut one = |w: &mut dyn Write, rng: &mut Rng, kinds: &[usize], origin: &str, pattern: &str, others: usize| {
        write_batch_c09(w, &format!("y{n}"), rng, kinds, origin, pattern, others, if n % 2 == 0 { "code" } else { "run" }, false);
        n += 1;
    };
    one(w, rng, &[R], "sys-pre", "xs", 0);
    one(w, rng, &[B, R], "foreign", "xs", 0);
    one(w, rng, &[R], "sys-task", "xs", 0);
    one(w, rng, &[R], "arb:0", "xs", 0);
    one(w, rng, &[R], "foreign", "x", 1);
    one(w, rng, &[], "sys-pre", "xsns", 0);
    if thorough {
        for (oi, origin) in ["sys-pre", "sys-task", "arb:0", "foreign"].iter().enumerate() {
            for pattern in ["xs", "x", "sxs", "xss", "xns", "nxs", "xsns", "xx"] {
                if *origin == "foreign" && pattern.contains('n') {
                    continue;
                }
                for others in 0..=5usize {
                    if !pattern.contains('s') && others == 0 {
                        continue;
                    }
                    let kinds: Vec<usize> = if oi == 2 { vec![[R, B][others % 2], rng.below(5)] } else { (0..others % 3).map(|_| rng.below(5)).collect() };
                    one(w, rng, &kinds, origin, pattern, others);
                }
            }
        }
    }
}

/// Directed scenarios (both tiers, in front) in which the system is driven by `SystemRunner::block_on` — the
/// entry point of `#[actix_rt::main]` / `#[actix_rt::test]` — with a future that lasts until the harness ends
/// it: a stop issued meanwhile (from the future itself, a task on the system thread, an arbiter, a foreign
/// thread, or queued in front of `block_on`) stops every arbiter while `block_on` is still running, and
/// `run_with_code` on the same runner returns the first code afterwards.  `j` bits 4 / 5 choose whether the
/// system thread's entries are issued by tasks or by the future itself, and whether the arbiters are created
/// in front of `block_on` or inside the future.
fn directed_block_c09(w: &mut dyn Write, rng: &mut Rng, thorough: bool) {
    let mut n = 0;
    let mut case = |w: &mut dyn Write, rng: &mut Rng, flags: &str, lines: &[&str], flavour: u64| {
        writeln!(w, "case k{n} c09{flags}").unwrap();
        n += 1;
        for l in lines {
            writeln!(w, "{l}").unwrap();
        }
        writeln!(w, "go block j={}", (rng.next() % 10_000) * 64 + flavour * 16 + rng.below(16) as u64).unwrap();
    };
    case(w, rng, "", &["arb running", "arb busy", "stop arb:0 7", "stop sys-task 9 seq"], 0);
    case(w, rng, "", &["arb running", "stop sys-task 3"], 1);
    case(w, rng, "", &["arb running", "arb dropped", "stop foreign 65536"], 2);
    case(w, rng, "", &["arb busy", "stop sys-pre 5", "stop sys-task 6 race"], 3);
    case(w, rng, "", &["arb running", "batch sys-task x s4", "stop foreign 1 seq"], 2);
    case(w, rng, " rt=custom", &["arb early", "arb running", "stop sys-pre 2", "stop arb:1 8 race"], 1);
    if thorough {
        for flavour in 0..4u64 {
            for kinds in [&[][..], &["running"], &["busy", "dropped"], &["done", "running", "early"], &["running", "running", "busy"]] {
                for origin in ["sys-pre", "sys-task", "foreign", "arb:0"] {
                    if origin == "arb:0" && (kinds.is_empty() || kinds[0] == "done") {
                        continue;
                    }
                    let mut lines: Vec<String> = kinds.iter().map(|k| format!("arb {k}")).collect();
                    let codes = distinct_codes(rng, 3, false);
                    lines.push(format!("stop {origin} {}", codes[0]));
                    match rng.below(4) {
                        0 => lines.push(format!("stop foreign {} seq", codes[1])),
                        1 => lines.push(format!("stop sys-task {} race", codes[1])),
                        2 => lines.push(format!("batch sys-task s{} x s{} race", codes[1], codes[2])),
                        _ => {}
                    }
                    let ls: Vec<&str> = lines.iter().map(|x| x.as_str()).collect();
                    case(w, rng, if flavour == 3 { " rt=custom" } else { "" }, &ls, flavour);
                }
            }
        }
    }
}

/// Directed scenarios (both tiers, in front) with `feeding` arbiters — busy with a task that never completes
/// and owns what a `spawn_blocking` helper on the same runtime waits for — and / or such a task on the system
/// arbiter (`sysfeed`): after the stop the loops end AND the threads finish (join / run return within the
/// watchdog): at teardown the pending local tasks go before the runtime waits for its blocking pool.
fn directed_feeding_c09(w: &mut dyn Write, rng: &mut Rng, thorough: bool) {
    let mut n = 0;
    let mut case = |w: &mut dyn Write, rng: &mut Rng, flags: &str, lines: &[&str], mode: &str| {
        writeln!(w, "case f{n} c09{flags}").unwrap();
        n += 1;
        for l in lines {
            writeln!(w, "{l}").unwrap();
        }
        writeln!(w, "go {mode} j={}", rng.next() % 1_000_000).unwrap();
    };
    case(w, rng, "", &["arb feeding", "stop foreign 3"], "code");
    case(w, rng, " rt=custom", &["arb running", "arb feeding", "stop arb:1 0"], "run");
    case(w, rng, "", &["arb running", "sysfeed", "stop sys-task 7"], "code");
    case(w, rng, "", &["sysfeed", "batch sys-pre s1 nf s2"], "code");
    case(w, rng, "", &["arb feeding", "sysfeed", "stop sys-task 4"], "block");
    if thorough {
        for flags in ["", " rt=custom"] {
            for sysfeed in [false, true] {
                for kinds in [&["feeding"][..], &["feeding", "feeding"], &["busy", "feeding", "early"], &["done", "feeding"], &["dropped", "running"]] {
                    for origin in ["sys-pre", "sys-task", "foreign", "arb:0", "arb:1"] {
                        let k = origin.strip_prefix("arb:").and_then(|x| x.parse::<usize>().ok());
                        if k.map(|k| k >= kinds.len() || matches!(kinds[k], "early" | "done")).unwrap_or(false) {
                            continue;
                        }
                        if !sysfeed && !kinds.contains(&"feeding") {
                            continue;
                        }
                        let mut lines: Vec<String> = kinds.iter().map(|k| format!("arb {k}")).collect();
                        if sysfeed {
                            lines.push("sysfeed".into());
                        }
                        lines.push(format!("stop {origin} {}", *rng.pick(&[0, 6, -9, 65536])));
                        let ls: Vec<&str> = lines.iter().map(|x| x.as_str()).collect();
                        let mode = *rng.pick(&["code", "run", "block"]);
                        case(w, rng, flags, &ls, mode);
                    }
                }
            }
        }
        for origin in ["sys-pre", "sys-task", "arb:0"] {
            for items in ["nf s1", "s1 nf s2", "nf nf s3", "s1 nf x s2"] {
                let mut lines = vec!["arb feeding".to_string()];
                lines.push(format!("batch {origin} {items}"));
                let ls: Vec<&str> = lines.iter().map(|x| x.as_str()).collect();
                case(w, rng, "", &ls, "run");
            }
        }
    }
}

/// one scenario with 3–6 arbiters of which `retire` (an ordered subset of the live ones) stop and are joined
/// once all exist; the stop comes from `origin` (an `arb:k` that is alive then)
fn write_retire_c09(w: &mut dyn Write, name: &str, rng: &mut Rng, kinds: &[usize], retire: &[usize], origin: &str, mode: &str) {
    writeln!(w, "case {name} c09").unwrap();
    for k in kinds {
        if *k == 6 && rng.chance(2, 3) {
            // (one less than a multiple of 32 half of the time: with the system's `Stop` a whole number of 32s)
            let q = if rng.chance(1, 2) { 32 * rng.range(1, 36) - 1 } else { rng.range(1, 1200) };
            writeln!(w, "arb backlog:{q}").unwrap();
        } else {
            writeln!(w, "arb {}", KINDS9[*k]).unwrap();
        }
    }
    if rng.chance(1, 4) {
        writeln!(w, "sysload {}", *rng.pick(&[58, 60, 61, 62, 64, 130, 500])).unwrap();
    }
    if !retire.is_empty() {
        writeln!(w, "retire {}", retire.iter().map(|x| x.to_string()).collect::<Vec<_>>().join(" ")).unwrap();
    }
    let codes = distinct_codes(rng, 2, false);
    writeln!(w, "stop {origin} {}", codes[0]).unwrap();
    if rng.chance(1, 3) {
        writeln!(w, "stop foreign {} {}", codes[1], ["seq", "race"][rng.below(2)]).unwrap();
    }
    writeln!(w, "go {mode} j={}", rng.next() % 1_000_000).unwrap();
}

/// Directed scenarios (both tiers, in front): (a) `backlog` arbiters — the thread inside a task when the
/// system is stopped, 1100 accepted commands queued behind it: the system's `Stop` queues up too and the
/// arbiter ends; (b) `retire`: of 3–6 arbiters some stop and are joined, in any order, before the system is
/// stopped: their `Deregister`s take exactly them out of the registry, every other arbiter is stopped.
fn directed_backlog_retire_c09(w: &mut dyn Write, rng: &mut Rng, thorough: bool) {
    const R: usize = 2;
    const B: usize = 3;
    const F: usize = 5;
    const K: usize = 6;
    let mut n = 0;
    let mut one = |w: &mut dyn Write, rng: &mut Rng, kinds: &[usize], retire: &[usize], origin: &str, mode: &str| {
        write_retire_c09(w, &format!("z{n}"), rng, kinds, retire, origin, mode);
        n += 1;
    };
    one(w, rng, &[K], &[], "foreign", "code");
    one(w, rng, &[R, K], &[], "sys-pre", "run");
    one(w, rng, &[R, R, R], &[0, 1], "sys-pre", "code");
    one(w, rng, &[R, B, R, R], &[0, 2], "foreign", "run");
    one(w, rng, &[R, R, F, R, R], &[1, 0, 3], "arb:4", "code");
    one(w, rng, &[B, R, R, K, R, R], &[0, 1, 2, 4], "sys-task", "block");
    writeln!(w, "case z{} c09\narb running\nbatch sys-pre s1 nk s2\ngo code j={}", 6, rng.next() % 1_000_000).unwrap();
    if thorough {
        // every ordered subset of 3 and of 4 live arbiters
        for na in [3usize, 4] {
            let mut subsets: Vec<Vec<usize>> = vec![vec![]];
            let mut frontier: Vec<Vec<usize>> = vec![vec![]];
            for _ in 0..na {
                let mut next = vec![];
                for p in &frontier {
                    for k in 0..na {
                        if !p.contains(&k) {
                            let mut q = p.clone();
                            q.push(k);
                            next.push(q);
                        }
                    }
                }
                subsets.extend(next.iter().cloned());
                frontier = next;
            }
            for (i, sub) in subsets.iter().enumerate() {
                let kinds: Vec<usize> = (0..na).map(|k| [R, R, B, F][(k + i) % 4]).collect();
                let alive: Vec<usize> = (0..na).filter(|k| !sub.contains(k)).collect();
                let origin = match (i % 4, alive.first()) {
                    (3, Some(k)) => format!("arb:{k}"),
                    (x, _) => ["sys-pre", "foreign", "sys-task", "sys-pre"][x].to_string(),
                };
                one(w, rng, &kinds, sub, &origin, ["code", "run", "block"][i % 3]);
            }
        }
        for kinds in [&[K, K][..], &[K, R, K], &[B, K, F]] {
            for origin in ["sys-pre", "sys-task", "foreign"] {
                one(w, rng, kinds, &[], origin, "code");
            }
        }
    }
}

/// Directed scenarios (both tiers, in front): (a) `sysload N` — the system thread has N local tasks that are
/// runnable all the time when the `Exit` is handled (N around the 61 tasks a LocalSet runs per turn, and far
/// beyond): the controller stops the arbiters there and then, so they end whatever else is queued on that
/// thread; (b) `backlog:N` with N + 1 (the system's `Stop`) a multiple of 32 / around other powers of two:
/// whatever batches the runner takes commands in, none is lost — least of all the `Stop`.
fn directed_load_c09(w: &mut dyn Write, rng: &mut Rng, thorough: bool) {
    let mut n = 0;
    let mut case = |w: &mut dyn Write, rng: &mut Rng, lines: &[String], mode: &str| {
        writeln!(w, "case l{n} c09").unwrap();
        n += 1;
        for l in lines {
            writeln!(w, "{l}").unwrap();
        }
        writeln!(w, "go {mode} j={}", rng.next() % 1_000_000).unwrap();
    };
    let s = |x: &str| x.to_string();
    let loads: &[usize] = if thorough { &[0, 1, 59, 60, 61, 62, 63, 122, 200, 1000, 2000] } else { &[200, 61, 1000, 60] };
    for (i, q) in loads.iter().enumerate() {
        let origins: &[&str] = if thorough { &["sys-pre", "foreign", "sys-task", "arb:0"] } else { &[["sys-pre", "foreign", "sys-task", "arb:0"][i % 4]] };
        for (k, o) in origins.iter().enumerate() {
            let code = *rng.pick(&[7, 0, -2, 65536]);
            case(w, rng, &[s("arb running"), s("arb busy"), s("arb running"), format!("sysload {q}"), format!("stop {o} {code}")], ["code", "run", "block"][(i + k) % 3]);
        }
    }
    let sizes: &[[usize; 3]] = if thorough {
        &[[31, 63, 95], [32, 64, 96], [15, 16, 17], [127, 128, 255], [1023, 1119, 1100], [1, 2, 33], [30, 62, 1055], [159, 191, 1600]]
    } else {
        &[[31, 63, 95], [32, 15, 127]]
    };
    for (i, t) in sizes.iter().enumerate() {
        let o = ["foreign", "sys-pre", "sys-task"][i % 3];
        case(w, rng, &[format!("arb backlog:{}", t[0]), format!("arb backlog:{}", t[1]), format!("arb backlog:{}", t[2]), format!("stop {o} {}", 3 + i)], ["code", "run"][i % 2]);
        if thorough || i == 0 {
            case(w, rng, &[s("arb running"), format!("batch sys-pre s1 nk:{} s2", t[0])], "code");
        }
    }
}

/// Directed scenarios (both tiers, in front) with a bystander System: the stop is issued by a task on the
/// system arbiter (`osys`) or on a worker arbiter (`oarb`) of ANOTHER System, through a handle of this one —
/// this system's `run` returns the code and exactly its arbiters stop; the other System, and the arbiter the
/// call was made from, go on.
fn directed_other_c09(w: &mut dyn Write, rng: &mut Rng, thorough: bool) {
    let mut n = 0;
    let mut case = |w: &mut dyn Write, rng: &mut Rng, lines: &[&str], mode: &str| {
        writeln!(w, "case o{n} c09").unwrap();
        n += 1;
        for l in lines {
            writeln!(w, "{l}").unwrap();
        }
        writeln!(w, "go {mode} j={}", rng.next() % 1_000_000).unwrap();
    };
    case(w, rng, &["arb running", "stop osys 7"], "code");
    case(w, rng, &["arb busy", "arb running", "stop oarb 0", "stop osys 4 race"], "run");
    case(w, rng, &["arb running", "batch oarb x s3 s5", "stop arb:0 9 seq"], "block");
    if thorough {
        for o in ["osys", "oarb"] {
            for kinds in [&[][..], &["running"], &["busy", "dropped", "feeding"], &["early", "running"]] {
                for second in ["", "stop foreign 9 seq", "stop sys-task 8 race", "stop oarb 6 race", "stop osys 5 seq"] {
                    let mut lines: Vec<String> = kinds.iter().map(|k| format!("arb {k}")).collect();
                    lines.push(format!("stop {o} {}", *rng.pick(&[0, 3, -4, 65536])));
                    if !second.is_empty() {
                        lines.push(second.to_string());
                    }
                    let ls: Vec<&str> = lines.iter().map(|x| x.as_str()).collect();
                    let mode = *rng.pick(&["code", "run", "block"]);
                    case(w, rng, &ls, mode);
                }
            }
        }
    }
}

/// Directed scenarios (both tiers, in front) with `rt=multi`: `System::with_tokio_rt` / `Arbiter::with_tokio_rt`
/// are handed MULTI-THREAD Tokio runtimes; the system and its arbiters behave as ever.
fn directed_multi_c09(w: &mut dyn Write, rng: &mut Rng, thorough: bool) {
    let mut n = 0;
    let mut case = |w: &mut dyn Write, rng: &mut Rng, lines: &[&str], mode: &str| {
        writeln!(w, "case m{n} c09 rt=multi").unwrap();
        n += 1;
        for l in lines {
            writeln!(w, "{l}").unwrap();
        }
        writeln!(w, "go {mode} j={}", rng.next() % 1_000_000).unwrap();
    };
    case(w, rng, &["arb running", "arb busy", "stop arb:1 7"], "code");
    case(w, rng, &["arb feeding", "arb backlog:63", "batch sys-task s0 nr s4"], "run");
    case(w, rng, &["arb running", "arb early", "sysfeed", "stop foreign 3"], "block");
    if thorough {
        for kinds in [&[][..], &["running"], &["busy", "done"], &["dropped", "feeding", "backlog:31"], &["running", "running", "running", "early"]] {
            for o in ["sys-pre", "sys-task", "foreign", "arb:0", "osys"] {
                if o == "arb:0" && kinds.is_empty() {
                    continue;
                }
                let mut lines: Vec<String> = kinds.iter().map(|k| format!("arb {k}")).collect();
                lines.push(format!("stop {o} {}", *rng.pick(&[0, 2, -8])));
                let ls: Vec<&str> = lines.iter().map(|x| x.as_str()).collect();
                let mode = *rng.pick(&["code", "run", "block"]);
                case(w, rng, &ls, mode);
            }
        }
    }
}

fn gen_c09(a: &Args, w: &mut dyn Write) {
    let mut rng = Rng::new(a.seed ^ 0xC09);
    directed_multi_c09(w, &mut rng, a.tier == "thorough");
    directed_other_c09(w, &mut rng, a.tier == "thorough");
    directed_load_c09(w, &mut rng, a.tier == "thorough");
    directed_backlog_retire_c09(w, &mut rng, a.tier == "thorough");
    directed_feeding_c09(w, &mut rng, a.tier == "thorough");
    directed_block_c09(w, &mut rng, a.tier == "thorough");
    directed_sysarb_stop_c09(w, &mut rng, a.tier == "thorough");
    directed_codes_c09(w, &mut rng, a.tier == "thorough");
    directed_slow_c09(w, &mut rng, a.tier == "thorough");
    directed_batch_c09(w, &mut rng, a.tier == "thorough");
    directed_c09(w, &mut rng, a.tier == "thorough");
    if a.tier == "thorough" {
        // the whole space: 0..3 arbiters × kinds × origin × code × 1–2 stops, 3 repetitions
        let mut n = 0;
        for rep in 0..3u64 {
            for na in 0..=3usize {
                for kc in 0..5usize.pow(na as u32) {
                    let kinds: Vec<usize> = (0..na).map(|i| (kc / 5usize.pow(i as u32)) % 5).collect();
                    let origins = origins_for(&kinds);
                    for (oi, o) in origins.iter().enumerate() {
                        // (stops issued from another System's arbiters: in the first repetition only)
                        if rep > 0 && (o == "osys" || o == "oarb") {
                            continue;
                        }
                        for code in [0, 7] {
                            for two in [false, true] {
                                let mut stops = vec![(o.clone(), code, "seq")];
                                if two {
                                    let o2 = origins[(oi + 1 + rng.below(origins.len())) % origins.len()].clone();
                                    let m = if rng.chance(1, 2) { "seq" } else { "race" };
                                    if m == "seq" && o2 == "sys-pre" && o == "sys-task" {
                                        stops.push((o2, if code == 0 { 9 } else { 0 }, "race"));
                                    } else {
                                        stops.push((o2, if code == 0 { 9 } else { 0 }, m));
                                    }
                                }
                                let mode = if (n + rep as usize) % 5 == 4 { "block" } else if (n + rep as usize) % 2 == 0 { "code" } else { "run" };
                                // two thirds with an arbiter's number aligned to the system id, spread evenly
                                // (so the counters never drift far apart and shifting them stays cheap)
                                let align = if (n + rep as usize) % 3 == 0 || na == 0 { None } else { Some((rep as usize + kc + oi) % na) };
                                write_c09(w, &format!("x{n}"), &kinds, align, &stops, mode, rng.next() % 1_000_000);
                                n += 1;
                            }
                        }
                    }
                }
            }
        }
    } else {
        for n in 0..72 {
            let na = [0, 1, 2, 2, 3, 3][rng.below(6)];
            let kinds: Vec<usize> = (0..na).map(|_| rng.below(7)).collect();
            let origins = origins_for(&kinds);
            let o = rng.pick(&origins).clone();
            let code = *rng.pick(&[0, 7, 7, -3, 255, 65536, 32768, i32::MAX, -131072]);
            let mut stops = vec![(o.clone(), code, "seq")];
            if rng.chance(1, 2) {
                let o2 = rng.pick(&origins).clone();
                let mut m = if rng.chance(1, 2) { "seq" } else { "race" };
                if m == "seq" && o2 == "sys-pre" && o == "sys-task" {
                    m = "race";
                }
                stops.push((o2, *rng.pick(&[0, 9, 1, 70000]), m));
            }
            if stops.len() == 2 && rng.chance(1, 3) {
                // a third stop
                let o3 = rng.pick(&origins).clone();
                let sys_task_in_front = stops.iter().any(|s| s.0 == "sys-task");
                let m = if o3 == "sys-pre" && sys_task_in_front { "race" } else { ["seq", "race"][rng.below(2)] };
                stops.push((o3, *rng.pick(&[5, -7, 0]), m));
            }
            let mode = *rng.pick(&["code", "run", "code", "run", "block"]);
            let align = if na > 0 && rng.chance(1, 3) { Some(rng.below(na)) } else { None };
            let flags = ["", "", "", "", "", "@rt=custom", "@rt=multi", "@rt=multi"][rng.below(8)];
            write_c09(w, &format!("q{n}{flags}"), &kinds, align, &stops, mode, rng.next() % 1_000_000);
        }
        // seeded batches
        for n in 0..24 {
            let origin = ["sys-pre", "sys-task", "arb:0", "foreign"][rng.below(4)];
            let mut kinds: Vec<usize> = (0..rng.below(3)).map(|_| rng.below(5)).collect();
            if origin == "arb:0" {
                kinds.insert(0, [1, 2, 3][rng.below(3)]);
                kinds.truncate(3);
            }
            let len = rng.range(1, 5);
            let mut pattern = String::new();
            for _ in 0..len {
                let nn = pattern.bytes().filter(|b| *b == b'n').count();
                pattern.push(if rng.chance(1, 8) { 'x' } else if nn < 2 && origin != "foreign" && rng.chance(2, 5) { 'n' } else { 's' });
            }
            let mode = if !pattern.contains('n') && rng.chance(1, 3) { "block" } else if rng.chance(1, 2) { "code" } else { "run" };
            let (others, custom) = (rng.below(6), rng.chance(1, 6));
            write_batch_c09(w, &format!("qb{n}"), &mut rng, &kinds, origin, &pattern, others, mode, custom);
        }
    }
    // seeded: 3–6 arbiters, a random ordered subset of the live ones retired
    for n in 0..(if a.tier == "thorough" { 200 } else { 20 }) {
        let na = rng.range(3, 7);
        let kinds: Vec<usize> = (0..na).map(|_| [2, 2, 2, 3, 5, 1, 0, 6][rng.below(8)]).collect();
        let mut live: Vec<usize> = (0..na).filter(|k| matches!(kinds[*k], 2 | 3 | 5)).collect();
        let mut retire = vec![];
        let want = if live.is_empty() { 0 } else { rng.below(live.len() + 1) };
        for _ in 0..want {
            retire.push(live.remove(rng.below(live.len())));
        }
        let mut origins = vec!["sys-pre".to_string(), "sys-task".to_string(), "foreign".to_string()];
        origins.extend(live.iter().map(|k| format!("arb:{k}")));
        let origin = rng.pick(&origins).clone();
        let mode = *rng.pick(&["code", "run", "block"]);
        write_retire_c09(w, &format!("qr{n}"), &mut rng, &kinds, &retire, &origin, mode);
    }
    // malformed / not applicable: answered `bad-op` identically by both sides
    writeln!(w, "case bad1 c09\narb early\nstop arb:0 7\nstop arb:3 7\narb idle\ngo code j=1\nstop sys-pre x\nstop sys-task 1\nstop sys-pre 2 seq\nstop sys-pre 2 race\nstop foreign 3\narb running\ngo walk j=1\ngo code j=5\ngo code j=6").unwrap();
    writeln!(w, "case bad2 c09\narb running\narb running\narb running\narb running\nspawn 0 own fn\ngo code").unwrap();
    writeln!(w, "case bad3\narb running\nstop sys-pre 0\ngo code j=0").unwrap();
    writeln!(w, "case bad4 c09\nalign 0\narb done\nalign 1\nalign x\nalign 0\nalign 0\narb running\nstop arb:0 1\nstop foreign 1\nalign 0\ngo code j=2").unwrap();
    writeln!(w, "case bad5 c09 rt=custom\narb running\nbatch\nbatch foreign s1\nbatch sys-pre\nbatch sys-pre seq\nbatch arb:1 s1\nbatch sys-pre s1 nx\nbatch sys-pre sx\nbatch sys-pre s1 s2 s3 s4 s5 s6\nbatch sys-pre nr nr nr\nbatch sys-pre nr seq race\nbatch sys-pre nr\ngo code j=1\nbatch sys-task s1\nstop sys-task 1\nstop sys-pre 2 seq\nstop sys-pre 3 race\nstop foreign 4\ngo code j=3").unwrap();
    writeln!(w, "case bad13 c09\nbatch osys nr s1\nbatch oarb s1 nd\nstop other 1\nstop oarb 2\nstop osys 3 seq\nstop oarb 4 race\nstop osys 5\ngo code j=13").unwrap();
    writeln!(w, "case bad12 c09\narb backlog:0\narb backlog:1601\narb backlog:\narb backlog:31\nsysload x\nsysload 2001\nsysload 61\nsysload 61\nbatch sys-pre nk:0 s1\nbatch sys-pre nk:32 s1\nstop arb:0 3\nsysload 5\ngo code j=12").unwrap();
    writeln!(w, "case bad11 c09\narb running\narb early\narb running\narb backlog\nretire 1\nretire 3\nretire 0 0\nretire 0 9\nretire\nretire 2\nretire 0\narb running\nstop arb:2 1\nstop arb:3 1\nstop arb:0 4\nretire 0\ngo code j=11").unwrap();
    writeln!(w, "case bad10 c09\nsysfeed\nsysfeed\narb feeding\narb feed\nbatch sys-pre nf nx s1\nbatch sys-pre nf s1\nsysfeed\ngo code j=2").unwrap();
    writeln!(w, "case bad9 c09\narb running\nbatch sys-pre nr s1\ngo block j=1\ngo blok j=1\ngo block\ngo run j=2\ngo block j=3").unwrap();
    writeln!(w, "case bad8 c09\nbatch foreign nr s1\nbatch foreign x nr\nbatch sys-pre xx\nbatch sys-pre X\nbatch foreign x\ngo code j=9\nstop sys-task 3\ngo code j=9").unwrap();
    writeln!(w, "case bad7 c09\nstop foreign 2147483648\nstop foreign -2147483649\nstop foreign 12345678901\nstop foreign --1\nstop foreign -\nbatch sys-pre s2147483648\nstop foreign -2147483648\nstop foreign 2147483647\ngo code j=8").unwrap();
    writeln!(w, "case bad6 c09\narb running\nalign 0\nbatch sys-pre s1 nr\nbatch sys-pre s1 s-2\nbatch sys-pre s2\nstop sys-task 5\nstop sys-pre 6 race\nstop sys-pre 7\ngo run j=4").unwrap();
}

const KINDS10: [&str; 8] = ["fn", "fut", "pend", "yield", "sleep", "panic", "fnpanic", "block"];
const VIAS: [&str; 3] = ["own", "h1", "h2"];

/// Directed C10 scenarios (both tiers, in front).
fn directed_c10(w: &mut dyn Write, rng: &mut Rng, n: &mut usize, thorough: bool) {
    let mut case = |w: &mut dyn Write, lines: &[String], rng: &mut Rng| {
        // a first line `@flags` goes onto the case line
        let (flags, lines) = match lines.first() {
            Some(f) if f.starts_with('@') => (format!(" {}", &f[1..]), &lines[1..]),
            _ => (String::new(), lines),
        };
        writeln!(w, "case d{} c10{flags}", *n).unwrap();
        *n += 1;
        for l in lines {
            writeln!(w, "{l}").unwrap();
        }
        if !lines.last().map(|l| l == "ident" || l.starts_with("sysids") || l.starts_with("syslive") || l.starts_with("sysarbgone") || l.starts_with("go ")).unwrap_or(false) {
            writeln!(w, "go j={}", rng.next() % 1_000_000).unwrap();
        }
    };
    let s = |x: &str| x.to_string();
    // (0) a task running ON an arbiter sends while its thread is held: to its own arbiter through
    // `Arbiter::current()` (`c0`) or a captured handle (`t0`), behind commands / a stop other threads
    // have already sent; to another arbiter; stopping its own arbiter
    // (00000000) exactly 32 / 64 commands (or 31 / 63 and a stop) found in one go behind a held thread: whatever
    // batches the runner takes them in, every command in front of the stop starts and the stop is obeyed
    case(w, &[s("arb"), s("spawn 0 own gate"), s("wait t0"), s("spawnn 0 own fn 32"), s("open t0"), s("wait t32"), s("stop 0 own")], rng);
    case(w, &[s("arb"), s("spawn 0 h1 gate"), s("wait t0"), s("spawnn 0 h2 fut 31"), s("stop 0 own"), s("open t0")], rng);
    if thorough {
        for q in [15usize, 16, 31, 32, 33, 63, 64, 95, 96, 127, 128, 255, 256] {
            for tgt in ["arb", "sysarb"] {
                case(w, &[s(tgt), s("spawn 0 own gate"), s("wait t0"), format!("spawnn 0 h1 fn {q}"), s("open t0"), format!("wait t{q}"), s("stop 0 own")], rng);
                case(w, &[s(tgt), s("spawn 0 own gate"), s("wait t0"), format!("spawnn 0 own fn {q}"), s("stop 0 h2"), s("spawnn 0 h1 fn 40"), s("open t0")], rng);
            }
        }
    }
    // (000000000000) `rt=slow`: commands sent — through the owner and through cloned handles, back to back (`j`
    // a multiple of 3: no pauses) — the moment `Arbiter::with_tokio_rt` has returned, whatever the new thread is
    // still busy with: they start in the order sent
    for (k, j) in [(0usize, 3u64), (1, 6), (2, 9)] {
        let l = match k {
            0 => vec![s("@rt=slow"), s("arb"), s("spawn 0 own fn"), s("spawn 0 h1 fut"), s("spawn 0 own fn"), s("spawn 0 h2 fn"), s("spawn 0 own fut"), s("spawn 0 h1 fn"), s("wait t5"), s("stop 0 own"), format!("go j={j}")],
            1 => vec![s("@rt=slow"), s("arb"), s("arb"), s("spawnn 1 own fn 6"), s("spawn 0 h1 fn"), s("spawnn 1 h2 fut 3"), s("wait t9"), s("wait t6"), s("stop 1 own"), s("stop 0 h1"), format!("go j={j}")],
            _ => vec![s("@rt=slow"), s("sysarb"), s("arb"), s("spawn 1 h1 pend"), s("spawn 1 own fn"), s("spawn 0 own fn"), s("spawn 1 h2 yield"), s("wait t3"), s("stop 1 h1"), s("stop 0 own"), format!("go j={j}")],
        };
        case(w, &l, rng);
    }
    // (00000000000) `rt=multi`: arbiters (and the system) on MULTI-THREAD Tokio runtimes — commands still run in
    // order on the arbiter's own thread, where `Arbiter::current()` is that arbiter; and what a loop's last poll
    // spawned next to the `Stop` does not start once the loop has ended (probing runs: even `j`)
    case(w, &[s("@rt=multi"), s("arb"), s("arb"), s("spawn 0 own fn"), s("spawn 1 h1 yield"), s("spawn 0 h2 sleep"), s("spawn 1 own fut"), s("spawnn 0 own fn 40"), s("wait t44"), s("wait t3"), s("stop 0 h1"), s("stop 1 own")], rng);
    case(w, &[s("@rt=multi"), s("sysarb"), s("arb"), s("spawn 0 own gate"), s("wait t0"), s("spawnn 0 h1 fut 20"), s("spawn 1 c0 fn"), s("open t0"), s("wait t20"), s("wait t21"), s("stop 1 own"), s("stop 0 h2")], rng);
    for (tag, j) in [("", 4u64), ("@rt=custom", 6), ("@rt=multi", 8)] {
        let mut l = vec![s("arb"), s("spawn 0 own gate"), s("wait t0"), s("spawn 0 h1 fn"), s("spawn 0 own fut"), s("spawnn 0 h2 fn 5"), s("stop 0 own"), s("open t0")];
        if !tag.is_empty() {
            l.insert(0, s(tag));
        }
        // (an even `j`: every task that starts tells whether its arbiter's loop is still running)
        l.push(format!("go j={j}"));
        case(w, &l, rng);
    }
    // (0000000000) two Systems: a task on an arbiter of this one stops the OTHER System through a handle taken
    // there — that one's `run` returns the code and its arbiters stop; the calling arbiter, which nobody
    // stopped, goes on accepting and running commands
    case(w, &[s("arb"), s("spawn 0 own stopother"), s("wait t0"), s("spawn 0 h1 fn"), s("spawn 0 own fut"), s("wait t2"), s("stop 0 own")], rng);
    case(w, &[s("sysarb"), s("arb"), s("spawn 0 h1 stopother"), s("wait t0"), s("spawn 0 own fn"), s("spawn 1 h2 pend"), s("wait t1"), s("wait t2"), s("stop 0 own"), s("stop 1 h2")], rng);
    if thorough {
        for via in ["own", "h1", "h2"] {
            for tgt in ["arb", "sysarb"] {
                case(w, &[s(tgt), s("spawn 0 own fn"), format!("spawn 0 {via} stopother"), s("spawn 0 h1 fut"), s("wait t2"), s("spawn 0 own fn"), s("wait t3"), format!("stop 0 {via}")], rng);
                case(w, &[s(tgt), s("spawn 0 own gate"), s("wait t0"), format!("spawn 0 {via} stopother"), s("spawn 0 c0 fn"), s("open t0"), s("wait t2"), s("stop 0 own")], rng);
            }
        }
    }
    // (000000000) `System::stop()` stops the System's own arbiter too (seen with the runner driven by `block_on`),
    // also when a worker arbiter's number equals the System's id
    case(w, &[s("sysarbgone aligned early"), s("sysarbgone aligned alive"), s("sysarbgone plain early"), s("sysarbgone plain alive")], rng);
    // (0000000) arbiters created AFTER `System::stop()` was handled (the runner inside `block_on`): the stop
    // broadcast was over before they existed, nobody has stopped them — they accept and run commands;
    // a System created after another one's `run()` returned does not get the id of a System still alive
    case(w, &[s("runner stopped"), s("arb"), s("spawn 0 own fn"), s("spawn 0 h1 fut"), s("wait t1"), s("stop 0 own")], rng);
    case(w, &[s("@rt=custom"), s("runner stopped"), s("arb"), s("arb"), s("spawn 1 h2 pend"), s("spawn 0 own gate"), s("wait t1"), s("spawn 0 c1 fn"), s("dropsys"), s("spawn 1 own fn"), s("wait t3"), s("open t1"), s("wait t2"), s("stop 0 h1"), s("stop 1 own")], rng);
    case(w, &[format!("syslive {}", if thorough { 40 } else { 6 })], rng);
    // (000000) the System's runner is never run but DROPPED without a stop — idle all the time (`plain`: the
    // controller has never been polled) or after a `block_on` (`block`: the controller has registered the
    // arbiters): the arbiters nobody stopped go on accepting and running commands, in order, on their threads
    case(w, &[s("runner block"), s("arb"), s("spawn 0 own fn"), s("wait t0"), s("dropsys"), s("spawn 0 h1 fut"), s("spawn 0 own fn"), s("wait t2"), s("stop 0 own")], rng);
    case(w, &[s("runner plain"), s("arb"), s("arb"), s("dropsys"), s("spawn 0 own fn"), s("spawn 1 h2 pend"), s("wait t0"), s("wait t1"), s("stop 0 h1"), s("stop 1 own")], rng);
    // … dropped while the arbiters are busy
    case(w, &[s("@rt=custom"), s("runner block"), s("arb"), s("arb"), s("spawn 0 own gate"), s("wait t0"), s("spawn 0 h1 fn"), s("spawn 1 own block"), s("dropsys"), s("spawn 0 c0 fn"), s("spawn 1 h2 fn"), s("wait t4"), s("open t0"), s("wait t3"), s("late 0 dir"), s("stop 0 own"), s("stop 1 h1")], rng);
    // … dropped only at the very end
    case(w, &[s("runner block"), s("arb"), s("spawn 0 own pend"), s("spawn 0 h2 fn"), s("wait t1"), s("stop 0 own")], rng);
    if thorough {
        let alpha = ["spawn 0 own fn", "spawn 0 h1 pend", "spawn 0 h2 block", "stop 0 own"];
        for mode in ["plain", "block", "stopped"] {
            for len in 1..=3usize {
                for code in 0..4usize.pow(len as u32) {
                    let seq: Vec<usize> = (0..len).map(|i| (code / 4usize.pow(i as u32)) % 4).collect();
                    for pos in 0..=len {
                        let mut l = vec![format!("runner {mode}"), s("arb")];
                        let mut ntask = 0;
                        for (i, x) in seq.iter().enumerate() {
                            if i == pos {
                                l.push(s("dropsys"));
                            }
                            l.push(s(alpha[*x]));
                            if *x < 3 {
                                ntask += 1;
                            }
                        }
                        if pos == len {
                            l.push(s("dropsys"));
                        }
                        if !seq.contains(&3) {
                            l.push(s("spawn 0 h1 fn"));
                            l.push(format!("wait t{ntask}"));
                            l.push(s("stop 0 own"));
                        }
                        case(w, &l, rng);
                    }
                }
            }
        }
    }
    // (00000) `pendown`: a pending task that owns what a blocking helper on the arbiter's runtime waits for — the
    // thread must still finish after stop (join returns; the system's run returns when it is the system arbiter)
    case(w, &[s("arb"), s("spawn 0 own pendown"), s("wait t0"), s("spawn 0 h1 fn"), s("wait t1"), s("stop 0 own")], rng);
    case(w, &[s("@rt=custom"), s("sysarb"), s("arb"), s("spawn 0 own pendown"), s("spawn 1 h1 pendown"), s("spawn 1 own pend"), s("wait t0"), s("wait t2"), s("stop 1 h2"), s("stop 0 own")], rng);
    if thorough {
        for via in ["own", "h1", "h2"] {
            for tgt in ["arb", "sysarb"] {
                case(w, &[s(tgt), format!("spawn 0 {via} pendown"), s("spawn 0 own fn"), s("wait t1"), format!("spawn 0 {via} pendown"), s("wait t2"), s("stop 0 h1"), s("spawn 0 own pendown")], rng);
            }
            case(w, &[s("arb"), s("spawn 0 own gate"), s("wait t0"), format!("spawn 0 {via} pendown"), s("spawn 0 c0 pendown"), s("spawn 0 h1 blocking"), s("spawn 0 h2 fn"), s("open t0"), s("wait t4"), s("late 0 sys"), s("stop 0 c0")], rng);
        }
    }
    // (0000) a backlog far beyond a thousand commands behind a held thread: every send to the live arbiter is
    // accepted and everything in front of the stop starts, in order; the time between "loop ended" and "thread
    // exited", stretched by a blocking job: the channel refuses commands as soon as the loop is over
    case(w, &[s("arb"), s("spawn 0 own gate"), s("wait t0"), s("spawnn 0 own fn 800"), s("spawnn 0 h1 fut 700"), s("open t0"), s("wait t1500"), s("stop 0 own")], rng);
    case(w, &[s("sysarb"), s("spawn 0 own gate"), s("wait t0"), s("spawnn 0 h1 fn 1100"), s("stop 0 own"), s("spawnn 0 h2 fn 10"), s("open t0")], rng);
    case(w, &[s("arb"), s("spawn 0 own pend"), s("spawn 0 h1 blocking"), s("wait t1"), s("stop 0 own")], rng);
    case(w, &[s("@rt=custom"), s("arb"), s("arb"), s("spawn 1 own blocking"), s("spawn 1 own pend"), s("wait t1"), s("spawn 0 h1 pend"), s("spawn 0 h2 blocking"), s("wait t3"), s("late 0 sys"), s("stop 1 h2"), s("stop 0 own")], rng);
    if thorough {
        for (a, b) in [(1023usize, 2usize), (1024, 1), (1025, 300), (1600, 700), (512, 513)] {
            for tgt in ["arb", "sysarb"] {
                case(w, &[s(tgt), s("spawn 0 h1 gate"), s("wait t0"), format!("spawnn 0 own fn {a}"), format!("spawnn 0 h2 fut {b}"), s("open t0"), format!("wait t{}", a + b), s("stop 0 own")], rng);
                case(w, &[s(tgt), s("spawn 0 own gate"), s("wait t0"), format!("spawnn 0 h1 fn {a}"), s("stop 0 h2"), format!("spawnn 0 own fn {b}"), s("open t0")], rng);
            }
        }
        for via in ["own", "h1", "h2"] {
            case(w, &[s("arb"), format!("spawn 0 {via} blocking"), s("spawn 0 own pend"), s("spawn 0 h1 pend"), s("wait t2"), format!("stop 0 {via}")], rng);
            case(w, &[s("arb"), s("spawn 0 own gate"), s("wait t0"), s("spawn 0 c0 pend"), format!("spawn 0 {via} blocking"), s("spawn 0 h2 fn"), s("open t0"), s("wait t3"), s("stop 0 c0")], rng);
        }
    }
    // (000) `join()` on the owner object from a task of the arbiter itself never returns while the loop is
    // alive (what is sent afterwards still starts, so a returned join would have lied); Systems constructed at
    // the same moment on several threads get different ids; a slow runtime factory
    case(w, &[s("arb"), s("spawn 0 h1 selfjoin"), s("wait t0"), s("spawn 0 h2 fn"), s("wait t1"), s("stop 0 own")], rng);
    case(w, &[s("arb"), s("arb"), s("spawn 0 own gate"), s("wait t0"), s("spawn 0 c0 selfjoin"), s("spawn 0 h1 fn"), s("spawn 1 t0 selfjoin"), s("spawn 1 own pend"), s("wait t4"), s("open t0"), s("wait t2"), s("stop 0 h1"), s("stop 1 h2")], rng);
    case(w, &[format!("sysids 4 {}", if thorough { 400 } else { 150 })], rng);
    if thorough {
        case(w, &[s("sysids 8 150"), s("sysids 2 400"), s("sysids 3 200")], rng);
    }
    case(w, &[s("@rt=slow"), s("arb"), s("arb"), s("spawn 1 own fn"), s("wait t0"), s("spawn 1 h1 selfjoin"), s("spawn 1 own fn"), s("wait t2"), s("stop 0 own"), s("stop 1 h1")], rng);
    // (00) sends through the OWNER object once the loop has ended — from a thread with a live System (a task
    // on the system thread) and from one without: false, and nothing starts anywhere
    case(w, &[s("arb"), s("spawn 0 own fn"), s("wait t0"), s("late 0 sys"), s("stop 0 own")], rng);
    case(w, &[s("arb"), s("arb"), s("late 0 sys"), s("late 1 dir"), s("spawn 0 h1 fn"), s("spawn 1 own pend"), s("stop 0 h1"), s("spawn 0 own fn"), s("stop 1 h2")], rng);
    case(w, &[s("arb"), s("spawn 0 own gate"), s("wait t0"), s("late 0 sys"), s("spawn 0 h1 fn"), s("stop 0 c0"), s("spawn 0 own fn"), s("open t0")], rng);
    for tgt in ["arb", "sysarb"] {
        // FIFO: a remote command, then the self-send, then a remote one
        case(w, &[s(tgt), s("spawn 0 own gate"), s("wait t0"), s("spawn 0 h1 fn"), s("spawn 0 c0 fut"), s("spawn 0 own fn"), s("open t0"), s("wait t3"), s("stop 0 own")], rng);
        // nothing sent after stop() starts: the stop is queued, then the task sends to its own arbiter
        case(w, &[s(tgt), s("spawn 0 own gate"), s("wait t0"), s("stop 0 own"), s("spawn 0 c0 fn"), s("spawn 0 t0 fut"), s("open t0")], rng);
        // the task stops its own arbiter, with commands on both sides
        case(w, &[s(tgt), s("spawn 0 h2 gate"), s("wait t0"), s("spawn 0 t0 fn"), s("spawn 0 h1 pend"), s("stop 0 c0"), s("spawn 0 c0 fn"), s("spawn 0 own fn"), s("open t0")], rng);
        // a long self-sent backlog behind a short remote one
        case(w, &[s(tgt), s("spawn 0 own gate"), s("wait t0"), s("spawnn 0 h1 fn 3"), s("spawnn 0 c0 fn 140"), s("spawn 0 h2 fut"), s("stop 0 h1"), s("spawnn 0 t0 fut 20"), s("open t0")], rng);
    }
    // from a task on one arbiter to another arbiter (and to the system arbiter)
    case(w, &[s("arb"), s("arb"), s("spawn 0 own gate"), s("wait t0"), s("spawn 1 h1 fn"), s("spawn 1 t0 fn"), s("spawn 1 own fn"), s("wait t3"), s("stop 1 t0"), s("spawn 1 t0 fn"), s("spawn 0 c0 fn"), s("stop 0 own"), s("open t0")], rng);
    case(w, &[s("sysarb"), s("arb"), s("spawn 1 own gate"), s("wait t0"), s("spawn 0 t0 fn"), s("spawn 0 own fn"), s("wait t2"), s("spawn 1 c0 fn"), s("stop 1 c0"), s("stop 0 t0"), s("open t0")], rng);
    // (1) the system arbiter as a target
    case(w, &[s("sysarb"), s("spawn 0 own fn"), s("wait t0"), s("stop 0 own")], rng);
    case(w, &[s("sysarb"), s("spawn 0 h1 fut"), s("spawn 0 own pend"), s("wait t1"), s("stop 0 h2"), s("spawn 0 own fn")], rng);
    // (2) a batch with a stop in it, found in one go by the system arbiter's loop
    for (pre, post) in [(0usize, 1usize), (1, 1), (2, 3)] {
        let mut l = vec![s("sysarb"), s("spawn 0 own gate"), s("wait t0")];
        for i in 0..pre {
            l.push(format!("spawn 0 {} {}", VIAS[(i + post) % 3], ["fn", "pend", "fut"][i % 3]));
        }
        l.push(format!("stop 0 {}", VIAS[pre % 3]));
        for i in 0..post {
            l.push(format!("spawn 0 {} {}", VIAS[i % 3], ["fn", "fut", "yield"][i % 3]));
        }
        l.push(s("open t0"));
        case(w, &l, rng);
    }
    // … with another arbiter alongside
    case(w, &[s("arb"), s("sysarb"), s("spawn 1 own gate"), s("spawn 0 own fn"), s("wait t1"), s("spawn 1 h1 fn"), s("stop 1 own"), s("spawn 1 own fn"), s("stop 0 h1"), s("open t0")], rng);
    // (3) long backlogs behind a held thread: k executes, the stop, m executes — found in one go
    // (tokio hands out at most 128 messages per poll, then the LocalSet runs a batch of tasks)
    let sizes: &[(usize, usize)] = if thorough { &[(0, 130), (1, 128), (5, 200), (30, 120), (60, 300), (100, 60), (130, 40), (200, 200)] } else { &[(5, 200), (30, 120), (100, 60)] };
    for (i, (k, m)) in sizes.iter().enumerate() {
        for tgt in ["arb", "sysarb"] {
            if tgt == "sysarb" && !thorough && i > 0 {
                continue;
            }
            let mut l = vec![s(tgt), s("spawn 0 own gate"), s("wait t0")];
            match k {
                0 => {}
                1 => l.push(s("spawn 0 own fn")),
                _ => l.push(format!("spawnn 0 {} fn {k}", VIAS[i % 3])),
            }
            l.push(format!("stop 0 {}", VIAS[(i + 1) % 3]));
            l.push(format!("spawnn 0 {} {} {m}", VIAS[(i + 2) % 3], ["fn", "fut"][i % 2]));
            l.push(s("open t0"));
            case(w, &l, rng);
        }
    }
    // (4) long queues racing the loop (nothing held)
    case(w, &[s("arb"), s("spawnn 0 own fn 250"), s("stop 0 h1"), s("spawnn 0 own fut 100")], rng);
    case(w, &[s("arb"), s("spawn 0 own block"), s("spawnn 0 h2 fn 150"), s("stop 0 own"), s("spawnn 0 own fn 150")], rng);
    case(w, &[s("sysarb"), s("spawn 0 own block"), s("spawnn 0 own fn 140"), s("stop 0 own"), s("spawnn 0 h1 fn 60")], rng);
    // (5) the 2nd, 3rd, 4th System an OS thread hosts
    for nh in 1..=3usize {
        for mode in ["dropped", "kept"] {
            let mut l = vec![format!("host {nh} {mode}")];
            for _ in 0..(nh % 3) {
                l.push(s("arb"));
            }
            l.push(s("ident"));
            case(w, &l, rng);
            if thorough || nh == 1 {
                case(w, &[format!("host {nh} {mode}"), s("sysarb"), s("arb"), s("spawn 0 own fn"), s("spawn 1 h1 fn"), s("wait t0"), s("wait t1"), s("stop 1 own"), s("spawn 0 h2 pend"), s("stop 0 own"), s("spawn 0 own fn")], rng);
            }
        }
    }
}

fn gen_c10(a: &Args, w: &mut dyn Write) {
    let mut rng = Rng::new(a.seed ^ 0xC10);
    let thorough = a.tier == "thorough";
    let mut n = 0;
    directed_c10(w, &mut rng, &mut n, thorough);
    // (1) seeded random sequences over the full alphabet: 1–2 arbiters and/or the system arbiter
    let count = if thorough { 800 } else { 90 };
    for _ in 0..count {
        writeln!(w, "case r{n} c10{}", ["", "", "", "", "", " rt=custom", " rt=multi", " rt=multi", " rt=slow"][rng.below(if thorough { 9 } else { 8 })]).unwrap();
        n += 1;
        let hosted = rng.chance(1, 8);
        if hosted {
            writeln!(w, "host {} {}", 1 + rng.below(3), if rng.chance(1, 2) { "kept" } else { "dropped" }).unwrap();
        }
        // a sixth of the cases: the runner is never run but dropped somewhere along the way
        let dropped_runner = !hosted && rng.chance(1, 6);
        if dropped_runner {
            writeln!(w, "runner {}", ["plain", "block", "block", "stopped"][rng.below(4)]).unwrap();
        }
        let mut dropsys_at = if dropped_runner && rng.chance(3, 4) { Some(rng.below(6)) } else { None };
        let with_sys = !dropped_runner && rng.chance(1, 3);
        let nreal = if with_sys { rng.below(3) } else { 1 + rng.below(2) };
        let narb = nreal + with_sys as usize;
        let sys_pos = rng.below(narb.max(1));
        for i in 0..narb {
            writeln!(w, "{}", if with_sys && i == sys_pos { "sysarb" } else { "arb" }).unwrap();
        }
        let mut tasks: Vec<usize> = vec![]; // task -> arb (usize::MAX: the two tasks of a `late` line)
        let mut stopother_used = false;
        let mut no_owner = vec![false; narb]; // a `late` line needs the owner object / it went into a `selfjoin` task
        // a third of the cases: owner-side sends after the loop has ended, for some of the targets
        if rng.chance(1, 3) {
            for i in 0..narb {
                if !(with_sys && i == sys_pos) && rng.chance(2, 3) {
                    writeln!(w, "late {i} {}", if with_sys || dropped_runner || rng.chance(1, 3) { "dir" } else { "sys" }).unwrap();
                    tasks.extend([usize::MAX, usize::MAX]);
                    no_owner[i] = true;
                }
            }
        }
        let len = rng.range(1, 10);
        let mut stopped = vec![false; narb];
        let mut held: Vec<Option<usize>> = vec![None; narb]; // closed gate on this target
        let style = [0, 0, 1, 2][rng.below(4)]; // 0: racing stops, 1: wait for the last task then stop, 2: mixed
        if rng.chance(1, 3) {
            // hold one target's thread: what follows piles up behind the gate
            let arb = rng.below(narb);
            writeln!(w, "spawn {arb} {} gate\nwait t{}", VIAS[rng.below(3)], tasks.len()).unwrap();
            held[arb] = Some(tasks.len());
            tasks.push(arb);
        }
        for step in 0..len {
            if dropsys_at == Some(step) {
                writeln!(w, "dropsys").unwrap();
                dropsys_at = None;
            }
            let arb = rng.below(narb);
            // while a gate task holds a thread, a third of the commands are sent from inside it
            let inside = (0..narb).find(|a| held[*a].is_some()).filter(|_| rng.chance(1, 3)).map(|ga| {
                let g = held[ga].unwrap();
                if ga == arb && rng.chance(2, 3) {
                    format!("c{g}")
                } else {
                    format!("t{g}")
                }
            });
            let via: &str = match &inside {
                Some(v) => v.as_str(),
                None => VIAS[rng.below(3)],
            };
            if rng.chance(1, 5) && style != 1 {
                writeln!(w, "stop {arb} {via}").unwrap();
                stopped[arb] = true;
            } else if rng.chance(1, 10) {
                let cnt = if rng.chance(1, 4) { rng.range(128, 200) } else { rng.range(2, 40) };
                if tasks.len() + cnt <= 380 {
                    writeln!(w, "spawnn {arb} {via} {} {cnt}", KINDS10[rng.below(2)]).unwrap();
                    tasks.extend(std::iter::repeat(arb).take(cnt));
                }
            } else {
                let mut kind = KINDS10[if rng.chance(1, 3) { rng.below(2) } else { rng.below(8) }];
                if !(with_sys && arb == sys_pos) && rng.chance(1, 15) {
                    kind = "blocking";
                }
                if rng.chance(1, 12) {
                    kind = "pendown";
                }
                if !stopother_used && rng.chance(1, 15) {
                    kind = "stopother";
                    stopother_used = true;
                }
                // now and then the owner object goes into a task of its own arbiter and is joined there
                if !(with_sys && arb == sys_pos) && !no_owner[arb] && rng.chance(1, 12) {
                    kind = "selfjoin";
                    no_owner[arb] = true;
                }
                writeln!(w, "spawn {arb} {via} {kind}").unwrap();
                tasks.push(arb);
                if style == 2 && rng.chance(1, 4) && !stopped[arb] && held[arb].is_none() {
                    writeln!(w, "wait t{}", tasks.len() - 1).unwrap();
                }
            }
            if let Some(a) = (0..narb).find(|a| held[*a].is_some()) {
                if rng.chance(1, 6) {
                    writeln!(w, "open t{}", held[a].unwrap()).unwrap();
                    held[a] = None;
                }
            }
        }
        for arb in 0..narb {
            if !stopped[arb] {
                if style != 0 && held[arb].is_none() {
                    if let Some(t) = tasks.iter().rposition(|x| *x == arb) {
                        writeln!(w, "wait t{t}").unwrap();
                    }
                }
                writeln!(w, "stop {arb} {}", VIAS[rng.below(3)]).unwrap();
            }
        }
        if rng.chance(1, 3) {
            // commands racing the stop that was just sent
            let arb = rng.below(narb);
            writeln!(w, "spawn {arb} {} fn", VIAS[rng.below(3)]).unwrap();
        }
        if let Some(a) = (0..narb).find(|a| held[*a].is_some()) {
            if rng.chance(1, 2) {
                writeln!(w, "open t{}", held[a].unwrap()).unwrap();
            }
        }
        writeln!(w, "go j={}", rng.next() % 1_000_000).unwrap();
    }
    // (2) thorough: every sequence of length ≤ 5 over a 5-letter alphabet on an `Arbiter::new` arbiter
    // (3 repetitions) and of length ≤ 4 on the system arbiter behind a gate (one batch)
    if thorough {
        let alpha = ["spawn 0 own fn", "spawn 0 h1 pend", "spawn 0 h2 block", "stop 0 own", "stop 0 h1"];
        for rep in 0..4 {
            let sysrep = rep == 3;
            for len in 1..=(if sysrep { 4usize } else { 5 }) {
                for code in 0..5usize.pow(len as u32) {
                    let seq: Vec<usize> = (0..len).map(|i| (code / 5usize.pow(i as u32)) % 5).collect();
                    if sysrep {
                        writeln!(w, "case e{n} c10\nsysarb\nspawn 0 own gate\nwait t0").unwrap();
                    } else {
                        writeln!(w, "case e{n} c10\narb").unwrap();
                    }
                    n += 1;
                    for s in &seq {
                        writeln!(w, "{}", alpha[*s]).unwrap();
                    }
                    if !seq.iter().any(|s| *s >= 3) {
                        writeln!(w, "stop 0 own").unwrap();
                    }
                    // (the task numbers of a `late` line come last: nothing above refers to them)
                    if rep == 1 || rep == 2 {
                        writeln!(w, "late 0 {}", if rep == 1 { "sys" } else { "dir" }).unwrap();
                    }
                    if sysrep {
                        writeln!(w, "open t0").unwrap();
                    }
                    writeln!(w, "go j={}", rng.next() % 1_000_000).unwrap();
                }
            }
        }
    }
    // (2b) thorough: every sequence of length ≤ 4 (system arbiter: ≤ 3) over commands sent by other threads
    // and from inside the gate task that holds the target's thread
    if thorough {
        let alpha = ["spawn 0 h1 fn", "spawn 0 c0 fn", "spawn 0 t0 pend", "stop 0 own", "stop 0 c0"];
        for (tgt, maxlen) in [("arb", 4usize), ("sysarb", 3)] {
            for len in 1..=maxlen {
                for code in 0..5usize.pow(len as u32) {
                    let seq: Vec<usize> = (0..len).map(|i| (code / 5usize.pow(i as u32)) % 5).collect();
                    writeln!(w, "case f{n} c10\n{tgt}\nspawn 0 own gate\nwait t0").unwrap();
                    n += 1;
                    for s in &seq {
                        writeln!(w, "{}", alpha[*s]).unwrap();
                    }
                    if !seq.iter().any(|s| *s >= 3) {
                        writeln!(w, "stop 0 {}", ["own", "c0", "h1"][code % 3]).unwrap();
                    }
                    writeln!(w, "open t0\ngo j={}", rng.next() % 1_000_000).unwrap();
                }
            }
        }
    }
    // (3) identity and block_on
    for narb in 0..=2 {
        writeln!(w, "case ident{narb} c10").unwrap();
        for _ in 0..narb {
            writeln!(w, "arb").unwrap();
        }
        writeln!(w, "ident").unwrap();
    }
    writeln!(w, "case blockon c10").unwrap();
    for v in ["rt", "sys", "spawn"] {
        for p in [0, 1, 2, 7, 130] {
            writeln!(w, "blockon {v} {p} {}", (rng.next() % 2000) as i32 - 1000).unwrap();
        }
    }
    // malformed
    writeln!(w, "case bad1 c10\nspawn 0 own fn\narb\narb\narb\nspawn 2 own fn\nspawn 0 me fn\nspawn 0 own gn\nwait t0\nspawn 0 own fn\nstop 0 own\nwait t0\nwait t1\ngo j=1\nstop 1 h1\nblockon rt 1 x\nblockon tr 1 1\narb\ngo\ngo j=3\ngo j=4").unwrap();
    writeln!(w, "case bad2 c10\narb\nspawn 0 own fn\nident\narb early\nstop sys-pre 1").unwrap();
    writeln!(w, "case bad3 c10\nhost 0 kept\nhost 4 kept\nhost 1 gone\nhost 2 kept\nhost 1 dropped\nsysarb\nsysarb\narb\narb\narb\nident\nspawn 1 own gate\nspawn 1 own fn\nwait t1\nwait t0\nopen t1\nopen t0\nopen t0\nwait t1\nspawnn 1 own fn 1\nspawnn 1 own fn 301\nspawnn 1 own gate 5\nspawnn 1 h1 fn 3\nspawnn 0 own fut 300\nspawnn 0 own fut 100\nstop 0 own\nstop 1 own\ngo j=9\nstop 2 h2\ngo j=9").unwrap();
    writeln!(w, "case bad4 c10\narb\nhost 1 kept\nspawn 0 own fn\nsysarb\nstop 0 own\ngo j=1").unwrap();
    writeln!(w, "case bad15 c10\narb\nspawnn 0 own stopother 2\nspawn 0 own stopother\nspawn 0 h1 stopother\nwait t0\nstop 0 own\ngo j=14").unwrap();
    writeln!(w, "case bad14 c10\nsysarbgone\nsysarbgone aligned\nsysarbgone early aligned\nsysarbgone plain late\nsysarbgone plain alive").unwrap();
    writeln!(w, "case bad13 c10\nsyslive 0\nsyslive 201\nsyslive x\nrunner stoped\nrunner stopped\nsysarb\narb\nspawn 0 own fn\nwait t0\nstop 0 own\ngo j=12").unwrap();
    writeln!(w, "case bad11 c10\ndropsys\nrunner idle\nrunner block\nrunner plain\nhost 1 kept\nsysarb\ndropsys\narb\nident\nlate 0 sys\nspawn 0 own fn\ndropsys\ndropsys\nwait t0\nstop 0 own\ngo j=10").unwrap();
    writeln!(w, "case bad12 c10\narb\nrunner block\ndropsys\nstop 0 own\ngo j=11").unwrap();
    writeln!(w, "case bad10 c10\narb\nspawnn 0 own pendown 2\nspawn 0 own pendwn\nspawn 0 own pendown\nstop 0 own\ngo j=9").unwrap();
    writeln!(w, "case bad9 c10\nsysarb\narb\nspawn 0 own blocking\nspawnn 1 own blocking 2\nspawnn 1 own fn 1601\nspawnn 1 own fn 1600\nspawnn 1 h1 fn 800\nspawn 1 h1 blocking\nstop 0 own\nstop 1 own\ngo j=8").unwrap();
    writeln!(w, "case bad7 c10 rt=slow\nsysids 1 5\nsysids 9 5\nsysids 2 0\nsysids 2 1001\nsysids x 1\nsysarb\narb\nspawn 0 own selfjoin\nspawnn 1 own selfjoin 2\nlate 1 dir\nspawn 1 h1 selfjoin\nstop 1 own\nstop 0 own\ngo j=6").unwrap();
    writeln!(w, "case bad8 c10\narb\nspawn 0 h2 selfjoin\nspawn 0 h1 selfjoin\nlate 0 sys\nlate 0 dir\nstop 0 own\ngo j=7").unwrap();
    writeln!(w, "case bad6 c10\nlate 0 dir\nsysarb\narb\nlate 0 dir\nlate 1 sys\nlate 1 here\nlate 2 dir\nlate 1 dir\nlate 1 dir\nwait t0\nwait t1\nspawn 1 own fn\nwait t2\nstop 1 own\nstop 0 own\narb\ngo j=5").unwrap();
    writeln!(w, "case bad5 c10 rt=custom\narb\narb\nspawn 0 c0 fn\nspawn 0 own gate\nspawn 0 c0 fn\nspawn 0 t0 fn\nwait t0\nspawn 1 c0 fn\nspawn 0 c1 fn\nspawn 0 t9 fn\nspawn 0 tx fn\nspawn 1 t0 fn\nspawnn 0 c0 fn 3\nstop 1 c0\nstop 1 t0\nopen t0\nspawn 0 c0 fn\nstop 0 t0\nstop 0 own\ngo j=2").unwrap();
}

fn gen(a: &Args) {
    let mut w = out_writer(&a.output);
    match a.prop.as_str() {
        "C09" => gen_c09(a, &mut *w),
        "C10" => gen_c10(a, &mut *w),
        _ => {
            gen_c09(a, &mut *w);
            gen_c10(a, &mut *w);
        }
    }
    w.flush().unwrap();
}

fn main() {
    let a = parse_args();
    match a.cmd.as_str() {
        "gen" => gen(&a),
        "run" => run(&a),
        _ => {
            eprintln!("usage: rt gen|run …");
            std::process::exit(2)
        }
    }
}
