import ActixNet.Lemmas.SrvSpin
/-!
# The `accept` and `handle_waker` loops always terminate: the model's fuel is never exhausted

The loops of `Accept::accept` (`loop { match lst.accept() … }`) and `handle_waker`
(`while let Some(i) = guard.pop_front()`) are modelled with fuel; running out of fuel is the sticky
fault `spinAccept` / `spinWaker`.  Here: the amount of work left — connections and injected errors
queued on the listener (`pendL`), resp. interests in the waker queue, plus what the *finite* schedule
of other threads' actions can still add (`bud`: one unit per action and per chunk) — never grows
(`Le`), strictly shrinks every round, and the fuel the model hands out (`acceptFuel`, `wakerFuel`)
is two above it.  So neither fault is reachable (`run_aw`); with `run_np` (no panic) and
`run_nospinAO` this gives `run_fault_none`: **no fault at all, for every history**.
What this does not say: a real environment that keeps connecting forever keeps `accept` looping
forever (there is nothing to terminate); the statement is termination for every finite amount of
concurrent activity per iteration, which is what a schedule is.
-/
namespace ActixNet.Srv
open ActixNet

/-- what the rest of the schedule can still do: one unit per action and one per chunk -/
def bud (s : St) : Nat := schedSize s + s.sched.length
/-- what `accept()` on listener `l` can still return before `WouldBlock` -/
def pendL (s : St) (l : Nat) : Nat := (s.lst l).backlog.length + (s.lst l).inject.length

/-- `s'` is no further from termination than `s` -/
structure Le (s s' : St) : Prop where
  m : ∀ l, pendL s' l + bud s' ≤ pendL s l + bud s
  n : s'.wq.length + bud s' ≤ s.wq.length + bud s
  b : bud s' ≤ bud s

theorem Le.refl (s : St) : Le s s := ⟨fun _ => Nat.le_refl _, Nat.le_refl _, Nat.le_refl _⟩
theorem Le.trans {a b c : St} (h1 : Le a b) (h2 : Le b c) : Le a c :=
  ⟨fun l => Nat.le_trans (h2.m l) (h1.m l), Nat.le_trans h2.n h1.n, Nat.le_trans h2.b h1.b⟩

/-- nothing relevant changed -/
def FvEq (s s' : St) : Prop := (∀ l, pendL s' l = pendL s l) ∧ s'.wq = s.wq ∧ s'.sched = s.sched

theorem FvEq.le {s s'} (h : FvEq s s') : Le s s' := by
  obtain ⟨h1, h2, h3⟩ := h
  refine ⟨fun l => ?_, ?_, ?_⟩ <;> simp only [bud, schedSize, h1, h2, h3] <;> exact Nat.le_refl _
theorem FvEq.refl (s : St) : FvEq s s := ⟨fun _ => rfl, rfl, rfl⟩
theorem FvEq.trans {a b c : St} (h1 : FvEq a b) (h2 : FvEq b c) : FvEq a c :=
  ⟨fun l => (h2.1 l).trans (h1.1 l), h2.2.1.trans h1.2.1, h2.2.2.trans h1.2.2⟩

/-- one environment action adds at most one unit of work, and does not touch the schedule -/
theorem envStep_work (cfg : Cfg) (s : St) (a : EnvAct) :
    (∀ l, pendL (envStep cfg s a).1 l ≤ pendL s l + 1) ∧ (envStep cfg s a).1.wq.length ≤ s.wq.length + 1 ∧
    (envStep cfg s a).1.sched = s.sched := by
  cases a with
  | connect l0 =>
    simp only [envStep]; split
    · split
      · exact ⟨fun _ => Nat.le_succ _, Nat.le_succ _, rfl⟩
      · refine ⟨fun l => ?_, Nat.le_succ _, rfl⟩
        by_cases hl : l = l0 <;> simp [pendL, upd, hl] <;> omega
    · exact ⟨fun _ => Nat.le_succ _, Nat.le_succ _, rfl⟩
  | inject l0 e =>
    simp only [envStep]; split
    · refine ⟨fun l => ?_, Nat.le_succ _, rfl⟩
      by_cases hl : l = l0 <;> simp [pendL, upd, hl] <;> omega
    · exact ⟨fun _ => Nat.le_succ _, Nat.le_succ _, rfl⟩
  | cmd i => cases i <;> simp [envStep, pushWq, pendL]
  | _ => simp only [envStep] <;> (repeat' split) <;> simp [pushWq, pendL]

theorem runEnv_work (cfg : Cfg) : ∀ (as : List EnvAct) (s : St),
    (∀ l, pendL (runEnv cfg s as) l ≤ pendL s l + as.length) ∧ (runEnv cfg s as).wq.length ≤ s.wq.length + as.length ∧
    (runEnv cfg s as).sched = s.sched := by
  intro as; induction as with
  | nil => intro s; exact ⟨fun _ => Nat.le_refl _, Nat.le_refl _, rfl⟩
  | cons a as ih =>
    intro s
    simp only [runEnv]
    obtain ⟨e1, e2, e3⟩ := envStep_work cfg s a
    obtain ⟨i1, i2, i3⟩ := ih { (envStep cfg s a).1 with acts := (envStep cfg s a).1.acts ++ [(envStep cfg s a).2] }
    refine ⟨fun l => ?_, ?_, ?_⟩
    · have := i1 l; have := e1 l; simp only [pendL, List.length_cons] at *; omega
    · simp only [List.length_cons] at *; omega
    · rw [i3]; exact e3

/-- a yield point never adds work on balance, and uses up budget whenever any schedule is left -/
theorem yieldPt_le (cfg : Cfg) (s : St) : Le s (yieldPt cfg s) ∧
    (s.sched ≠ [] → (∀ l, pendL (yieldPt cfg s) l + bud (yieldPt cfg s) + 1 ≤ pendL s l + bud s) ∧
      (yieldPt cfg s).wq.length + bud (yieldPt cfg s) + 1 ≤ s.wq.length + bud s) := by
  unfold yieldPt
  split
  · rename_i he
    exact ⟨FvEq.le ⟨fun _ => rfl, rfl, rfl⟩, fun h => absurd he h⟩
  · rename_i ch rest he
    obtain ⟨r1, r2, r3⟩ := runEnv_work cfg ch { s with sched := rest, yields := s.yields + 1 }
    have hb : bud (runEnv cfg { s with sched := rest, yields := s.yields + 1 } ch) + ch.length + 1 = bud s := by
      simp only [bud, schedSize, r3, he, List.map_cons, List.sum_cons, List.length_cons]; omega
    have k1 : ∀ l, pendL (runEnv cfg { s with sched := rest, yields := s.yields + 1 } ch) l +
        bud (runEnv cfg { s with sched := rest, yields := s.yields + 1 } ch) + 1 ≤ pendL s l + bud s := by
      intro l; have := r1 l; simp only [pendL] at *; omega
    have k2 : (runEnv cfg { s with sched := rest, yields := s.yields + 1 } ch).wq.length +
        bud (runEnv cfg { s with sched := rest, yields := s.yields + 1 } ch) + 1 ≤ s.wq.length + bud s := by
      simp only at r2; omega
    exact ⟨⟨fun l => by have := k1 l; omega, by omega, by omega⟩, fun _ => ⟨k1, k2⟩⟩


theorem setAvail_fv (s : St) (i : Nat) (v : Bool) : FvEq s (setAvail s i v) := by
  unfold setAvail; split <;> exact ⟨fun _ => rfl, rfl, rfl⟩
theorem setNext_fv (s : St) : FvEq s (setNext s) := by
  unfold setNext; split <;> exact ⟨fun _ => rfl, rfl, rfl⟩
theorem incPrim_fv (cfg : Cfg) (s : St) (w i : Nat) : FvEq s (incPrim cfg s w i) := by
  unfold incPrim; simp only; split
  · exact ⟨fun _ => rfl, rfl, rfl⟩
  · exact FvEq.trans (b := { s with wk := upd s.wk w { s.wk w with c := (s.wk w).c + 1 }, pend := none })
      ⟨fun _ => rfl, rfl, rfl⟩ (setAvail_fv _ _ _)
theorem sendFail_fv (s : St) (w : Nat) (c : Conn) : FvEq s (sendFail s w c).1 := by
  have h : FvEq s (removeNext s w) := by
    unfold removeNext; simp only
    exact FvEq.trans (b := { s with handles := swapRemove s.handles s.next, faultedLog := s.faultedLog ++ [(s.wk w).idx] })
      ⟨fun _ => rfl, rfl, rfl⟩ (setAvail_fv _ _ _)
  unfold sendFail; simp only
  split
  · exact FvEq.trans h ⟨fun _ => rfl, rfl, rfl⟩
  · split
    · exact FvEq.trans h ⟨fun _ => rfl, rfl, rfl⟩
    · exact h

theorem sendConnection_le (cfg : Cfg) (s : St) (c : Conn) : Le s (sendConnection cfg s c).1 := by
  unfold sendConnection
  split
  · exact Le.refl s
  · split
    · exact FvEq.le ⟨fun _ => rfl, rfl, rfl⟩
    · rename_i w _
      split
      · have h1 : Le s (sendPrim s w c) := FvEq.le ⟨fun _ => rfl, rfl, rfl⟩
        have h2 := (yieldPt_le cfg (sendPrim s w c)).1
        have h3 := (incPrim_fv cfg (yieldPt cfg (sendPrim s w c)) w (s.wk w).idx).le
        have h4 := (setNext_fv (incPrim cfg (yieldPt cfg (sendPrim s w c)) w (s.wk w).idx)).le
        exact (h1.trans h2).trans (h3.trans h4)
      · exact (sendFail_fv s w c).le

theorem forcedSend_le (cfg : Cfg) : ∀ (fuel : Nat) (s : St) (c : Conn), Le s (forcedSend cfg fuel s c) := by
  intro fuel; induction fuel with
  | zero => intro s c; exact FvEq.le ⟨fun _ => rfl, rfl, rfl⟩
  | succ f ih =>
    intro s c
    simp only [forcedSend]
    have h1 := sendConnection_le cfg s c
    generalize sendConnection cfg s c = r at h1
    obtain ⟨s1, b⟩ := r
    cases b with
    | true => exact h1
    | false => exact h1.trans (ih s1 c)

theorem acceptOne_le (cfg : Cfg) : ∀ (fuel : Nat) (s : St) (c : Conn), Le s (acceptOne cfg fuel s c) := by
  intro fuel; induction fuel with
  | zero => intro s c; exact FvEq.le ⟨fun _ => rfl, rfl, rfl⟩
  | succ f ih =>
    intro s c
    simp only [acceptOne]
    split
    · exact Le.refl s
    · split
      · exact FvEq.le ⟨fun _ => rfl, rfl, rfl⟩
      · rename_i w _
        split
        · have h1 := sendConnection_le cfg s c
          generalize sendConnection cfg s c = r at h1
          obtain ⟨s1, b⟩ := r
          cases b with
          | true => exact h1
          | false => exact h1.trans (ih s1 c)
        · have h2 : Le s (setNext (setAvail s (s.wk w).idx false)) :=
            ((setAvail_fv s _ false).trans (setNext_fv _)).le
          split
          · exact h2.trans (forcedSend_le cfg _ _ c)
          · exact h2.trans (ih _ c)

/-- every `accept()` that does not say `WouldBlock` uses up one unit of that listener's work -/
theorem acceptSys_le (s : St) (l : Nat) : Le s (acceptSys s l).1 ∧
    ((∀ c, (acceptSys s l).2 = .conn c ∨ (acceptSys s l).2 = .connErr ∨ (acceptSys s l).2 = .otherErr →
      pendL (acceptSys s l).1 l + bud (acceptSys s l).1 + 1 ≤ pendL s l + bud s)) := by
  have key : ∀ (L' : Lst), L'.backlog.length + L'.inject.length + 1 = pendL s l →
      Le s { s with lst := upd s.lst l L' } ∧
      pendL { s with lst := upd s.lst l L' } l + bud { s with lst := upd s.lst l L' } + 1 ≤ pendL s l + bud s := by
    intro L' hL
    have hb : bud { s with lst := upd s.lst l L' } = bud s := rfl
    have hp : ∀ j, pendL { s with lst := upd s.lst l L' } j ≤ pendL s j := by
      intro j
      by_cases hj : j = l
      · subst hj; simp only [pendL, upd, ↓reduceIte] at hL ⊢; omega
      · simp [pendL, upd, hj]
    have hpl : pendL { s with lst := upd s.lst l L' } l + 1 = pendL s l := by
      simp only [pendL, upd, ↓reduceIte] at hL ⊢; omega
    exact ⟨⟨fun j => by have := hp j; omega, by rw [hb]; exact Nat.le_refl _, by rw [hb]; exact Nat.le_refl _⟩, by omega⟩
  unfold acceptSys; simp only
  split
  · rename_i e es he
    have k := key { s.lst l with inject := es } (by simp only [pendL, he, List.length_cons]; omega)
    cases e with
    | kind kd =>
      simp only
      split
      · refine ⟨k.1.trans (FvEq.le ⟨fun _ => rfl, rfl, rfl⟩), ?_⟩
        intro c hc; rcases hc with hc | hc | hc <;> cases hc
      · split
        · exact ⟨k.1, fun _ _ => k.2⟩
        · exact ⟨k.1, fun _ _ => k.2⟩
    | emfile => exact ⟨k.1, fun _ _ => k.2⟩
  · split
    · refine ⟨Le.refl s, ?_⟩
      intro c hc; rcases hc with hc | hc | hc <;> cases hc
    · rename_i hi c b hb
      have k := key { s.lst l with backlog := b } (by simp only [pendL, hb, List.length_cons]; omega)
      exact ⟨k.1, fun _ _ => k.2⟩


/-! ### which faults the inner functions can raise -/

/-- the fault is not one of the two fuel faults of the `accept` / `handle_waker` loops -/
def NoSpinAW (f : Option Fault) : Prop := f ≠ some .spinAccept ∧ f ≠ some .spinWaker

theorem setAvail_aw (s : St) (i : Nat) (v : Bool) (h : NoSpinAW s.fault) : NoSpinAW (setAvail s i v).fault := by
  unfold setAvail; split
  · exact h
  · unfold NoSpinAW; simp
theorem setNext_aw (s : St) (h : NoSpinAW s.fault) : NoSpinAW (setNext s).fault := by
  unfold setNext; split
  · unfold NoSpinAW; simp
  · exact h
theorem incPrim_aw (cfg : Cfg) (s : St) (w i : Nat) (h : NoSpinAW s.fault) : NoSpinAW (incPrim cfg s w i).fault := by
  unfold incPrim; simp only; split
  · exact h
  · exact setAvail_aw _ i false h
theorem sendFail_aw (s : St) (w : Nat) (c : Conn) (h : NoSpinAW s.fault) : NoSpinAW (sendFail s w c).1.fault := by
  have h1 : NoSpinAW (removeNext s w).fault := by unfold removeNext; simp only; exact setAvail_aw _ _ false h
  unfold sendFail; simp only
  split
  · exact h1
  · split <;> exact h1
theorem sendConnection_aw (cfg : Cfg) (s : St) (c : Conn) (h : NoSpinAW s.fault) :
    NoSpinAW (sendConnection cfg s c).1.fault := by
  unfold sendConnection
  split
  · exact h
  · split
    · unfold NoSpinAW; simp
    · rename_i w _
      split
      · apply setNext_aw
        apply incPrim_aw
        rw [yieldPt_fault]; exact h
      · exact sendFail_aw s w c h
theorem forcedSend_aw (cfg : Cfg) : ∀ (fuel : Nat) (s : St) (c : Conn), NoSpinAW s.fault →
    NoSpinAW (forcedSend cfg fuel s c).fault := by
  intro fuel; induction fuel with
  | zero => intro s c _; unfold NoSpinAW; simp [forcedSend]
  | succ f ih =>
    intro s c h
    simp only [forcedSend]
    have h1 := sendConnection_aw cfg s c h
    generalize sendConnection cfg s c = r at h1
    obtain ⟨s1, b⟩ := r
    cases b with
    | true => exact h1
    | false => exact ih s1 c h1
theorem acceptOne_aw (cfg : Cfg) : ∀ (fuel : Nat) (s : St) (c : Conn), NoSpinAW s.fault →
    NoSpinAW (acceptOne cfg fuel s c).fault := by
  intro fuel; induction fuel with
  | zero => intro s c _; unfold NoSpinAW; simp [acceptOne]
  | succ f ih =>
    intro s c h
    simp only [acceptOne]
    split
    · exact h
    · split
      · unfold NoSpinAW; simp
      · rename_i w _
        split
        · have h1 := sendConnection_aw cfg s c h
          generalize sendConnection cfg s c = r at h1
          obtain ⟨s1, b⟩ := r
          cases b with
          | true => exact h1
          | false => exact ih s1 c h1
        · have h2 : NoSpinAW (setNext (setAvail s (s.wk w).idx false)).fault := setNext_aw _ (setAvail_aw s _ false h)
          split
          · exact forcedSend_aw cfg _ _ c h2
          · exact ih _ c h2

/-! ### `accept` -/

theorem backoff_fv (s : St) (l : Nat) (d : Option Nat) (t : Nat) :
    FvEq s (setTimeout { (deregister s l) with lst := upd (deregister s l).lst l { (deregister s l).lst l with deadline := d } } t) := by
  have h1 : FvEq s { (deregister s l) with lst := upd (deregister s l).lst l { (deregister s l).lst l with deadline := d } } := by
    refine ⟨fun j => ?_, rfl, rfl⟩
    by_cases hj : j = l <;> simp [pendL, deregister, upd, hj]
  refine h1.trans ?_
  unfold setTimeout; split
  · split <;> exact ⟨fun _ => rfl, rfl, rfl⟩
  · exact ⟨fun _ => rfl, rfl, rfl⟩

/-- `accept` on listener `l` never adds work, and with `pendL s l + bud s + 2` rounds of fuel (the
model's `acceptFuel`) the fuel fault is not raised -/
theorem accept_le (cfg : Cfg) : ∀ (fuel : Nat) (s : St) (l : Nat), Le s (accept cfg fuel s l) ∧
    (pendL s l + bud s + 2 ≤ fuel → NoSpinAW s.fault → NoSpinAW (accept cfg fuel s l).fault) := by
  intro fuel; induction fuel with
  | zero => intro s l; exact ⟨FvEq.le ⟨fun _ => rfl, rfl, rfl⟩, fun h _ => by omega⟩
  | succ f ih =>
    intro s l
    simp only [accept]
    split
    · exact ⟨Le.refl s, fun _ h => h⟩
    · split
      · exact ⟨Le.refl s, fun _ h => h⟩
      · have y := (yieldPt_le cfg s).1
        have yf := yieldPt_fault cfg s
        obtain ⟨a1, a2⟩ := acceptSys_le (yieldPt cfg s) l
        have af : (acceptSys (yieldPt cfg s) l).1.fault = (yieldPt cfg s).fault := (acceptSys_vframe (yieldPt cfg s) l).2
        generalize acceptSys (yieldPt cfg s) l = r at a1 a2 af
        obtain ⟨s1, res⟩ := r
        simp only at a1 a2 af ⊢
        have ys1 : Le s s1 := y.trans a1
        cases res with
        | conn c =>
          simp only
          have k := a2 c (Or.inl rfl)
          have o := acceptOne_le cfg (acceptOneFuel s1) s1 c
          obtain ⟨i1, i2⟩ := ih (acceptOne cfg (acceptOneFuel s1) s1 c) l
          refine ⟨(ys1.trans o).trans i1, fun hf hn => i2 ?_ (acceptOne_aw cfg _ s1 c (by rw [af, yf]; exact hn))⟩
          have := o.m l; have := y.m l; omega
        | wouldBlock => exact ⟨ys1, fun _ hn => by rw [af, yf]; exact hn⟩
        | connErr =>
          simp only
          have k := a2 (0, 0) (Or.inr (Or.inl rfl))
          obtain ⟨i1, i2⟩ := ih s1 l
          refine ⟨ys1.trans i1, fun hf hn => i2 ?_ (by rw [af, yf]; exact hn)⟩
          have := y.m l; omega
        | otherErr =>
          simp only
          have fv := backoff_fv s1 l (some ((deregister s1 l).now + Src.backoffMs)) Src.pollTimeoutMs
          refine ⟨ys1.trans fv.le, fun _ hn => ?_⟩
          have : (setTimeout { (deregister s1 l) with lst := upd (deregister s1 l).lst l { (deregister s1 l).lst l with deadline := some ((deregister s1 l).now + Src.backoffMs) } } Src.pollTimeoutMs).fault = s1.fault := by
            unfold setTimeout; split
            · split <;> rfl
            · rfl
          rw [this, af, yf]; exact hn


theorem acceptAllFrom_le (cfg : Cfg) : ∀ (ls : List Nat) (s : St), Le s (acceptAllFrom cfg s ls) ∧
    (NoSpinAW s.fault → NoSpinAW (acceptAllFrom cfg s ls).fault) := by
  intro ls; induction ls with
  | nil => intro s; exact ⟨Le.refl s, id⟩
  | cons l ls ih =>
    intro s
    simp only [acceptAllFrom]
    obtain ⟨a1, a2⟩ := accept_le cfg (acceptFuel s l) s l
    obtain ⟨i1, i2⟩ := ih (accept cfg (acceptFuel s l) s l)
    exact ⟨a1.trans i1, fun hn => i2 (a2 (by simp only [acceptFuel, pendL, bud]; omega) hn)⟩

theorem acceptAll_le (cfg : Cfg) (s : St) : Le s (acceptAll cfg s) ∧ (NoSpinAW s.fault → NoSpinAW (acceptAll cfg s).fault) :=
  acceptAllFrom_le cfg _ s

theorem updMeta_fv (s : St) (l : Nat) (L' : Lst) (hb : L'.backlog = (s.lst l).backlog) (hi : L'.inject = (s.lst l).inject) :
    FvEq s { s with lst := upd s.lst l L' } := by
  refine ⟨fun j => ?_, rfl, rfl⟩
  by_cases hj : j = l
  · subst hj; simp [pendL, upd, hb, hi]
  · simp [pendL, upd, hj]

theorem register_fv (s : St) (l : Nat) : FvEq s (register s l) := by
  unfold register; simp only; split
  · exact FvEq.refl s
  · exact updMeta_fv s l _ rfl rfl
theorem deregister_fv (s : St) (l : Nat) : FvEq s (deregister s l) := updMeta_fv s l _ rfl rfl
theorem setTimeout_fv (s : St) (d : Nat) : FvEq s (setTimeout s d) := by
  unfold setTimeout; split
  · split <;> exact ⟨fun _ => rfl, rfl, rfl⟩
  · exact ⟨fun _ => rfl, rfl, rfl⟩

theorem deregisterAllFrom_fv : ∀ (ls : List Nat) (s : St), FvEq s (deregisterAllFrom s ls) := by
  intro ls; induction ls with
  | nil => intro s; exact FvEq.refl s
  | cons l ls ih =>
    intro s
    simp only [deregisterAllFrom]
    refine FvEq.trans ?_ (ih _)
    have h1 : FvEq s { s with lst := upd s.lst l { s.lst l with deadline := none } } := updMeta_fv s l _ rfl rfl
    split
    · exact h1.trans (deregister_fv _ l)
    · exact h1

theorem registerAllFrom_fv : ∀ (ls : List Nat) (s : St), FvEq s (registerAllFrom s ls) := by
  intro ls; induction ls with
  | nil => intro s; exact FvEq.refl s
  | cons l ls ih =>
    intro s
    simp only [registerAllFrom]
    have h1 : FvEq s { s with lst := upd s.lst l { s.lst l with deadline := none } } := updMeta_fv s l _ rfl rfl
    exact (h1.trans (register_fv _ l)).trans (ih _)

theorem cleanupAll_fv (s : St) : FvEq s (cleanupAll s) := by
  refine ⟨fun j => ?_, rfl, rfl⟩
  simp only [pendL, cleanupAll]; split <;> rfl

theorem deregisterAllFrom_fault : ∀ (ls : List Nat) (s : St), (deregisterAllFrom s ls).fault = s.fault :=
  fun ls s => (deregisterAllFrom_vframe ls s).2
theorem registerAllFrom_fault : ∀ (ls : List Nat) (s : St), (registerAllFrom s ls).fault = s.fault :=
  fun ls s => (registerAllFrom_vframe ls s).2

/-- `handle_waker` never adds work, and with `wq.length + bud + 2` rounds of fuel (the model's
`wakerFuel`) its fuel fault is not raised -/
theorem handleWaker_le (cfg : Cfg) : ∀ (fuel : Nat) (s : St), Le s (handleWaker cfg fuel s).1 ∧
    (s.wq.length + bud s + 2 ≤ fuel → NoSpinAW s.fault → NoSpinAW (handleWaker cfg fuel s).1.fault) := by
  intro fuel; induction fuel with
  | zero => intro s; exact ⟨FvEq.le ⟨fun _ => rfl, rfl, rfl⟩, fun h _ => by omega⟩
  | succ f ih =>
    intro s
    simp only [handleWaker]
    split
    · exact ⟨Le.refl s, fun _ h => h⟩
    · have y := (yieldPt_le cfg s).1
      have yf := yieldPt_fault cfg s
      generalize yieldPt cfg s = s0 at y yf ⊢
      cases hwq : s0.wq with
      | nil => exact ⟨y, fun _ hn => by rw [yf]; exact hn⟩
      | cons i q =>
        simp only
        -- popping the interest uses up one unit
        have hpop : Le s0 { s0 with wq := q } ∧ ({ s0 with wq := q } : St).wq.length + bud { s0 with wq := q } + 1 ≤ s0.wq.length + bud s0 := by
          have hb : bud { s0 with wq := q } = bud s0 := rfl
          refine ⟨⟨fun l => Nat.le_refl _, ?_, Nat.le_refl _⟩, ?_⟩
          · rw [hb, hwq]; simp only [List.length_cons]; omega
          · rw [hb, hwq]; simp only [List.length_cons]; omega
        have step : ∀ s2 : St, Le { s0 with wq := q } s2 → (NoSpinAW s.fault → NoSpinAW s2.fault) →
            Le s (handleWaker cfg f s2).1 ∧
            (s.wq.length + bud s + 2 ≤ f + 1 → NoSpinAW s.fault → NoSpinAW (handleWaker cfg f s2).1.fault) := by
          intro s2 h2 hf2
          obtain ⟨i1, i2⟩ := ih s2
          refine ⟨(y.trans hpop.1).trans (h2.trans i1), fun hfu hn => i2 ?_ (hf2 hn)⟩
          have := h2.n; have := hpop.2; have := y.n; omega
        have hn1 : NoSpinAW s.fault → NoSpinAW ({ s0 with wq := q } : St).fault := fun hn => by
          show NoSpinAW s0.fault; rw [yf]; exact hn
        cases i with
        | workerAvail idx =>
          simp only
          have hw : FvEq { s0 with wq := q } (wakePrim { s0 with wq := q } idx) := by
            unfold wakePrim; split
            · exact setAvail_fv _ _ _
            · exact FvEq.refl _
          have hwf : NoSpinAW s.fault → NoSpinAW (wakePrim { s0 with wq := q } idx).fault := fun hn => by
            unfold wakePrim; split
            · exact setAvail_aw _ _ _ (hn1 hn)
            · exact hn1 hn
          split
          · obtain ⟨a1, a2⟩ := acceptAll_le cfg (wakePrim { s0 with wq := q } idx)
            exact step _ (hw.le.trans a1) (fun hn => a2 (hwf hn))
          · exact step _ hw.le hwf
        | worker w =>
          simp only
          have hw : FvEq { s0 with wq := q } (addWorker { s0 with wq := q } w) := by
            unfold addWorker; simp only
            exact (setAvail_fv _ _ _).trans ⟨fun _ => rfl, rfl, rfl⟩
          have hwf : NoSpinAW s.fault → NoSpinAW (addWorker { s0 with wq := q } w).fault := fun hn => by
            unfold addWorker; simp only
            exact setAvail_aw _ _ _ (hn1 hn)
          split
          · obtain ⟨a1, a2⟩ := acceptAll_le cfg (addWorker { s0 with wq := q } w)
            exact step _ (hw.le.trans a1) (fun hn => a2 (hwf hn))
          · exact step _ hw.le hwf
        | pause =>
          simp only
          split
          · refine step _ (FvEq.le (FvEq.trans (b := { s0 with wq := q, paused := true }) ⟨fun _ => rfl, rfl, rfl⟩ (deregisterAllFrom_fv _ _))) (fun hn => ?_)
            unfold deregisterAll; rw [deregisterAllFrom_fault]; exact hn1 hn
          · exact step _ (Le.refl _) hn1
        | resume =>
          simp only
          split
          · obtain ⟨a1, a2⟩ := acceptAll_le cfg (registerAllFrom { s0 with wq := q, paused := false } (List.range s0.nLst))
            refine step _ ((FvEq.le (FvEq.trans (a := { s0 with wq := q }) (b := { s0 with wq := q, paused := false }) ⟨fun _ => rfl, rfl, rfl⟩ (registerAllFrom_fv _ _))).trans a1) (fun hn => a2 ?_)
            rw [registerAllFrom_fault]; exact hn1 hn
          · exact step _ (Le.refl _) hn1
        | stop =>
          simp only
          split
          · refine ⟨(y.trans hpop.1).trans (FvEq.le ((deregisterAllFrom_fv _ _).trans (cleanupAll_fv _))), fun _ hn => ?_⟩
            show NoSpinAW (deregisterAll { s0 with wq := q }).fault
            unfold deregisterAll; rw [deregisterAllFrom_fault]; exact hn1 hn
          · exact ⟨(y.trans hpop.1).trans (cleanupAll_fv _).le, fun _ hn => hn1 hn⟩


theorem pollEvents_aw (cfg : Cfg) : ∀ (order : List Ev) (s : St), NoSpinAW s.fault → NoSpinAW (pollEvents cfg s order).1.fault := by
  intro order; induction order with
  | nil => intro s h; exact h
  | cons e es ih =>
    intro s h
    simp only [pollEvents]
    cases e with
    | waker =>
      simp only
      have hw := (handleWaker_le cfg (wakerFuel s) s).2 (by simp only [wakerFuel, bud]; omega) h
      generalize handleWaker cfg (wakerFuel s) s = r at hw
      obtain ⟨s1, ex⟩ := r
      simp only at hw ⊢
      split
      · exact hw
      · exact ih _ hw
    | listener l =>
      exact ih _ ((accept_le cfg (acceptFuel s l) s l).2 (by simp only [acceptFuel, pendL, bud]; omega) h)

theorem poll_aw (cfg : Cfg) (s : St) (h : NoSpinAW s.fault) (order : List Ev) (sched : List (List EnvAct)) :
    NoSpinAW (poll cfg s order sched).fault := by
  unfold poll
  split
  · exact h
  · have h1 := pollEvents_aw cfg order (clearEdges { s with sched := sched, yields := 0 }) h
    generalize (pollEvents cfg (clearEdges { s with sched := sched, yields := 0 }) order) = r at h1
    unfold pollFinish
    split
    · exact h1
    · show NoSpinAW (processTimeout r.1).fault
      rw [(processTimeout_vframe r.1).2]; exact h1

theorem step_aw (cfg : Cfg) (s : St) (h : NoSpinAW s.fault) (op : Op) : NoSpinAW (Srv.step cfg s op).fault := by
  cases op with
  | env a => simp only [Srv.step]; rw [(runEnv_fw cfg [a] s).1]; exact h
  | poll order sched => exact poll_aw cfg s h order sched
  | finishW2 w c order =>
    simp only [Srv.step]
    have h1 : NoSpinAW ({ (envStep cfg s (.finish w c)).1 with acts := (envStep cfg s (.finish w c)).1.acts ++ [(envStep cfg s (.finish w c)).2] } : St).fault := by
      show NoSpinAW (envStep cfg s (.finish w c)).1.fault
      rw [(envStep_fw cfg s _).1]; exact h
    split
    · rw [(runEnv_fw cfg _ _).1]; exact poll_aw cfg _ h1 order []
    · exact h1

theorem run_aw (cfg : Cfg) : ∀ (ops : List Op) (s : St), NoSpinAW s.fault → NoSpinAW (run cfg s ops).fault := by
  intro ops; induction ops with
  | nil => intro s h; exact h
  | cons op ops ih => intro s h; simp only [run]; exact ih _ (step_aw cfg s h op)

/-- **The accept thread never fails**: after any history from the initial state of any valid
configuration, none of the model's sticky faults (the three panics of `accept.rs` / `availability.rs`
and the three "loop never terminates" faults) has been raised. -/
theorem run_fault_none {cfg : Cfg} (ok : CfgOk cfg) (kinds : List Kind) (ops : List Op) :
    (run cfg (init cfg kinds) ops).fault = none := by
  have h1 := (run_np ok ops _ (init_np cfg kinds)).nopanic
  have h2 := run_nospinAO ok ops _ (init_np cfg kinds) (by unfold NoSpinAO; simp [init])
  have h3 := run_aw cfg ops (init cfg kinds) (by unfold NoSpinAW; simp [init])
  unfold NoPanic at h1; unfold NoSpinAO at h2; unfold NoSpinAW at h3
  cases hf : (run cfg (init cfg kinds) ops).fault with
  | none => rfl
  | some f =>
    rw [hf] at h1 h2 h3
    cases f <;> simp at h1 h2 h3

end ActixNet.Srv
