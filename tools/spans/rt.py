"""T1 spans for actix-rt (C09, C10): structural facts the `Rt` model's transition rules are written from.

Real threads cannot be translated into a kernel, so these spans do not produce executable kernels
but *shape facts*: each is a Bool regenerated from the current source text (comments stripped).
`ActixNet.Props.C09/C10` prove `source_shape_*` = "all facts are true" by `decide`; a change to the
decisive lines (the `Exit` arm no longer stops the arbiters, `Stop => continue`, Register sent after
the ready signal, …) regenerates a `false` and the obligation breaks."""
_SYS = "actix-rt/src/system.rs"
_ARB = "actix-rt/src/arbiter.rs"


def _ws(rx):
    """a readable pattern -> whitespace-insensitive regex"""
    return r"\s*".join(re.escape(p) for p in rx.split())


def _has(text, pat):
    return re.search(_ws(pat), text, re.S) is not None


def _lean(facts):
    return "\n".join("def %s : Bool := %s" % (k, "true" if v else "false") for k, v in facts)


def _controller(src):
    m = re.search(r"impl Future for SystemController\b.*?\n\}\n", src, re.S)
    if not m:
        raise Fail("impl Future for SystemController not found")
    body = m.group(0)
    a = re.search(r"SystemCommand::Exit\(code\)\s*=>(.*?)SystemCommand::RegisterArbiter\(id, arb\)\s*=>(.*?)SystemCommand::DeregisterArbiter\(id\)\s*=>(.*)", body, re.S)
    if not a:
        raise Fail("SystemController::poll: expected the arms Exit(code), RegisterArbiter(id, arb), DeregisterArbiter(id) in this order")
    ex, reg, dereg = a.groups()
    facts = [
        ("rtExitStopsAll", _has(ex, "for arb in self . arbiters . values ( ) { arb . stop ( ) ; }")),
        ("rtExitSendsCodeOnce", _has(ex, "if let Some ( stop_tx ) = self . stop_tx . take ( ) { let _ = stop_tx . send ( code ) ; }")),
        ("rtRegisterInserts", _has(reg, "self . arbiters . insert ( id , arb ) ;")),
        ("rtDeregisterRemoves", _has(dereg, "self . arbiters . remove ( & id ) ;")),
        ("rtCtrlLoopsUntilPending", _has(body, "loop { match ready ! ( self . cmd_rx . poll_recv ( cx ) )")),
    ]
    return _lean(facts), body


def _run(src):
    m = re.search(r"pub fn run\(self\).*?\n    \}\n.*?pub fn run_with_code\(self\).*?\n    \}\n", src, re.S)
    if not m:
        raise Fail("SystemRunner::run / run_with_code not found")
    body = m.group(0)
    facts = [
        ("rtRunZeroIsOk", _has(body, "match exit_code { 0 => Ok ( ( ) ) , nonzero => Err (")),
        ("rtRunUsesRunWithCode", _has(body, "let exit_code = self . run_with_code ( ) ? ;")),
        ("rtRunWithCodeBlocksOnOneshot", _has(body, "rt . block_on ( stop_rx )")),
        ("rtStopSendsExit", _has(src, "pub fn stop_with_code ( & self , code : i32 ) { let _ = self . sys_tx . send ( SystemCommand :: Exit ( code ) ) ; }")),
    ]
    return _lean(facts), body + re.search(r"pub fn stop_with_code.*?\n    \}\n", src, re.S).group(0)


def _thread(src):
    m = re.search(r"pub fn with_tokio_rt<F>\(runtime_factory: F\) -> Arbiter.*?\n    \}\n", src, re.S)
    if not m:
        raise Fail("Arbiter::with_tokio_rt not found")
    body = m.group(0)
    marks = [
        ("set_current", "System :: set_current ( sys ) ;"),
        ("handle", "HANDLE . with ( | cell | * cell . borrow_mut ( ) = Some ( hnd . clone ( ) ) ) ;"),
        ("register", "send ( SystemCommand :: RegisterArbiter ( arb_id , hnd ) ) ;"),
        ("ready", "ready_tx . send ( ( ) ) . unwrap ( ) ;"),
        ("run", "rt . block_on ( ArbiterRunner { rx } ) ;"),
        ("deregister", "send ( SystemCommand :: DeregisterArbiter ( arb_id ) ) ;"),
        ("wait_ready", "ready_rx . recv ( ) . unwrap ( ) ;"),
        ("return", "Arbiter { tx , thread_handle }"),
    ]
    pos = {}
    for name, pat in marks:
        mm = re.search(_ws(pat), body, re.S)
        if not mm:
            raise Fail("Arbiter::with_tokio_rt: statement %r not found" % pat)
        pos[name] = mm.start()
    order = [n for n, _ in sorted(pos.items(), key=lambda kv: kv[1])]
    facts = [
        ("rtThreadLocalsBeforeRegister", pos["set_current"] < pos["register"] and pos["handle"] < pos["register"]),
        ("rtRegisterBeforeReady", pos["register"] < pos["ready"]),
        ("rtReadyBeforeRun", pos["ready"] < pos["run"]),
        ("rtDeregisterAfterRun", pos["run"] < pos["deregister"]),
        ("rtNewWaitsForReady", pos["wait_ready"] < pos["return"] and pos["deregister"] < pos["wait_ready"]),
    ]
    lean = _lean(facts) + "\ndef rtThreadOrder : List String := [%s]" % ", ".join('"%s"' % n for n in order)
    return lean, body


def _runner(src):
    m = re.search(r"impl Future for ArbiterRunner\b.*?\n\}\n", src, re.S)
    if not m:
        raise Fail("impl Future for ArbiterRunner not found")
    body = m.group(0)
    h = re.search(r"impl ArbiterHandle \{.*?\n\}\n", src, re.S)
    if not h:
        raise Fail("impl ArbiterHandle not found")
    hb = h.group(0)
    a = re.search(r"impl Arbiter \{.*?\n\}\n", src, re.S)
    ab = a.group(0) if a else ""
    facts = [
        ("rtRunnerLoopsUntilPending", _has(body, "loop { match ready ! ( self . rx . poll_recv ( cx ) )")),
        ("rtRunnerClosedEnds", _has(body, "None => return Poll :: Ready ( ( ) ) ,")),
        ("rtRunnerStopEnds", _has(body, "ArbiterCommand :: Stop => { return Poll :: Ready ( ( ) ) ; }")),
        ("rtRunnerExecuteSpawnsLocal", _has(body, "ArbiterCommand :: Execute ( task_fut ) => { tokio :: task :: spawn_local ( task_fut ) ; }")),
        ("rtHandleSpawnSends", _has(hb, "self . tx . send ( ArbiterCommand :: Execute ( Box :: pin ( future ) ) ) . is_ok ( )")),
        ("rtHandleSpawnFnIsSpawn", _has(hb, "self . spawn ( async { f ( ) } )")),
        ("rtHandleStopSends", _has(hb, "self . tx . send ( ArbiterCommand :: Stop ) . is_ok ( )")),
        ("rtArbiterSpawnSends", _has(ab, "self . tx . send ( ArbiterCommand :: Execute ( Box :: pin ( future ) ) ) . is_ok ( )")),
        ("rtArbiterStopSends", _has(ab, "self . tx . send ( ArbiterCommand :: Stop ) . is_ok ( )")),
        ("rtJoinJoinsThread", _has(ab, "self . thread_handle . join ( )")),
    ]
    return _lean(facts), body + hb


register("rt_controller_poll", span_custom(_SYS, _controller))
register("rt_run", span_custom(_SYS, _run))
register("rt_arbiter_thread", span_custom(_ARB, _thread))
register("rt_runner_and_handle", span_custom(_ARB, _runner))
