import ActixNet.Lemmas.SrvListen
/-!
# No connection is left waiting behind the accept thread's own bookkeeping (for C03)

`JInv`: at every iteration boundary of a clean history, a listener that is in the poll set, has no
readiness event pending, has connections waiting and is not backing off exists only while NO worker
is marked available (`JP … []`).  Threaded through the whole accept program (`run_JInv`); the only
assumption is `OpsOk`: every `poll` is given at least the listeners epoll would report.
-/
namespace ActixNet.Srv
open ActixNet

/-- a registered listener with connections waiting, no readiness event pending and no back-off:
only the accept thread's own bookkeeping (availability) stands between these connections and a worker -/
def Need (s : St) (l : Nat) : Prop :=
  (s.lst l).registered = true ∧ (s.lst l).edge = false ∧ (s.lst l).backlog ≠ [] ∧ (s.lst l).deadline = none

/-- no sticky fault and no injected (impossible) `WouldBlock` so far -/
def Clean (s : St) : Prop := s.fault = none ∧ s.spuriousWB = false

/-- `s'` is at least as dirty as `s`: faults and the ghost flag are sticky -/
def Sticky (s s' : St) : Prop := (s.fault.isSome = true → s'.fault.isSome = true) ∧ (s.spuriousWB = true → s'.spuriousWB = true)

theorem Sticky.refl (s : St) : Sticky s s := ⟨id, id⟩
theorem Sticky.trans {a b c : St} (h1 : Sticky a b) (h2 : Sticky b c) : Sticky a c :=
  ⟨fun h => h2.1 (h1.1 h), fun h => h2.2 (h1.2 h)⟩
theorem Sticky.clean {s s'} (h : Sticky s s') (c : Clean s') : Clean s := by
  refine ⟨?_, ?_⟩
  · cases hf : s.fault with
    | none => rfl
    | some f => have := h.1 (by simp [hf]); rw [c.1] at this; simp at this
  · cases hw : s.spuriousWB with
    | false => rfl
    | true => have := h.2 hw; rw [c.2] at this; cases this

theorem envStep_fw (cfg : Cfg) (s : St) (a : EnvAct) :
    (envStep cfg s a).1.fault = s.fault ∧ (envStep cfg s a).1.spuriousWB = s.spuriousWB := by
  cases a <;> simp only [envStep] <;> (repeat' split) <;> first | exact ⟨rfl, rfl⟩ | (simp [pushWq])

theorem runEnv_fw (cfg : Cfg) : ∀ (as : List EnvAct) (s : St),
    (runEnv cfg s as).fault = s.fault ∧ (runEnv cfg s as).spuriousWB = s.spuriousWB := by
  intro as; induction as with
  | nil => intro s; exact ⟨rfl, rfl⟩
  | cons a as ih =>
    intro s; simp only [runEnv]
    obtain ⟨i1, i2⟩ := ih { (envStep cfg s a).1 with acts := (envStep cfg s a).1.acts ++ [(envStep cfg s a).2] }
    obtain ⟨e1, e2⟩ := envStep_fw cfg s a
    exact ⟨by rw [i1]; exact e1, by rw [i2]; exact e2⟩

theorem yieldPt_fw (cfg : Cfg) (s : St) : (yieldPt cfg s).fault = s.fault ∧ (yieldPt cfg s).spuriousWB = s.spuriousWB := by
  unfold yieldPt; split
  · exact ⟨rfl, rfl⟩
  · obtain ⟨a, b⟩ := runEnv_fw cfg _ { s with sched := _, yields := s.yields + 1 }; exact ⟨a, b⟩

theorem yieldPt_sticky (cfg : Cfg) (s : St) : Sticky s (yieldPt cfg s) := by
  obtain ⟨a, b⟩ := yieldPt_fw cfg s; exact ⟨by rw [a]; exact id, by rw [b]; exact id⟩

theorem setAvail_sticky (s : St) (i : Nat) (v : Bool) : Sticky s (setAvail s i v) := by
  unfold setAvail; split
  · exact ⟨id, id⟩
  · exact ⟨fun _ => rfl, id⟩
theorem setNext_sticky (s : St) : Sticky s (setNext s) := by
  unfold setNext; split
  · exact ⟨fun _ => rfl, id⟩
  · exact ⟨id, id⟩
theorem incPrim_sticky (cfg : Cfg) (s : St) (w i : Nat) : Sticky s (incPrim cfg s w i) := by
  unfold incPrim; simp only; split
  · exact ⟨id, id⟩
  · exact Sticky.trans (b := { s with wk := upd s.wk w { s.wk w with c := (s.wk w).c + 1 }, pend := none })
      ⟨id, id⟩ (setAvail_sticky _ i false)
theorem sendFail_sticky (s : St) (w : Nat) (c : Conn) : Sticky s (sendFail s w c).1 := by
  have h : Sticky s (removeNext s w) := by
    unfold removeNext; simp only
    exact Sticky.trans (b := { s with handles := swapRemove s.handles s.next, faultedLog := s.faultedLog ++ [(s.wk w).idx] })
      ⟨id, id⟩ (setAvail_sticky _ _ false)
  unfold sendFail; simp only
  split
  · exact Sticky.trans h ⟨id, id⟩
  · split
    · exact Sticky.trans h ⟨id, id⟩
    · exact h

theorem sendConnection_sticky (cfg : Cfg) (s : St) (c : Conn) : Sticky s (sendConnection cfg s c).1 := by
  unfold sendConnection
  split
  · exact Sticky.refl s
  · split
    · exact ⟨fun _ => rfl, id⟩
    · rename_i w _
      split
      · refine Sticky.trans (b := sendPrim s w c) ⟨id, id⟩ ?_
        exact Sticky.trans (yieldPt_sticky cfg _) (Sticky.trans (incPrim_sticky cfg _ _ _) (setNext_sticky _))
      · exact sendFail_sticky s w c

theorem forcedSend_sticky (cfg : Cfg) : ∀ (fuel : Nat) (s : St) (c : Conn), Sticky s (forcedSend cfg fuel s c) := by
  intro fuel; induction fuel with
  | zero => intro s c; exact ⟨fun _ => rfl, id⟩
  | succ f ih =>
    intro s c
    simp only [forcedSend]
    have h1 := sendConnection_sticky cfg s c
    generalize sendConnection cfg s c = r at h1
    obtain ⟨s1, b⟩ := r
    cases b with
    | true => exact h1
    | false => exact Sticky.trans h1 (ih s1 c)

theorem acceptOne_sticky (cfg : Cfg) : ∀ (fuel : Nat) (s : St) (c : Conn), Sticky s (acceptOne cfg fuel s c) := by
  intro fuel; induction fuel with
  | zero => intro s c; exact ⟨fun _ => rfl, id⟩
  | succ f ih =>
    intro s c
    simp only [acceptOne]
    split
    · exact Sticky.refl s
    · split
      · exact ⟨fun _ => rfl, id⟩
      · rename_i w _
        split
        · have h1 := sendConnection_sticky cfg s c
          generalize sendConnection cfg s c = r at h1
          obtain ⟨s1, b⟩ := r
          cases b with
          | true => exact h1
          | false => exact Sticky.trans h1 (ih s1 c)
        · have h1 : Sticky s (setNext (setAvail s (s.wk w).idx false)) :=
            Sticky.trans (setAvail_sticky s _ false) (setNext_sticky _)
          split
          · exact Sticky.trans h1 (forcedSend_sticky cfg _ _ c)
          · exact Sticky.trans h1 (ih _ c)


/-- dispatch work only ever shrinks availability, never makes a listener newly "stuck", and keeps
the flags sticky -/
structure Shrinks (s s' : St) : Prop where
  avail : ∀ i, s'.avail i = true → s.avail i = true
  need : ∀ l, Need s' l → Need s l
  nlst : s'.nLst = s.nLst
  sticky : Sticky s s'

theorem Shrinks.refl (s : St) : Shrinks s s := ⟨fun _ h => h, fun _ h => h, rfl, Sticky.refl s⟩
theorem Shrinks.trans {a b c : St} (h1 : Shrinks a b) (h2 : Shrinks b c) : Shrinks a c :=
  ⟨fun i h => h1.avail i (h2.avail i h), fun l h => h1.need l (h2.need l h), h2.nlst.trans h1.nlst,
   Sticky.trans h1.sticky h2.sticky⟩
/-- only fields outside availability / listeners / flags change -/
theorem Shrinks.of_same {s s' : St} (ha : s'.avail = s.avail) (hl : s'.lst = s.lst) (hn : s'.nLst = s.nLst)
    (hf : s'.fault = s.fault) (hw : s'.spuriousWB = s.spuriousWB) : Shrinks s s' :=
  ⟨fun i h => by rw [ha] at h; exact h, fun l h => by unfold Need at *; rw [hl] at h; exact h, hn,
   ⟨by rw [hf]; exact id, by rw [hw]; exact id⟩⟩

theorem envStep_nLst (cfg : Cfg) (s : St) (a : EnvAct) : (envStep cfg s a).1.nLst = s.nLst := by
  cases a <;> simp only [envStep] <;> (repeat' split) <;> first | rfl | (simp [pushWq])

theorem envStep_need (cfg : Cfg) (s : St) (a : EnvAct) (l' : Nat) (h : Need (envStep cfg s a).1 l') : Need s l' := by
  cases a with
  | connect l =>
    simp only [envStep] at h
    split at h
    · split at h
      · exact h
      · by_cases hl : l' = l
        · subst hl
          unfold Need at h ⊢
          simp only [upd_same] at h
          obtain ⟨h1, h2, _, _⟩ := h
          simp only [Bool.or_eq_false_iff] at h2
          rw [h2.2] at h1; cases h1
        · unfold Need at h ⊢; simpa [upd, hl] using h
    · exact h
  | inject l e =>
    simp only [envStep] at h
    split at h
    · by_cases hl : l' = l
      · subst hl; unfold Need at h ⊢; simpa [upd] using h
      · unfold Need at h ⊢; simpa [upd, hl] using h
    · exact h
  | cmd i => cases i <;> exact h
  | recv w => simp only [envStep] at h; (repeat' split at h) <;> exact h
  | finish w c => simp only [envStep] at h; (repeat' split at h) <;> exact h
  | push w => simp only [envStep] at h; (repeat' split at h) <;> exact h
  | finishNow w c => simp only [envStep] at h; (repeat' split at h) <;> exact h
  | die w => simp only [envStep] at h; (repeat' split at h) <;> exact h
  | restart i => simp only [envStep] at h; (repeat' split at h) <;> exact h
  | advance ms => exact h

theorem envStep_shrinks (cfg : Cfg) (s : St) (a : EnvAct) : Shrinks s (envStep cfg s a).1 :=
  ⟨fun i h => by rw [envStep_avail] at h; exact h, fun l h => envStep_need cfg s a l h, envStep_nLst cfg s a,
   ⟨by rw [(envStep_fw cfg s a).1]; exact id, by rw [(envStep_fw cfg s a).2]; exact id⟩⟩

theorem runEnv_shrinks (cfg : Cfg) : ∀ (as : List EnvAct) (s : St), Shrinks s (runEnv cfg s as) := by
  intro as; induction as with
  | nil => intro s; exact Shrinks.refl s
  | cons a as ih =>
    intro s; simp only [runEnv]
    have h2 : Shrinks (envStep cfg s a).1 { (envStep cfg s a).1 with acts := (envStep cfg s a).1.acts ++ [(envStep cfg s a).2] } :=
      Shrinks.of_same rfl rfl rfl rfl rfl
    exact Shrinks.trans (Shrinks.trans (envStep_shrinks cfg s a) h2) (ih _)

theorem yieldPt_shrinks (cfg : Cfg) (s : St) : Shrinks s (yieldPt cfg s) := by
  unfold yieldPt; split
  · exact Shrinks.of_same rfl rfl rfl rfl rfl
  · rename_i ch rest _
    exact Shrinks.trans (b := { s with sched := rest, yields := s.yields + 1 }) (Shrinks.of_same rfl rfl rfl rfl rfl)
      (runEnv_shrinks cfg ch _)

theorem setAvailFalse_shrinks (s : St) (i : Nat) : Shrinks s (setAvail s i false) := by
  refine ⟨?_, ?_, ?_, setAvail_sticky s i false⟩
  · intro j hj
    unfold setAvail at hj; split at hj
    · by_cases hji : j = i
      · subst hji; simp [upd] at hj
      · simpa [upd, hji] using hj
    · exact hj
  · intro l h; unfold setAvail at h; split at h <;> exact h
  · unfold setAvail; split <;> rfl

theorem setNext_shrinks (s : St) : Shrinks s (setNext s) := by
  refine ⟨?_, ?_, ?_, setNext_sticky s⟩
  · intro j hj; unfold setNext at hj; split at hj <;> exact hj
  · intro l h; unfold setNext at h; split at h <;> exact h
  · unfold setNext; split <;> rfl

theorem incPrim_shrinks (cfg : Cfg) (s : St) (w i : Nat) : Shrinks s (incPrim cfg s w i) := by
  unfold incPrim; simp only; split
  · exact Shrinks.of_same rfl rfl rfl rfl rfl
  · exact Shrinks.trans (b := { s with wk := upd s.wk w { s.wk w with c := (s.wk w).c + 1 }, pend := none })
      (Shrinks.of_same rfl rfl rfl rfl rfl) (setAvailFalse_shrinks _ i)

theorem sendFail_shrinks (s : St) (w : Nat) (c : Conn) : Shrinks s (sendFail s w c).1 := by
  have h : Shrinks s (removeNext s w) := by
    unfold removeNext; simp only
    exact Shrinks.trans (b := { s with handles := swapRemove s.handles s.next, faultedLog := s.faultedLog ++ [(s.wk w).idx] })
      (Shrinks.of_same rfl rfl rfl rfl rfl) (setAvailFalse_shrinks _ _)
  unfold sendFail; simp only
  split
  · exact Shrinks.trans h (Shrinks.of_same rfl rfl rfl rfl rfl)
  · split
    · exact Shrinks.trans h (Shrinks.of_same rfl rfl rfl rfl rfl)
    · exact h

theorem sendConnection_shrinks (cfg : Cfg) (s : St) (c : Conn) : Shrinks s (sendConnection cfg s c).1 := by
  unfold sendConnection
  split
  · exact Shrinks.refl s
  · split
    · exact ⟨fun _ h => h, fun _ h => h, rfl, ⟨fun _ => rfl, id⟩⟩
    · rename_i w _
      split
      · refine Shrinks.trans (b := sendPrim s w c) (Shrinks.of_same rfl rfl rfl rfl rfl) ?_
        exact Shrinks.trans (yieldPt_shrinks cfg _) (Shrinks.trans (incPrim_shrinks cfg _ _ _) (setNext_shrinks _))
      · exact sendFail_shrinks s w c

theorem forcedSend_shrinks (cfg : Cfg) : ∀ (fuel : Nat) (s : St) (c : Conn), Shrinks s (forcedSend cfg fuel s c) := by
  intro fuel; induction fuel with
  | zero => intro s c; exact ⟨fun _ h => h, fun _ h => h, rfl, ⟨fun _ => rfl, id⟩⟩
  | succ f ih =>
    intro s c
    simp only [forcedSend]
    have h1 := sendConnection_shrinks cfg s c
    generalize sendConnection cfg s c = r at h1
    obtain ⟨s1, b⟩ := r
    cases b with
    | true => exact h1
    | false => exact Shrinks.trans h1 (ih s1 c)

theorem acceptOne_shrinks (cfg : Cfg) : ∀ (fuel : Nat) (s : St) (c : Conn), Shrinks s (acceptOne cfg fuel s c) := by
  intro fuel; induction fuel with
  | zero => intro s c; exact ⟨fun _ h => h, fun _ h => h, rfl, ⟨fun _ => rfl, id⟩⟩
  | succ f ih =>
    intro s c
    simp only [acceptOne]
    split
    · exact Shrinks.refl s
    · split
      · exact ⟨fun _ h => h, fun _ h => h, rfl, ⟨fun _ => rfl, id⟩⟩
      · rename_i w _
        split
        · have h1 := sendConnection_shrinks cfg s c
          generalize sendConnection cfg s c = r at h1
          obtain ⟨s1, b⟩ := r
          cases b with
          | true => exact h1
          | false => exact Shrinks.trans h1 (ih s1 c)
        · have h1 : Shrinks s (setNext (setAvail s (s.wk w).idx false)) :=
            Shrinks.trans (setAvailFalse_shrinks s _) (setNext_shrinks _)
          split
          · exact Shrinks.trans h1 (forcedSend_shrinks cfg _ _ c)
          · exact Shrinks.trans h1 (ih _ c)


theorem acceptSys_shrinks (s : St) (l : Nat) : Shrinks s (acceptSys s l).1 := by
  have key : ∀ (L' : Lst), L'.registered = (s.lst l).registered → L'.edge = (s.lst l).edge →
      L'.deadline = (s.lst l).deadline → (L'.backlog ≠ [] → (s.lst l).backlog ≠ []) →
      ∀ (w : Bool), (s.spuriousWB = true → w = true) →
      Shrinks s { s with lst := upd s.lst l L', spuriousWB := w } := by
    intro L' h1 h2 h3 h4 w hw
    refine ⟨fun _ h => h, ?_, rfl, ⟨id, hw⟩⟩
    intro l' hn
    by_cases hl : l' = l
    · subst hl
      unfold Need at hn ⊢
      simp only [upd_same] at hn
      exact ⟨by rw [← h1]; exact hn.1, by rw [← h2]; exact hn.2.1, h4 hn.2.2.1, by rw [← h3]; exact hn.2.2.2⟩
    · unfold Need at hn ⊢; simpa [upd, hl] using hn
  simp only [acceptSys]
  split
  · rename_i e es hi
    split
    · split
      · exact key { s.lst l with inject := es } rfl rfl rfl (fun h => h) true (fun _ => rfl)
      · split <;> exact key { s.lst l with inject := es } rfl rfl rfl (fun h => h) s.spuriousWB id
    · exact key { s.lst l with inject := es } rfl rfl rfl (fun h => h) s.spuriousWB id
  · split
    · exact Shrinks.refl s
    · rename_i c b hb
      exact key { s.lst l with backlog := b } rfl rfl rfl (fun _ => by rw [hb]; simp) s.spuriousWB id

theorem backoff_shrinks (s : St) (l d t : Nat) :
    Shrinks s (setTimeout { (deregister s l) with lst := upd (deregister s l).lst l { (deregister s l).lst l with deadline := some d } } t) := by
  have setT : ∀ (x : St) (t : Nat), Shrinks x (setTimeout x t) := by
    intro x t; unfold setTimeout; split
    · split <;> exact Shrinks.of_same rfl rfl rfl rfl rfl
    · exact Shrinks.of_same rfl rfl rfl rfl rfl
  refine Shrinks.trans ?_ (setT _ t)
  refine ⟨fun _ h => h, ?_, rfl, ⟨id, id⟩⟩
  intro l' hn
  by_cases hl : l' = l
  · subst hl; unfold Need at hn; simp [upd, deregister] at hn
  · unfold Need at hn ⊢; simpa [upd, hl, deregister] using hn

theorem accept_shrinks (cfg : Cfg) : ∀ (fuel : Nat) (s : St) (l : Nat), Shrinks s (accept cfg fuel s l) := by
  intro fuel; induction fuel with
  | zero => intro s l; exact ⟨fun _ h => h, fun _ h => h, rfl, ⟨fun _ => rfl, id⟩⟩
  | succ f ih =>
    intro s l
    simp only [accept]
    split
    · exact Shrinks.refl s
    · split
      · exact Shrinks.refl s
      · have h0 := yieldPt_shrinks cfg s
        have h1 := acceptSys_shrinks (yieldPt cfg s) l
        generalize acceptSys (yieldPt cfg s) l = r at h1
        obtain ⟨s1, res⟩ := r
        have h01 : Shrinks s s1 := Shrinks.trans h0 h1
        cases res with
        | conn c => exact Shrinks.trans h01 (Shrinks.trans (acceptOne_shrinks cfg _ s1 c) (ih _ l))
        | wouldBlock => exact h01
        | connErr => exact Shrinks.trans h01 (ih _ l)
        | otherErr => exact Shrinks.trans h01 (backoff_shrinks s1 l _ _)

theorem anyAvail_mono {cfg : Cfg} {s s' : St} (h : ∀ i, s'.avail i = true → s.avail i = true)
    (ha : anyAvail cfg s = false) : anyAvail cfg s' = false := by
  unfold anyAvail at *
  rw [Bool.eq_false_iff] at *
  intro hc
  apply ha
  obtain ⟨i, hi, hav⟩ := List.any_eq_true.mp hc
  exact List.any_eq_true.mpr ⟨i, hi, h i hav⟩

/-- the accept loop on a listener stops only because no worker is available any more, or the
listener has nothing left, or it entered back-off (or a fault / injected WouldBlock occurred) -/
theorem accept_stops (cfg : Cfg) : ∀ (fuel : Nat) (s : St) (l : Nat), Clean (accept cfg fuel s l) →
      anyAvail cfg (accept cfg fuel s l) = false ∨
      ((accept cfg fuel s l).lst l).backlog = [] ∨
      ((accept cfg fuel s l).lst l).deadline.isSome = true := by
  intro fuel
  induction fuel with
  | zero => intro s l h; have := h.1; simp [accept] at this
  | succ fuel ih =>
    intro s l
    simp only [accept]
    split
    · rename_i hf; intro h; rw [h.1] at hf; simp at hf
    · split
      · rename_i hany; intro _; left; simpa using hany
      · cases hsys : acceptSys (yieldPt cfg s) l with
        | mk s1 r =>
          cases r with
          | conn c => exact ih _ l
          | connErr => exact ih _ l
          | wouldBlock =>
            intro hc
            simp only [acceptSys] at hsys
            split at hsys
            · rename_i e es hinj
              cases e with
              | kind k =>
                simp only at hsys
                split at hsys
                · exfalso
                  have : s1.spuriousWB = true := by cases hsys; rfl
                  have h2 := hc.2; simp only at h2; rw [this] at h2; cases h2
                · split at hsys <;> cases hsys
              | emfile => cases hsys
            · right; left
              split at hsys
              · rename_i hb; cases hsys; exact hb
              · cases hsys
          | otherErr =>
            intro _
            right; right
            simp only [setTimeout]
            split
            · split <;> simp [deregister, upd]
            · simp [deregister, upd]

/-- every stuck listener (see `Need`) is explained: no worker is available, or its readiness event is
still to be processed in this batch (`pend`) -/
def JP (cfg : Cfg) (s : St) (pend : List Nat) : Prop :=
  ∀ l, l < s.nLst → Need s l → anyAvail cfg s = false ∨ l ∈ pend

theorem accept_JP (cfg : Cfg) (fuel : Nat) (s : St) (l : Nat) (pend : List Nat) (hc : Clean (accept cfg fuel s l))
    (h : JP cfg s (l :: pend)) : JP cfg (accept cfg fuel s l) pend := by
  have sh := accept_shrinks cfg fuel s l
  intro l' hl' hn
  by_cases hll : l' = l
  · subst hll
    rcases accept_stops cfg fuel s l' hc with h1 | h1 | h1
    · exact Or.inl h1
    · exact absurd h1 hn.2.2.1
    · rw [hn.2.2.2] at h1; cases h1
  · rw [sh.nlst] at hl'
    rcases h l' hl' (sh.need l' hn) with h1 | h1
    · exact Or.inl (anyAvail_mono sh.avail h1)
    · rcases List.mem_cons.mp h1 with h2 | h2
      · exact absurd h2 hll
      · exact Or.inr h2


theorem JP.shrinks {cfg : Cfg} {s s' : St} {pend : List Nat} (sh : Shrinks s s') (h : JP cfg s pend) : JP cfg s' pend := by
  intro l hl hn
  rw [sh.nlst] at hl
  rcases h l hl (sh.need l hn) with h1 | h1
  · exact Or.inl (anyAvail_mono sh.avail h1)
  · exact Or.inr h1

theorem JP.weaken {cfg : Cfg} {s : St} {p q : List Nat} (h : JP cfg s p) (hpq : ∀ l, l ∈ p → l ∈ q) : JP cfg s q := by
  intro l hl hn
  rcases h l hl hn with h1 | h1
  · exact Or.inl h1
  · exact Or.inr (hpq l h1)

theorem acceptAllFrom_shrinks (cfg : Cfg) : ∀ (ls : List Nat) (s : St), Shrinks s (acceptAllFrom cfg s ls) := by
  intro ls; induction ls with
  | nil => intro s; exact Shrinks.refl s
  | cons l ls ih => intro s; simp only [acceptAllFrom]; exact Shrinks.trans (accept_shrinks cfg _ s l) (ih _)

theorem acceptAllFrom_JP (cfg : Cfg) : ∀ (ls : List Nat) (s : St) (pend : List Nat), Clean (acceptAllFrom cfg s ls) →
    JP cfg s (ls ++ pend) → JP cfg (acceptAllFrom cfg s ls) pend := by
  intro ls; induction ls with
  | nil => intro s pend _ h; simp only [acceptAllFrom]; simpa using h
  | cons l ls ih =>
    intro s pend hc h
    simp only [acceptAllFrom] at hc ⊢
    have hc1 : Clean (accept cfg (acceptFuel s l) s l) := (acceptAllFrom_shrinks cfg ls _).sticky.clean hc
    exact ih _ pend hc (accept_JP cfg _ s l (ls ++ pend) hc1 (by simpa using h))

/-- after `accept_all`, every stuck listener is explained by "no worker available" alone -/
theorem acceptAll_J (cfg : Cfg) (s : St) (hc : Clean (acceptAll cfg s)) : JP cfg (acceptAll cfg s) [] := by
  unfold acceptAll at hc ⊢
  apply acceptAllFrom_JP cfg _ s [] hc
  intro l hl _
  exact Or.inr (by simp [List.mem_range.mpr hl])

/-- while paused nothing is stuck: no listener is registered -/
theorem JP.of_paused {cfg : Cfg} {s : St} (h : LInv s) (hp : s.paused = true) (pend : List Nat) : JP cfg s pend := by
  intro l hl hn
  have := h.pd hp l hl
  simp only [lview] at this
  rw [hn.1] at this; cases this

theorem handleWaker_shrinks_sticky (cfg : Cfg) : ∀ (fuel : Nat) (s : St), Sticky s (handleWaker cfg fuel s).1 := by
  intro fuel; induction fuel with
  | zero => intro s; exact ⟨fun _ => rfl, id⟩
  | succ f ih =>
    intro s
    simp only [handleWaker]
    split
    · exact Sticky.refl s
    · have h0 := yieldPt_sticky cfg s
      generalize yieldPt cfg s = s0 at h0 ⊢
      cases hwq : s0.wq with
      | nil => exact h0
      | cons i q =>
        simp only
        have h1 : Sticky s { s0 with wq := q } := Sticky.trans h0 ⟨id, id⟩
        have aA : ∀ x : St, Sticky x (acceptAll cfg x) := fun x => (acceptAllFrom_shrinks cfg _ x).sticky
        cases i with
        | workerAvail idx =>
          have h2 : Sticky s (wakePrim { s0 with wq := q } idx) := by
            refine Sticky.trans h1 ?_
            unfold wakePrim; split
            · unfold setAvail; split
              · exact ⟨id, id⟩
              · exact ⟨fun _ => rfl, id⟩
            · exact Sticky.refl _
          simp only
          split
          · exact Sticky.trans (Sticky.trans h2 (aA _)) (ih _)
          · exact Sticky.trans h2 (ih _)
        | worker w =>
          have h2 : Sticky s (addWorker { s0 with wq := q } w) := by
            refine Sticky.trans h1 ?_
            unfold addWorker setAvail; simp only; split
            · exact ⟨id, id⟩
            · exact ⟨fun _ => rfl, id⟩
          simp only
          split
          · exact Sticky.trans (Sticky.trans h2 (aA _)) (ih _)
          · exact Sticky.trans h2 (ih _)
        | pause =>
          simp only
          split
          · have : Sticky { s0 with wq := q } (deregisterAll { s0 with wq := q, paused := true }) := by
              have f := deregisterAllFrom_vframe (List.range s0.nLst) { s0 with wq := q, paused := true }
              have w : (deregisterAllFrom { s0 with wq := q, paused := true } (List.range s0.nLst)).spuriousWB = s0.spuriousWB := by
                generalize List.range s0.nLst = ls
                have : ∀ (ls : List Nat) (t : St), (deregisterAllFrom t ls).spuriousWB = t.spuriousWB := by
                  intro ls; induction ls with
                  | nil => intro t; rfl
                  | cons a as ih2 => intro t; simp only [deregisterAllFrom]; rw [ih2]; split <;> rfl
                exact this ls _
              exact ⟨by unfold deregisterAll; rw [f.2]; exact id, by unfold deregisterAll; rw [w]; exact id⟩
            exact Sticky.trans (Sticky.trans h1 this) (ih _)
          · exact Sticky.trans h1 (ih _)
        | resume =>
          simp only
          split
          · have : Sticky { s0 with wq := q } (registerAllFrom { s0 with wq := q, paused := false } (List.range s0.nLst)) := by
              have f := registerAllFrom_vframe (List.range s0.nLst) { s0 with wq := q, paused := false }
              have w : ∀ (ls : List Nat) (t : St), (registerAllFrom t ls).spuriousWB = t.spuriousWB := by
                intro ls; induction ls with
                | nil => intro t; rfl
                | cons a as ih2 =>
                  intro t; simp only [registerAllFrom]; rw [ih2]
                  simp only [register]; split <;> rfl
              exact ⟨by rw [f.2]; exact id, by rw [w]; exact id⟩
            exact Sticky.trans (Sticky.trans (Sticky.trans h1 this) (aA _)) (ih _)
          · exact Sticky.trans h1 (ih _)
        | stop =>
          simp only
          have dA : ∀ t : St, Sticky t (deregisterAll t) := by
            intro t
            have f := deregisterAllFrom_vframe (List.range t.nLst) t
            have w : ∀ (ls : List Nat) (t : St), (deregisterAllFrom t ls).spuriousWB = t.spuriousWB := by
              intro ls; induction ls with
              | nil => intro t; rfl
              | cons a as ih2 => intro t; simp only [deregisterAllFrom]; rw [ih2]; split <;> rfl
            exact ⟨by unfold deregisterAll; rw [f.2]; exact id, by unfold deregisterAll; rw [w]; exact id⟩
          split
          · exact Sticky.trans h1 (Sticky.trans (dA _) ⟨id, id⟩)
          · exact Sticky.trans h1 ⟨id, id⟩


theorem handleWaker_JP (cfg : Cfg) : ∀ (fuel : Nat) (s : St) (pend : List Nat), LInv s → JP cfg s pend →
    Clean (handleWaker cfg fuel s).1 → (handleWaker cfg fuel s).2 = false → JP cfg (handleWaker cfg fuel s).1 pend := by
  intro fuel; induction fuel with
  | zero => intro s pend _ _ hc _; have := hc.1; simp [handleWaker] at this
  | succ f ih =>
    intro s pend hl hj hc hex
    simp only [handleWaker] at hc hex ⊢
    split at hc
    · rename_i hf; rw [hc.1] at hf; simp at hf
    · rename_i hf
      simp only [hf, Bool.false_eq_true, ↓reduceIte] at hex ⊢
      have hl0 : LInv (yieldPt cfg s) := linv_of_eq (yieldPt_lview cfg s) hl
      have hj0 : JP cfg (yieldPt cfg s) pend := hj.shrinks (yieldPt_shrinks cfg s)
      generalize yieldPt cfg s = s0 at hl0 hj0 hc hex ⊢
      cases hwq : s0.wq with
      | nil => simp only [hwq] at hc ⊢; exact hj0
      | cons i q =>
        simp only [hwq] at hc hex ⊢
        have hl1 : LInv { s0 with wq := q } := linv_of_eq (s := s0) rfl hl0
        have hj1 : JP cfg { s0 with wq := q } pend := hj0.shrinks (Shrinks.of_same rfl rfl rfl rfl rfl)
        cases i with
        | workerAvail idx =>
          simp only at hc hex ⊢
          have hl2 : LInv (wakePrim { s0 with wq := q } idx) := linv_of_eq (wakePrim_lview _ idx) hl1
          split at hc
          · rename_i hnp
            simp only [if_pos hnp] at hex ⊢
            have hl3 := acceptAll_linv cfg hl2
            have hc3 : Clean (acceptAll cfg (wakePrim { s0 with wq := q } idx)) := (handleWaker_shrinks_sticky cfg f _).clean hc
            exact ih _ pend hl3 ((acceptAll_J cfg _ hc3).weaken (fun l h => by cases h)) hc hex
          · rename_i hnp
            simp only [if_neg hnp] at hex ⊢
            have hp : (wakePrim { s0 with wq := q } idx).paused = true := by simpa using hnp
            exact ih _ pend hl2 (JP.of_paused hl2 hp pend) hc hex
        | worker w =>
          simp only at hc hex ⊢
          have hl2 : LInv (addWorker { s0 with wq := q } w) := linv_of_eq (addWorker_lview _ w) hl1
          split at hc
          · rename_i hnp
            simp only [if_pos hnp] at hex ⊢
            have hl3 := acceptAll_linv cfg hl2
            have hc3 : Clean (acceptAll cfg (addWorker { s0 with wq := q } w)) := (handleWaker_shrinks_sticky cfg f _).clean hc
            exact ih _ pend hl3 ((acceptAll_J cfg _ hc3).weaken (fun l h => by cases h)) hc hex
          · rename_i hnp
            simp only [if_neg hnp] at hex ⊢
            have hp : (addWorker { s0 with wq := q } w).paused = true := by simpa using hnp
            exact ih _ pend hl2 (JP.of_paused hl2 hp pend) hc hex
        | pause =>
          simp only at hc hex ⊢
          split at hc
          · rename_i hnp
            simp only [if_pos hnp] at hex ⊢
            have hl2 := pause_linv _ hl1
            have hp : (deregisterAll { s0 with wq := q, paused := true }).paused = true := by
              have := (deregisterAllFrom_lview (List.range s0.nLst) { s0 with wq := q, paused := true } (fun l d hd => hl1.dd l d hd)).2.2.1
              unfold deregisterAll; rw [this]
            exact ih _ pend hl2 (JP.of_paused hl2 hp pend) hc hex
          · rename_i hnp
            simp only [if_neg hnp] at hex ⊢
            exact ih _ pend hl1 hj1 hc hex
        | resume =>
          simp only at hc hex ⊢
          split at hc
          · rename_i hnp
            simp only [if_pos hnp] at hex ⊢
            have hl2 := resume_linv _ hl1
            have hl3 := acceptAll_linv cfg hl2
            have hc3 : Clean (acceptAll cfg (registerAllFrom { s0 with wq := q, paused := false } (List.range s0.nLst))) :=
              (handleWaker_shrinks_sticky cfg f _).clean hc
            exact ih _ pend hl3 ((acceptAll_J cfg _ hc3).weaken (fun l h => by cases h)) hc hex
          · rename_i hnp
            simp only [if_neg hnp] at hex ⊢
            exact ih _ pend hl1 hj1 hc hex
        | stop => simp at hex


/-- the listeners that have an event in this batch -/
def evListeners (order : List Ev) : List Nat :=
  order.filterMap (fun e => match e with | .listener l => some l | .waker => none)

theorem pollEvents_sticky (cfg : Cfg) : ∀ (order : List Ev) (s : St), Sticky s (pollEvents cfg s order).1 := by
  intro order; induction order with
  | nil => intro s; exact Sticky.refl s
  | cons e es ih =>
    intro s
    simp only [pollEvents]
    cases e with
    | waker =>
      simp only
      have hw := handleWaker_shrinks_sticky cfg (wakerFuel s) s
      generalize handleWaker cfg (wakerFuel s) s = r at hw
      obtain ⟨s1, ex⟩ := r
      simp only at hw ⊢
      split
      · exact hw
      · exact Sticky.trans hw (ih s1)
    | listener l => exact Sticky.trans (accept_shrinks cfg _ s l).sticky (ih _)

theorem pollEvents_JP (cfg : Cfg) : ∀ (order : List Ev) (s : St), LInv s → JP cfg s (evListeners order) →
    Clean (pollEvents cfg s order).1 → (pollEvents cfg s order).2 = false → JP cfg (pollEvents cfg s order).1 [] := by
  intro order; induction order with
  | nil => intro s _ hj _ _; simpa [pollEvents, evListeners] using hj
  | cons e es ih =>
    intro s hl hj hc hex
    simp only [pollEvents] at hc hex ⊢
    cases e with
    | waker =>
      simp only at hc hex ⊢
      have hj' : JP cfg s (evListeners es) := by simpa [evListeners] using hj
      have hw := handleWaker_JP cfg (wakerFuel s) s (evListeners es) hl hj'
      have hwl := handleWaker_linv cfg (wakerFuel s) s hl
      generalize handleWaker cfg (wakerFuel s) s = r at hw hwl hc hex
      obtain ⟨s1, ex⟩ := r
      simp only at hw hwl hc hex ⊢
      cases ex with
      | true => simp at hex
      | false =>
        simp only [Bool.false_eq_true, ↓reduceIte] at hc hex ⊢
        have hc1 : Clean s1 := (pollEvents_sticky cfg es s1).clean hc
        exact ih s1 hwl (hw hc1 rfl) hc hex
    | listener l =>
      simp only at hc hex ⊢
      have hj' : JP cfg s (l :: evListeners es) := by simpa [evListeners] using hj
      have hc1 : Clean (accept cfg (acceptFuel s l) s l) := (pollEvents_sticky cfg es _).clean hc
      exact ih _ (accept_linv cfg _ s l hl) (accept_JP cfg _ s l _ hc1 hj') hc hex

theorem processTimeoutFrom_need (now : Nat) : ∀ (ls : List Nat) (s : St), LInv s →
    (∀ l', Need (processTimeoutFrom s now ls) l' → Need s l') ∧ (processTimeoutFrom s now ls).avail = s.avail ∧
    (processTimeoutFrom s now ls).nLst = s.nLst := by
  intro ls; induction ls with
  | nil => intro s _; exact ⟨fun _ h => h, rfl, rfl⟩
  | cons l ls ih =>
    intro s hl
    simp only [processTimeoutFrom]
    split
    · exact ih s hl
    · rename_i inst hdl
      have hreg : (s.lst l).registered = false := hl.dd l inst hdl
      -- the state after treating `l`; it satisfies LInv again and creates no new stuck listener
      have key : ∀ t : St, LInv t → (∀ l', Need t l' → Need s l') → t.avail = s.avail → t.nLst = s.nLst →
          (∀ l', Need (processTimeoutFrom t now ls) l' → Need s l') ∧ (processTimeoutFrom t now ls).avail = s.avail ∧
          (processTimeoutFrom t now ls).nLst = s.nLst := by
        intro t ht hn ha hnl
        obtain ⟨i1, i2, i3⟩ := ih t ht
        exact ⟨fun l' h => hn l' (i1 l' h), by rw [i2, ha], by rw [i3, hnl]⟩
      have hstep := processTimeoutFrom_linv now [l] s hl
      simp only [processTimeoutFrom, hdl] at hstep
      refine key _ hstep ?_ ?_ ?_
      · intro l' hn
        by_cases hll : l' = l
        · subst hll
          exfalso
          split at hn
          · unfold Need at hn
            have : ∀ (x : St) (t : Nat), (setTimeout x t).lst = x.lst := by
              intro x t; unfold setTimeout; split
              · split <;> rfl
              · rfl
            rw [this] at hn; simp [upd] at hn
          · split at hn
            · unfold Need at hn
              simp only [register, upd_same, hreg, Bool.false_eq_true, ↓reduceIte] at hn
              obtain ⟨_, h2, h3, _⟩ := hn
              simp at h2 h3; exact h3 h2
            · unfold Need at hn; simp [upd, hreg] at hn
        · have other : ∀ (x : St), (x.lst l' = s.lst l') → Need x l' → Need s l' := by
            intro x hx h; unfold Need at h ⊢; rw [hx] at h; exact h
          split at hn
          · refine other _ ?_ hn
            have : ∀ (x : St) (t : Nat), (setTimeout x t).lst = x.lst := by
              intro x t; unfold setTimeout; split
              · split <;> rfl
              · rfl
            rw [this]; simp [upd, hll]
          · split at hn
            · refine other _ ?_ hn
              simp only [register]; split <;> simp [upd, hll]
            · exact other _ (by simp [upd, hll]) hn
      · split
        · unfold setTimeout; split
          · split <;> rfl
          · rfl
        · split
          · simp only [register]; split <;> rfl
          · rfl
      · split
        · unfold setTimeout; split
          · split <;> rfl
          · rfl
        · split
          · simp only [register]; split <;> rfl
          · rfl


/-- mio reports (at least) every listener that is ready — the environment assumption about epoll;
the correspondence run checks it on every iteration (`ev=ok`) -/
def OrderOk (s : St) (order : List Ev) : Prop := ∀ l ∈ readyListeners s, l ∈ evListeners order

theorem processTimeout_JP (cfg : Cfg) (s : St) (hl : LInv s) (hj : JP cfg s []) : JP cfg (processTimeout s) [] := by
  unfold processTimeout
  split
  · exact hj
  · obtain ⟨i1, i2, i3⟩ := processTimeoutFrom_need s.now (List.range s.nLst) { s with timeout := none } (linv_of_eq rfl hl)
    intro l hln hn
    rw [i3] at hln
    rcases hj l hln (i1 l hn) with h | h
    · left; unfold anyAvail at h ⊢; rw [i2]; exact h
    · cases h

theorem poll_J (cfg : Cfg) (s : St) (order : List Ev) (sched : List (List EnvAct)) (hl : LInv s) (hj : JP cfg s [])
    (ho : OrderOk s order) (hc : Clean (poll cfg s order sched)) (hne : (poll cfg s order sched).exited = false) :
    JP cfg (poll cfg s order sched) [] := by
  unfold poll at hc hne ⊢
  split at hc
  · rename_i h; simp only [h, ↓reduceIte]; exact hj
  · rename_i h
    simp only [h, Bool.false_eq_true, ↓reduceIte] at hne ⊢
    have hl0 : LInv (clearEdges { s with sched := sched, yields := 0 }) := by
      apply linv_of_eq (s := s) _ hl
      simp only [lview, clearEdges]
      congr 1 <;> (funext l; split <;> rfl)
    have hj0 : JP cfg (clearEdges { s with sched := sched, yields := 0 }) (evListeners order) := by
      intro l hln hn
      have hln' : l < s.nLst := hln
      unfold Need at hn
      simp only [clearEdges, hln', ↓reduceIte] at hn
      by_cases he : (s.lst l).edge = true
      · right
        apply ho
        unfold readyListeners
        rw [List.mem_filter]
        refine ⟨List.mem_range.mpr hln', ?_⟩
        have hb : (s.lst l).backlog.isEmpty = false := by
          cases hbl : (s.lst l).backlog with
          | nil => exact absurd hbl hn.2.2.1
          | cons _ _ => rfl
        simp [hn.1, he, hb]
      · left
        have he' : (s.lst l).edge = false := by simpa using he
        rcases hj l hln' ⟨hn.1, he', hn.2.2.1, hn.2.2.2⟩ with h1 | h1
        · exact h1
        · cases h1
    have h1 := pollEvents_JP cfg order _ hl0 hj0
    have hl1 := pollEvents_linv cfg order _ hl0
    generalize (pollEvents cfg (clearEdges { s with sched := sched, yields := 0 }) order) = r at h1 hl1 hc hne
    obtain ⟨s1, ex⟩ := r
    unfold pollFinish at hc hne ⊢
    cases ex with
    | true => simp at hne
    | false =>
      simp only [Bool.false_eq_true, ↓reduceIte] at hc hne h1 hl1 ⊢
      have hc1 : Clean s1 := by
        have hs : Sticky s1 (processTimeout s1) := by
          have f := processTimeout_vframe s1
          have w : (processTimeout s1).spuriousWB = s1.spuriousWB := by
            unfold processTimeout; split
            · rfl
            · generalize List.range s1.nLst = ls
              have : ∀ (ls : List Nat) (t : St), (processTimeoutFrom t s1.now ls).spuriousWB = t.spuriousWB := by
                intro ls; induction ls with
                | nil => intro t; rfl
                | cons a as ih2 =>
                  intro t; simp only [processTimeoutFrom]; split
                  · exact ih2 t
                  · rw [ih2]; split
                    · unfold setTimeout; split
                      · split <;> rfl
                      · rfl
                    · split
                      · simp only [register]; split <;> rfl
                      · rfl
              exact this ls _
          exact ⟨by rw [f.2]; exact id, by rw [w]; exact id⟩
        exact hs.clean ⟨hc.1, hc.2⟩
      have := processTimeout_JP cfg s1 hl1 (h1 hc1 trivial)
      exact this.shrinks (Shrinks.of_same rfl rfl rfl rfl rfl)

/-- the boundary invariant of C03 -/
structure JInv (cfg : Cfg) (s : St) : Prop where
  linv : LInv s
  j : s.fault = none → s.spuriousWB = false → s.exited = false → JP cfg s []


theorem processTimeout_sticky (s1 : St) : Sticky s1 (processTimeout s1) := by
  have f := processTimeout_vframe s1
  have w : (processTimeout s1).spuriousWB = s1.spuriousWB := by
    unfold processTimeout; split
    · rfl
    · generalize List.range s1.nLst = ls
      have : ∀ (ls : List Nat) (t : St), (processTimeoutFrom t s1.now ls).spuriousWB = t.spuriousWB := by
        intro ls; induction ls with
        | nil => intro t; rfl
        | cons a as ih2 =>
          intro t; simp only [processTimeoutFrom]; split
          · exact ih2 t
          · rw [ih2]; split
            · unfold setTimeout; split
              · split <;> rfl
              · rfl
            · split
              · simp only [register]; split <;> rfl
              · rfl
      exact this ls _
  exact ⟨by rw [f.2]; exact id, by rw [w]; exact id⟩

theorem poll_sticky (cfg : Cfg) (s : St) (order : List Ev) (sched : List (List EnvAct)) :
    Sticky s (poll cfg s order sched) ∧ (s.exited = true → (poll cfg s order sched).exited = true) := by
  unfold poll
  split
  · exact ⟨Sticky.refl s, id⟩
  · rename_i h
    have hex : s.exited = false := by
      cases he : s.exited with
      | false => rfl
      | true => simp [he] at h
    refine ⟨?_, by intro h2; rw [hex] at h2; cases h2⟩
    have h0 : Sticky s (clearEdges { s with sched := sched, yields := 0 }) := ⟨id, id⟩
    have h1 := pollEvents_sticky cfg order (clearEdges { s with sched := sched, yields := 0 })
    generalize (pollEvents cfg (clearEdges { s with sched := sched, yields := 0 }) order) = r at h1
    unfold pollFinish
    split
    · exact Sticky.trans (Sticky.trans h0 h1) ⟨id, id⟩
    · exact Sticky.trans (Sticky.trans h0 h1) (Sticky.trans (processTimeout_sticky r.1) ⟨id, id⟩)

/-- every `poll` of the history is given at least the listeners that are ready (what epoll does) -/
def OpsOk (cfg : Cfg) : St → List Op → Prop
  | _, [] => True
  | s, op :: ops =>
    (match op with
      | .poll order _ => OrderOk s order
      | .finishW2 w c order =>
        OrderOk { (envStep cfg s (.finish w c)).1 with acts := (envStep cfg s (.finish w c)).1.acts ++ [(envStep cfg s (.finish w c)).2] } order
      | .env _ => True) ∧ OpsOk cfg (step cfg s op) ops

theorem JInv.env {cfg : Cfg} {s : St} (h : JInv cfg s) (as : List EnvAct) : JInv cfg (runEnv cfg s as) := by
  have sh := runEnv_shrinks cfg as s
  obtain ⟨f1, f2⟩ := runEnv_fw cfg as s
  have hex : (runEnv cfg s as).exited = s.exited := by
    have : ∀ (as : List EnvAct) (t : St), (runEnv cfg t as).exited = t.exited := by
      intro as; induction as with
      | nil => intro t; rfl
      | cons a as ih =>
        intro t; simp only [runEnv]; rw [ih]
        cases a <;> simp only [envStep] <;> (repeat' split) <;> first | rfl | (simp [pushWq])
    exact this as s
  refine ⟨linv_of_eq (runEnv_lview cfg as s) h.linv, ?_⟩
  intro h1 h2 h3
  exact (h.j (by rw [← f1]; exact h1) (by rw [← f2]; exact h2) (by rw [← hex]; exact h3)).shrinks sh

theorem JInv.poll {cfg : Cfg} {s : St} (h : JInv cfg s) (order : List Ev) (sched : List (List EnvAct))
    (ho : OrderOk s order) : JInv cfg (Srv.poll cfg s order sched) := by
  refine ⟨poll_linv cfg h.linv order sched, ?_⟩
  intro h1 h2 h3
  obtain ⟨st, hexs⟩ := poll_sticky cfg s order sched
  have hc : Clean (Srv.poll cfg s order sched) := ⟨h1, h2⟩
  have hcs : Clean s := st.clean hc
  have hes : s.exited = false := by
    cases he : s.exited with
    | false => rfl
    | true => rw [hexs he] at h3; cases h3
  exact poll_J cfg s order sched h.linv (h.j hcs.1 hcs.2 hes) ho hc h3

theorem JInv.step {cfg : Cfg} {s : St} (h : JInv cfg s) (op : Op) (ho : OpsOk cfg s [op]) : JInv cfg (Srv.step cfg s op) := by
  cases op with
  | env a => exact h.env [a]
  | poll order sched => exact h.poll order sched ho.1
  | finishW2 w c order =>
    simp only [Srv.step]
    have h1 : JInv cfg { (envStep cfg s (.finish w c)).1 with acts := (envStep cfg s (.finish w c)).1.acts ++ [(envStep cfg s (.finish w c)).2] } := by
      have := h.env [.finish w c]
      simpa [runEnv] using this
    split
    · exact (h1.poll order [] ho.1).env [.push w]
    · exact h1

theorem run_JInv (cfg : Cfg) : ∀ (ops : List Op) (s : St), JInv cfg s → OpsOk cfg s ops → JInv cfg (run cfg s ops) := by
  intro ops; induction ops with
  | nil => intro s h _; exact h
  | cons op ops ih =>
    intro s h ho
    simp only [run]
    exact ih _ (h.step op ⟨ho.1, trivial⟩) ho.2

theorem init_JInv (cfg : Cfg) (kinds : List Kind) : JInv cfg (init cfg kinds) := by
  refine ⟨init_linv cfg kinds, ?_⟩
  intro _ _ _ l _ hn
  unfold Need at hn
  simp [init] at hn


end ActixNet.Srv
