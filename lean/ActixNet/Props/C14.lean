import ActixNet.Lemmas.Framed
/-!
# C14 — Framed writes are lossless, ordered and bounded, and close flushes

Property theorems only.  `wsend` (`write`/`start_send`), `wflush` (`flush`/`poll_flush`), `wready`
(`poll_ready`), `wclose` (`close`/`poll_close`) in Model/Framed.lean transcribe framed.rs:161–175,
237–321 over a scripted **buffering** transport (`poll_write`: accept k | pending | zero | err;
`poll_flush`, `poll_shutdown`: ok | pending | err).  The transport *stages* what `poll_write`
accepted (`staged`) and puts it on the wire (`written`) only when its own `poll_flush` (or
`poll_shutdown`) completes — a `BufWriter`/TLS-like transport; `accepted` (ghost) are the encodings
of the items `start_send` accepted.  So "nothing remains buffered" means: nothing in `write_buf`
**and** nothing staged in the transport.

`wclose` flushes the write buffer, then shuts down (the tree's `close` since the fix of finding F4,
replay corpus/C14/close-does-not-flush.ops).
-/
namespace ActixNet.C14
open ActixNet.Src ActixNet.Framed

/-- **lossless and ordered**, in every reachable state: for every interleaving of the four `Sink`
methods, every script of partial writes / `Pending`s / zero writes / errors of the transport, the
bytes on the wire, followed by the bytes staged in the transport, followed by the bytes still
buffered are exactly the concatenation, in order, of the encodings of the items accepted by
`start_send` -/
theorem lossless_ordered {I} (enc : Enc I) (ops : List (WOp I)) (ws : List Wr) (fs ss : List Fl) :
    (wrun enc (winit ws fs ss) ops).2.written ++ (wrun enc (winit ws fs ss) ops).2.staged ++
        (wrun enc (winit ws fs ss) ops).2.wbuf =
      (acceptedOf enc ops (wrun enc (winit ws fs ss) ops).1).flatten := by
  have h := (wrun_spec enc ops (winit ws fs ss) (by simp [Lossless, winit])).1
  rw [Lossless, accepted_eq] at h
  simpa [winit] using h

/-- what reached the wire is always a prefix of the accepted encodings, and only grows -/
theorem written_is_prefix {I} (enc : Enc I) (ops : List (WOp I)) (ws : List Wr) (fs ss : List Fl) :
    (wrun enc (winit ws fs ss) ops).2.written <+:
      (acceptedOf enc ops (wrun enc (winit ws fs ss) ops).1).flatten :=
  ⟨_, by rw [← lossless_ordered enc ops ws fs ss, List.append_assoc]⟩

theorem written_only_grows {I} (enc : Enc I) (s : WState) (op : WOp I) (h : Lossless s) :
    s.written <+: (wstep enc s op).2.written := (wstep_spec enc s op h).2.1

/-- a partial write, a `Pending`, more sends, a flush with the script exhausted -/
example : (wrun linesEnc (winit [.accept 1, .pending, .accept 2] [] [])
      [.send [97, 98], .flush, .send [99], .flush, .flush]).1 = [.ok, .pending, .ok, .ok, .ok] ∧
    (wrun linesEnc (winit [.accept 1, .pending, .accept 2] [] [])
      [.send [97, 98], .flush, .send [99], .flush, .flush]).2.written = [97, 98, 10, 99, 10] := by
  decide

/-- `poll_flush` reports success only when nothing remains buffered **anywhere**: `write_buf` is
empty and the transport holds no staged bytes, and the transport's own `poll_flush` was called (and
completed) in this very call -/
theorem flush_ok_empty (s : WState) (h : (wflush s).1 = .ok) :
    (wflush s).2.wbuf = [] ∧ (wflush s).2.staged = [] ∧ (wflush s).2.nFlush = s.nFlush + 1 :=
  (wflush_spec s).2.1 h

/-- **flush complete ⇒ all accepted bytes delivered**: from any lossless state, when `poll_flush`
answers `Ready(Ok)` the wire holds exactly the encodings of all accepted items -/
theorem flush_complete (s : WState) (hl : Lossless s) (h : (wflush s).1 = .ok) :
    (wflush s).2.written = s.accepted.flatten := by
  have hm := (wflush_spec s).1
  obtain ⟨hb, hs, _⟩ := flush_ok_empty s h
  rw [← hm.acc]
  exact (hm.lossless hl).delivered hb hs

/-- … in particular after any interleaving of the `Sink` methods under any transport scripts -/
theorem flush_delivers_all {I} (enc : Enc I) (ops : List (WOp I)) (ws : List Wr) (fs ss : List Fl)
    (h : (wflush (wrun enc (winit ws fs ss) ops).2).1 = .ok) :
    (wflush (wrun enc (winit ws fs ss) ops).2).2.written =
      (acceptedOf enc ops (wrun enc (winit ws fs ss) ops).1).flatten := by
  have hl := (wrun_spec enc ops (winit ws fs ss) (by simp [Lossless, winit])).1
  rw [flush_complete _ hl h, accepted_eq]
  simp [winit]

example : (wflush { wbuf := [1, 2, 3], wscript := [.accept 2] }).1 = .ok ∧
    (wflush { wbuf := [1, 2, 3], wscript := [.accept 2] }).2.written = [1, 2, 3] := by decide

/-- the staging is real: when the transport's `poll_flush` is `Pending`, `write_buf` has been drained
but nothing is on the wire yet and `poll_flush` answers `Pending`; only the re-poll that completes the
transport flush delivers the bytes (a `poll_flush` that answered `Ready(Ok)` on the re-poll because
`write_buf` is empty, without polling the transport, would violate `flush_ok_empty`) -/
example : (wflush { wbuf := [1, 2, 3], fscript := [.pending] }).1 = .pending ∧
    (wflush { wbuf := [1, 2, 3], fscript := [.pending] }).2.wbuf = [] ∧
    (wflush { wbuf := [1, 2, 3], fscript := [.pending] }).2.staged = [1, 2, 3] ∧
    (wflush { wbuf := [1, 2, 3], fscript := [.pending] }).2.written = [] ∧
    (wflush (wflush { wbuf := [1, 2, 3], fscript := [.pending] }).2).1 = .ok ∧
    (wflush (wflush { wbuf := [1, 2, 3], fscript := [.pending] }).2).2.written = [1, 2, 3] ∧
    (wflush (wflush { wbuf := [1, 2, 3], fscript := [.pending] }).2).2.nFlush = 2 := by decide

/-- a flush on an empty `write_buf` still has to flush the transport -/
example : (wflush { staged := [7], accepted := [[7]] }).1 = .ok ∧
    (wflush { staged := [7], accepted := [[7]] }).2.written = [7] ∧
    (wflush { staged := [7], accepted := [[7]], fscript := [.err .TimedOut] }).1 = .err .TimedOut ∧
    (wflush { staged := [7], accepted := [[7]], fscript := [.err .TimedOut] }).2.staged = [7] := by decide

/-- `poll_close` reports success only when nothing remains buffered anywhere and the transport was
shut down (false of the tree before the fix of finding F4) -/
theorem close_ok_empty (s : WState) (h : (wclose s).1 = .ok) :
    (wclose s).2.wbuf = [] ∧ (wclose s).2.staged = [] ∧ (wclose s).2.shut = true :=
  (wclose_spec s).2.2 h

/-- **close complete ⇒ all accepted bytes delivered** -/
theorem close_complete (s : WState) (hl : Lossless s) (h : (wclose s).1 = .ok) :
    (wclose s).2.written = s.accepted.flatten ∧ (wclose s).2.shut = true := by
  have hm := (wclose_spec s).1
  obtain ⟨hb, hs, hsh⟩ := close_ok_empty s h
  rw [← hm.acc]
  exact ⟨(hm.lossless hl).delivered hb hs, hsh⟩

example : (wclose { wbuf := [104, 105], accepted := [[104, 105]] }).1 = .ok ∧
    (wclose { wbuf := [104, 105], accepted := [[104, 105]] }).2.written = [104, 105] := by decide
example : (wclose { wbuf := [104], accepted := [[104]], fscript := [.pending], sscript := [.pending] }).1 = .pending ∧
    (wclose (wclose { wbuf := [104], accepted := [[104]], fscript := [.pending], sscript := [.pending] }).2).1 = .pending ∧
    (wclose (wclose (wclose { wbuf := [104], accepted := [[104]], fscript := [.pending], sscript := [.pending] }).2).2).1 = .ok := by
  decide

/-- `poll_close` never shuts the transport down while bytes are buffered -/
theorem close_flushes_first (s : WState) (h : (wflush s).1 ≠ .ok) :
    wclose s = wflush s ∧ (wclose s).2.shut = s.shut := by
  have hs := (wflush_spec s).2.2.2
  unfold wclose
  generalize wflush s = r at h hs
  obtain ⟨res, s1⟩ := r
  cases res <;> simp_all

/-- **back-pressure**: below the high-water mark `poll_ready` is `Ready(Ok)` without touching the
transport; at or above it, it behaves exactly as `poll_flush` -/
theorem ready_backpressure (s : WState) :
    (s.wbuf.length < framedHW → wready s = (.ok, s)) ∧
    (framedHW ≤ s.wbuf.length → wready s = wflush s) := by
  unfold wready framedWriteReady
  constructor
  · intro h; simp [h]
  · intro h; simp; intro h'; omega

/-- `is_write_buf_full` is the negation of `is_write_ready` -/
theorem full_iff_not_ready (len : Nat) : framedWriteFull len = !framedWriteReady len := by
  unfold framedWriteFull framedWriteReady
  by_cases h : len < framedHW <;> simp [h] <;> omega

/-- after `poll_ready` answered `Ready(Ok)` the buffer is below the high-water mark … -/
theorem ready_ok_below_hw (s : WState) (h : (wready s).1 = .ok) :
    (wready s).2.wbuf.length < framedHW := by
  have := (wready_spec s).2.2 h
  simpa [framedWriteReady] using this

/-- … so a caller that only sends after `Ready(Ok)` keeps the buffer below `HW + |encoding|` -/
theorem bounded {I} (enc : Enc I) (item : I) (s : WState) (h : (wready s).1 = .ok) :
    (wsend enc item (wready s).2).2.wbuf.length <
      framedHW + (match enc item with | .ok e => e.length | .error _ => 0) := by
  have hb := ready_ok_below_hw s h
  unfold wsend
  cases enc item with
  | error k => simpa using hb
  | ok e => simp; omega

example : ∃ b : Bytes, framedHW ≤ b.length :=
  ⟨List.replicate framedHW 0, by simp only [List.length_replicate]; exact Nat.le_refl _⟩
/-- at the high-water mark, with a transport that accepts everything, `poll_ready` empties the buffer -/
example (b : Bytes) (hb : framedHW ≤ b.length) :
    (wready { wbuf := b }).1 = .ok ∧ (wready { wbuf := b }).2.wbuf = [] ∧
    (wready { wbuf := b }).2.written = b := by
  have hne : b.isEmpty = false := by
    cases b with
    | nil => simp [framedHW] at hb
    | cons => rfl
  rw [(ready_backpressure { wbuf := b }).2 hb]
  simp [wflush, wflushLoop, wrote, ioFlush, hne]
example : (wready { wbuf := [1, 2, 3], wscript := [.err .BrokenPipe] }) =
    (.ok, { wbuf := [1, 2, 3], wscript := [.err .BrokenPipe] }) :=
  (ready_backpressure _).1 (by decide)

/-- **zero-length write**: when the transport accepts nothing of a non-empty buffer, `WriteZero` is
reported and the buffer is kept (nothing is lost) -/
theorem write_zero (s : WState) (t : List Wr) (hb : s.wbuf ≠ [])
    (hsc : s.wscript = .zero :: t ∨ s.wscript = .accept 0 :: t) :
    (wflush s).1 = .err .WriteZero ∧ (wflush s).2.wbuf = s.wbuf ∧ (wflush s).2.written = s.written ∧
    (wflush s).2.staged = s.staged := by
  have hne : s.wbuf.isEmpty = false := by cases h : s.wbuf <;> simp_all
  have hz : framedWriteZero 0 = true := by decide
  unfold wflush
  rw [show s.wscript.length + 2 = (s.wscript.length + 1) + 1 from rfl, wflushLoop]
  rcases hsc with h | h <;> simp [hne, h, hz]

example : (wflush { wbuf := [1], wscript := [.accept 0] }).1 = .err .WriteZero := by decide

/-- the flush loop always returns: every iteration consumes a scripted answer or empties the buffer -/
theorem flush_never_spins (s : WState) :
    (wflush s).1 ≠ .spin ∧ (wready s).1 ≠ .spin ∧ (wclose s).1 ≠ .spin :=
  ⟨(wflush_spec s).2.2.1, (wready_spec s).2.1, (wclose_spec s).2.1⟩

theorem run_never_spins {I} (enc : Enc I) (ops : List (WOp I)) (ws : List Wr) (fs ss : List Fl) :
    WRes.spin ∉ (wrun enc (winit ws fs ss) ops).1 :=
  (wrun_spec enc ops (winit ws fs ss) (by simp [Lossless, winit])).2.2

/-- `write` makes room: after the water-mark check the buffer has spare capacity for at least `LW`
bytes (framed.rs:167–170) -/
theorem write_reserves_room (remaining : Nat) : framedLW ≤ writeRoom remaining := by
  unfold writeRoom framedWrNeedReserve framedWrReserveArg
  have := lw_le_hw
  split
  · rename_i h; simp at h; omega
  · rename_i h; simp at h; omega

/-- a transport error leaves the buffer intact, so a later flush can still deliver everything -/
theorem error_keeps_buffer (s : WState) (k : ErrorKind) (t : List Wr) (hb : s.wbuf ≠ [])
    (hsc : s.wscript = .err k :: t) :
    (wflush s).1 = .err k ∧ (wflush s).2.wbuf = s.wbuf ∧ (wflush s).2.written = s.written ∧
    (wflush s).2.staged = s.staged := by
  have hne : s.wbuf.isEmpty = false := by cases h : s.wbuf <;> simp_all
  unfold wflush
  rw [show s.wscript.length + 2 = (s.wscript.length + 1) + 1 from rfl, wflushLoop]
  simp [hne, hsc]

/-- what the transport has taken (wire + staged) only grows: no method takes bytes back -/
theorem taken_only_grows {I} (enc : Enc I) (s : WState) (op : WOp I) :
    (s.written ++ s.staged) <+: ((wstep enc s op).2.written ++ (wstep enc s op).2.staged) := by
  cases op with
  | send item =>
    simp only [wstep, wsend]
    split <;> exact List.prefix_refl _
  | ready => exact (wready_spec s).1.taken
  | flush => exact (wflush_spec s).1.taken
  | close => exact (wclose_spec s).1.taken

end ActixNet.C14
