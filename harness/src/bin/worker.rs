//! Engine `worker` (C06, C07): the REAL `actix_server` `ServerWorker::poll`, called one `poll` at a
//! time on the harness thread (hooks `actix_server::verif::WorkerDriver`) under a paused tokio clock,
//! with scripted services / factories that log every `poll_ready`, `call` and `create`, real loopback
//! TCP connections carrying an id, and the real `Stop` channel. Same op lines as the Lean model
//! `ActixNet.Worker` (engine `worker` of `amodel`).
//!
//! ```text
//! case <name> n=<services> timeout=<ms> [prompt=1] s<i>=<script>[/<fpend>(+|-)<script>]*
//!      script over R(eady) P(ending) E(rr), `.` = empty; each `/` part is one future incarnation:
//!      the factory future answers Pending <fpend> times, then Ok (+) with that script or Err (-)
//! conn <tok> | send <tok> | inc | close | stop g|f | finish <id> | advance <ms> | poll
//! ```
//! `srv …` lines (C06, server level) run the real `Server` / `ServerHandle` API in real time.
//!
//! The T3 oracles keep their own bookkeeping from real observations only (they never look at the
//! Lean model).
use std::{
    cell::RefCell,
    collections::{BTreeMap, VecDeque},
    future::Future,
    io::{Read, Write},
    pin::Pin,
    rc::Rc,
    sync::{
        atomic::{AtomicUsize, Ordering},
        Arc,
    },
    task::{Context, Poll, Wake, Waker},
    time::Duration,
};

use actix_server::verif::{self as hooks, AcceptDriver, AcceptHandle, CounterView, InFlight, Point, StopHandle, VerifFactory, VerifService, WakerHandle, WorkerDriver};
use futures_core::future::LocalBoxFuture;
use tokio::sync::oneshot;
use vh::*;

struct CW(AtomicUsize);
impl Wake for CW {
    fn wake(self: Arc<Self>) {
        self.0.fetch_add(1, Ordering::SeqCst);
    }
    fn wake_by_ref(self: &Arc<Self>) {
        self.0.fetch_add(1, Ordering::SeqCst);
    }
}

/// strict decimal (the Lean driver's `toNat?` on plain digits): 1..=9 ASCII digits
fn num(s: &str) -> Option<usize> {
    if s.is_empty() || s.len() > 9 || !s.bytes().all(|b| b.is_ascii_digit()) {
        return None;
    }
    s.parse().ok()
}

fn kv<'a>(ws: &'a [&str], key: &str) -> Option<&'a str> {
    ws.iter().find_map(|w| w.strip_prefix(key).and_then(|r| r.strip_prefix('=')))
}

#[derive(Clone, Debug, PartialEq)]
enum Evt {
    Ready(usize, usize, char), // service, incarnation, R|P|E
    Call(usize, usize, u32),   // service, incarnation, connection id
    Create(usize),
    Fac(usize, char), // P|O|E
}

impl Evt {
    fn show(&self) -> String {
        match self {
            Evt::Ready(i, inc, r) => format!("r{i}.{inc}{r}"),
            Evt::Call(t, inc, c) => format!("c{t}.{inc}#{c}"),
            Evt::Create(i) => format!("n{i}"),
            Evt::Fac(i, r) => format!("f{i}{r}"),
        }
    }
}

#[derive(Default)]
struct Shared {
    evs: Vec<Evt>,
    inflight: Vec<(u32, InFlight)>,
    /// factory futures that exist and have not completed: (service, incarnation, polled at least once)
    fac_live: Vec<(usize, usize, bool)>,
}

struct Svc {
    idx: usize,
    inc: usize,
    script: RefCell<VecDeque<char>>,
    shared: Rc<RefCell<Shared>>,
}

impl VerifService for Svc {
    fn poll_ready(&self, _cx: &mut Context<'_>) -> Poll<Result<(), ()>> {
        let r = self.script.borrow_mut().pop_front().unwrap_or('R');
        self.shared.borrow_mut().evs.push(Evt::Ready(self.idx, self.inc, r));
        match r {
            'R' => Poll::Ready(Ok(())),
            'P' => Poll::Pending,
            _ => Poll::Ready(Err(())),
        }
    }

    fn call(&self, mut conn: InFlight) {
        let mut buf = [0u8; 4];
        let mut got = 0;
        for _ in 0..5000 {
            match conn.read(&mut buf[got..]) {
                Ok(k) if k > 0 => {
                    got += k;
                    if got == 4 {
                        break;
                    }
                }
                _ => std::thread::sleep(Duration::from_micros(100)),
            }
        }
        let id = if got == 4 { u32::from_be_bytes(buf) } else { u32::MAX };
        let mut sh = self.shared.borrow_mut();
        sh.evs.push(Evt::Call(self.idx, self.inc, id));
        sh.inflight.push((id, conn));
    }
}

#[derive(Clone)]
struct IncSpec {
    fpend: usize,
    fok: bool,
    script: VecDeque<char>,
}

struct Fac {
    idx: usize,
    future: RefCell<VecDeque<IncSpec>>,
    created: RefCell<usize>,
    shared: Rc<RefCell<Shared>>,
}

struct FacFut {
    idx: usize,
    inc: usize,
    spec: Option<IncSpec>,
    shared: Rc<RefCell<Shared>>,
}

impl Future for FacFut {
    type Output = Result<(usize, Box<dyn VerifService>), ()>;
    fn poll(mut self: Pin<&mut Self>, _cx: &mut Context<'_>) -> Poll<Self::Output> {
        let this = &mut *self;
        if let Some(e) = this.shared.borrow_mut().fac_live.iter_mut().find(|e| e.0 == this.idx && e.1 == this.inc) {
            e.2 = true;
        }
        let spec = this.spec.as_mut().expect("factory future polled after completion");
        if spec.fpend > 0 {
            spec.fpend -= 1;
            this.shared.borrow_mut().evs.push(Evt::Fac(this.idx, 'P'));
            return Poll::Pending;
        }
        let spec = this.spec.take().unwrap();
        if spec.fok {
            this.shared.borrow_mut().evs.push(Evt::Fac(this.idx, 'O'));
            Poll::Ready(Ok((
                this.idx,
                Box::new(Svc { idx: this.idx, inc: this.inc, script: RefCell::new(spec.script), shared: this.shared.clone() }) as Box<dyn VerifService>,
            )))
        } else {
            this.shared.borrow_mut().evs.push(Evt::Fac(this.idx, 'E'));
            Poll::Ready(Err(()))
        }
    }
}

impl Drop for FacFut {
    fn drop(&mut self) {
        if let Ok(mut sh) = self.shared.try_borrow_mut() {
            sh.fac_live.retain(|e| !(e.0 == self.idx && e.1 == self.inc));
        }
    }
}

impl VerifFactory for Fac {
    fn create(&self) -> LocalBoxFuture<'static, Result<(usize, Box<dyn VerifService>), ()>> {
        self.shared.borrow_mut().evs.push(Evt::Create(self.idx));
        let spec = self.future.borrow_mut().pop_front().unwrap_or(IncSpec { fpend: 0, fok: true, script: VecDeque::new() });
        let mut c = self.created.borrow_mut();
        *c += 1;
        self.shared.borrow_mut().fac_live.push((self.idx, *c, false));
        Box::pin(FacFut { idx: self.idx, inc: *c, spec: Some(spec), shared: self.shared.clone() })
    }
}

fn parse_script(t: &str) -> Option<VecDeque<char>> {
    if t == "." {
        return Some(VecDeque::new());
    }
    if t.is_empty() || !t.chars().all(|c| matches!(c, 'R' | 'P' | 'E')) {
        return if t.is_empty() { Some(VecDeque::new()) } else { None };
    }
    Some(t.chars().collect())
}

fn parse_inc(t: &str) -> Option<IncSpec> {
    let nd = t.bytes().take_while(|b| b.is_ascii_digit()).count();
    if nd == 0 || nd >= t.len() {
        return None;
    }
    let fpend = num(&t[..nd])?;
    let fok = match &t[nd..nd + 1] {
        "+" => true,
        "-" => false,
        _ => return None,
    };
    Some(IncSpec { fpend, fok, script: parse_script(&t[nd + 1..])? })
}

fn parse_svc(t: &str) -> Option<(VecDeque<char>, VecDeque<IncSpec>)> {
    let mut it = t.split('/');
    let sc = parse_script(it.next()?)?;
    let mut incs = VecDeque::new();
    for p in it {
        incs.push_back(parse_inc(p)?);
    }
    Some((sc, incs))
}

struct StopRec {
    graceful: bool,
    rx: oneshot::Receiver<bool>,
    resolved: Option<char>, // '1' '0' 'x'
    issued_at: u64,
    handled_at: Option<u64>, // virtual time of the poll that took it from the channel
    judged: bool,
    in_poll: bool, // sent while a poll was in progress: that poll may or may not have seen it
    seen_polls: u32,
}

struct Case {
    n: usize,
    timeout: u64,
    prompt: bool,
    limit: Option<usize>, // max_concurrent_connections, when the case sets one (then `wq=` is reported)
    driver: Option<WorkerDriver>,
    accept: Option<AcceptHandle>,
    stop: Option<StopHandle>,
    cview: CounterView,
    env_delta: i64, // counter changes made by actions that ran inside the current poll
    _ad: AcceptDriver,
    _wh: WakerHandle,
    shared: Rc<RefCell<Shared>>,
    cw: Arc<CW>,
    waker: Waker,
    seen_wakes: usize,
    clients: BTreeMap<u32, std::net::TcpStream>,
    tokens: BTreeMap<u32, usize>,
    queued: VecDeque<u32>,
    next_conn: u32,
    stops: Vec<StopRec>,
    now: u64,
    poisoned: bool,
    finished: bool,
    // ---- oracle bookkeeping (real observations only)
    cur_inc: Vec<usize>,
    w1: bool, // a `send` without `inc` happened: the counter no longer counts the connections
    closed_chan: bool,
    last_raw_seen: usize,
    in_poll: bool,
}

struct Harness {
    listener: std::net::TcpListener,
    addr: std::net::SocketAddr,
    rt: tokio::runtime::Runtime,
}

impl Case {
    fn new(ws: &[&str]) -> Option<Case> {
        let n = kv(ws, "n").and_then(num).unwrap_or(1);
        let timeout = kv(ws, "timeout").and_then(num).unwrap_or(0) as u64;
        let prompt = kv(ws, "prompt") == Some("1");
        let limit = match kv(ws, "limit") {
            None => None,
            Some(l) => Some(num(l).filter(|l| *l >= 1 && *l <= 1000)?),
        };
        let shared = Rc::new(RefCell::new(Shared::default()));
        let mut factories: Vec<Rc<dyn VerifFactory>> = vec![];
        let mut initial: Vec<Box<dyn VerifService>> = vec![];
        for i in 0..n {
            let (sc, incs) = match kv(ws, &format!("s{i}")) {
                Some(t) => parse_svc(t)?,
                None => (VecDeque::new(), VecDeque::new()),
            };
            factories.push(Rc::new(Fac { idx: i, future: RefCell::new(incs), created: RefCell::new(0), shared: shared.clone() }));
            initial.push(Box::new(Svc { idx: i, inc: 0, script: RefCell::new(sc), shared: shared.clone() }));
        }
        let mut wh = None;
        let (ad, _frx) = AcceptDriver::new(vec![], |w| {
            wh = Some(w.clone());
            vec![]
        })
        .ok()?;
        let wh = wh?;
        let (driver, accept, stop) = WorkerDriver::new(0, &wh, limit.unwrap_or(1_000_000), Duration::from_millis(timeout), factories, initial);
        let cview = driver.counter_view();
        let cw = Arc::new(CW(AtomicUsize::new(0)));
        let waker = Waker::from(cw.clone());
        Some(Case {
            n,
            timeout,
            prompt,
            limit,
            driver: Some(driver),
            accept: Some(accept),
            stop: Some(stop),
            cview,
            env_delta: 0,
            _ad: ad,
            _wh: wh,
            shared,
            cw,
            waker,
            seen_wakes: 0,
            clients: BTreeMap::new(),
            tokens: BTreeMap::new(),
            queued: VecDeque::new(),
            next_conn: 0,
            stops: vec![],
            now: 0,
            poisoned: false,
            finished: false,
            cur_inc: vec![0; n],
            w1: false,
            closed_chan: false,
            last_raw_seen: 1,
            in_poll: false,
        })
    }

    fn woke(&mut self) -> u8 {
        let now = self.cw.0.load(Ordering::SeqCst);
        let d = now - self.seen_wakes;
        self.seen_wakes = now;
        (d > 0) as u8
    }

    fn raw(&self) -> usize {
        self.cview.raw()
    }

    /// the interests the worker pushed into the accept thread's waker queue since the last call:
    /// (number of `WorkerAvailable(0)`, number of anything else)
    fn notifications(&self) -> (usize, usize) {
        let v = self._wh.drain();
        (v.iter().filter(|x| **x == Some(0)).count(), v.iter().filter(|x| **x != Some(0)).count())
    }

    /// ` wq=<k>` suffix + the C02/C03/C04 oracle: a `WorkerAvailable` notification is pushed exactly when a
    /// release takes the raw counter from above the limit to the limit (`raw_before > limit >= raw_after` over a
    /// monotone run of releases), never otherwise
    fn wq_suffix(&self, raw_before: usize, raw_after: usize, judge: bool, what: &str, t3: &mut Vec<(String, String)>) -> String {
        let Some(limit) = self.limit else { return String::new() };
        let (k, other) = self.notifications();
        if judge {
            // the counter is biased by one: `limit` connections in progress = raw `limit + 1`
            let expected = (raw_before > limit + 0 && raw_before >= limit + 1 && raw_after <= limit) as usize;
            if k > expected {
                for tag in ["C02", "C04", "C03"] {
                    t3.push((tag.into(), format!("{what}: the worker pushed {k} WorkerAvailable notification(s) although no release crossed the limit (raw counter {raw_before} -> {raw_after}, limit {limit}): the accept thread will mark a saturated worker available")));
                }
            } else if k < expected {
                t3.push(("C03".into(), format!("{what}: a release crossed the limit (raw counter {raw_before} -> {raw_after}, limit {limit}) but no WorkerAvailable notification was pushed")));
            }
            if other > 0 {
                t3.push(("C02".into(), format!("{what}: the worker pushed {other} interest(s) other than WorkerAvailable(0)")));
            }
        }
        format!(" wq={k}")
    }

    /// which of the connections still in the channel (as far as the harness knows) have been closed by
    /// the server side; waits until at least `expect` are seen closed (bounded)
    fn probe_closed(&mut self, expect: usize) -> Vec<u32> {
        let mut closed = vec![];
        for round in 0..400 {
            for id in self.queued.iter() {
                if closed.contains(id) {
                    continue;
                }
                let s = self.clients.get_mut(id).unwrap();
                let mut b = [0u8; 1];
                match s.read(&mut b) {
                    Ok(0) => closed.push(*id),
                    Ok(_) => {}
                    Err(e) if e.kind() == std::io::ErrorKind::WouldBlock => {}
                    Err(_) => closed.push(*id),
                }
            }
            if closed.len() >= expect {
                break;
            }
            if round > 0 {
                std::thread::sleep(Duration::from_micros(500));
            }
        }
        closed.sort();
        self.queued.retain(|id| !closed.contains(id));
        for id in &closed {
            self.clients.remove(id);
        }
        closed
    }
}

fn do_conn(h: &Harness, c: &mut Case, tok: usize, with_inc: bool, t3: &mut Vec<(String, String)>) -> String {
    if c.poisoned || c.accept.is_none() {
        return "bad-op".into();
    }
    let id = c.next_conn;
    let mut tries = 0;
    let mut cl = loop {
        match std::net::TcpStream::connect(h.addr) {
            Ok(s) => break s,
            Err(e) if matches!(e.kind(), std::io::ErrorKind::AddrInUse | std::io::ErrorKind::AddrNotAvailable) && tries < 120 => {
                tries += 1; // ephemeral ports exhausted by other processes: wait for some to come back
                std::thread::sleep(Duration::from_millis(250));
            }
            Err(e) => return format!("setup-error connect {e}"),
        }
    };
    let _ = cl.write_all(&id.to_be_bytes());
    let (srv, _) = match h.listener.accept() {
        Ok(x) => x,
        Err(e) => return format!("setup-error accept {e}"),
    };
    // no TIME_WAIT litter: tens of thousands of short-lived loopback connections per run
    let _ = socket2::SockRef::from(&cl).set_linger(Some(Duration::ZERO));
    let _ = socket2::SockRef::from(&srv).set_linger(Some(Duration::ZERO));
    let _ = cl.set_nonblocking(true);
    let acc = c.accept.as_ref().unwrap();
    let ok = if with_inc { acc.send_tcp(tok, srv).is_some() } else { acc.send_tcp_no_inc(tok, srv) };
    if !ok {
        if !c.finished {
            t3.push(("C06".into(), "send to a worker that has not finished failed".into()));
        }
        return "refused".into();
    }
    if c.finished {
        t3.push(("C06".into(), format!("connection c{id} was accepted by the channel of a worker that already completed its shutdown")));
    }
    if !with_inc {
        c.w1 = true;
    } else {
        c.env_delta += 1;
    }
    c.next_conn += 1;
    c.clients.insert(id, cl);
    c.tokens.insert(id, tok);
    c.queued.push_back(id);
    let w = c.woke();
    format!("ok c{id} woke={w}")
}

/// C07 oracle on the events of one `poll` (`evs`), with the harness's own view of the channel
fn oracle_c07(c: &mut Case, evs: &[Evt], stop_handled: bool, t3: &mut Vec<(String, String)>) {
    let n = c.n;
    for (k, e) in evs.iter().enumerate() {
        match e {
            Evt::Call(tok, inc, id) => {
                // (1) right after a complete all-ready sweep, nothing in between
                let ok = k >= n
                    && (0..n).all(|i| matches!(&evs[k - n + i], Evt::Ready(j, _, 'R') if *j == i));
                if !ok {
                    let ctx: Vec<String> = evs[k.saturating_sub(n + 1)..k].iter().map(|e| e.show()).collect();
                    t3.push(("C07".into(), format!("service {tok} was called with connection c{id} without an immediately preceding sweep in which all {n} services reported ready (events before the call: [{}])", ctx.join(","))));
                }
                // (2) FIFO / nothing lost / exactly once
                match c.queued.front() {
                    Some(f) if f == id => {
                        c.queued.pop_front();
                    }
                    other => {
                        t3.push(("C01".into(), format!("call with connection c{id} but the oldest queued connection is {:?}: a connection taken from the channel earlier was never handed to its service", other)));
                        t3.push(("C07".into(), format!("call with connection c{id} but the oldest queued connection is {:?} (order / loss / duplication)", other)));
                        c.queued.retain(|x| x != id);
                    }
                }
                // routing and incarnation
                if c.tokens.get(id) != Some(tok) {
                    for tag in ["C07", "C01"] {
                        t3.push((tag.into(), format!("connection c{id} accepted on listener token {:?} was given to the service of token {tok}", c.tokens.get(id))));
                    }
                }
                if c.cur_inc.get(*tok) != Some(inc) {
                    t3.push(("C07".into(), format!("connection c{id} was given to incarnation {inc} of service {tok}, current is {:?}", c.cur_inc.get(*tok))));
                }
                if stop_handled {
                    t3.push(("C06".into(), format!("connection c{id} was handed to a service after the worker had received Stop")));
                }
            }
            Evt::Ready(i, inc, 'E') => {
                // (4') a service that answers a readiness check with Err is re-created then and there: the factory is asked
                // for a new one before anything else happens (no further readiness poll of the failed instance, no call)
                if !matches!(evs.get(k + 1), Some(Evt::Create(j)) if j == i) {
                    for tag in ["C07", "C01"] {
                        t3.push((tag.into(), format!(
                            "service {i} (incarnation {inc}) answered a readiness check with Err and was not re-created: the next event of the poll is {} instead of a call of its factory — the failed instance stays in place; what is queued for it is handed to a broken service or never served",
                            evs.get(k + 1).map_or("the end of the poll".to_string(), |e| e.show())
                        )));
                    }
                }
            }
            Evt::Create(i) => {
                // (4) only the failed service is re-created
                let ok = k >= 1 && matches!(&evs[k - 1], Evt::Ready(j, _, 'E') if j == i);
                if !ok {
                    t3.push(("C07".into(), format!("factory {i} was asked for a new service although service {i} did not just fail its readiness check")));
                }
            }
            Evt::Ready(i, inc, r) => {
                if c.cur_inc.get(*i) != Some(inc) {
                    t3.push(("C07".into(), format!("readiness of incarnation {inc} of service {i} was polled, current incarnation is {:?}", c.cur_inc.get(*i))));
                }
                if *r == 'E' {
                    let ok = matches!(evs.get(k + 1), Some(Evt::Create(j)) if j == i);
                    if !ok {
                        t3.push(("C07".into(), format!("service {i} failed its readiness check but its factory was not asked for a replacement next (next event: {:?})", evs.get(k + 1).map(|e| e.show()))));
                    }
                }
            }
            Evt::Fac(i, 'O') => {
                if let Some(x) = c.cur_inc.get_mut(*i) {
                    *x += 1;
                }
            }
            Evt::Fac(..) => {}
        }
    }
}

/// an action of another thread (accept thread, server, a service): also usable inside a `poll`
fn env_op(h: &Harness, c: &mut Case, ws: &[&str], t3: &mut Vec<(String, String)>) -> Option<String> {
    Some(match ws {
        ["conn", t] => match num(t) {
            Some(t) => do_conn(h, c, t, true, t3),
            None => "bad-op".into(),
        },
        ["send", t] => match num(t) {
            Some(t) => do_conn(h, c, t, false, t3),
            None => "bad-op".into(),
        },
        ["inc"] => {
            if c.poisoned {
                "bad-op".into()
            } else {
                match c.accept.as_ref() {
                    Some(acc) => {
                        acc.inc_counter();
                    }
                    // the accept-side handle is gone: nobody can count any more; the model still does
                    None => return Some("bad-op".into()),
                }
                c.env_delta += 1;
                "ok".into()
            }
        }
        ["close"] => {
            if c.poisoned || c.accept.is_none() {
                "bad-op".into()
            } else {
                let hd = c.accept.take();
                drop(hd);
                c.closed_chan = true;
                let w = c.woke();
                format!("ok woke={}", if c.finished { 0 } else { w })
            }
        }
        ["closestop"] => {
            if c.poisoned || c.stop.is_none() {
                "bad-op".into()
            } else {
                let hd = c.stop.take();
                drop(hd);
                let w = c.woke();
                format!("ok woke={}", if c.finished { 0 } else { w })
            }
        }
        ["stop", g] if *g == "g" || *g == "f" => {
            if c.poisoned || c.stop.is_none() {
                "bad-op".into()
            } else {
                let graceful = *g == "g";
                let mut rx = c.stop.as_ref().unwrap().stop(graceful);
                let k = c.stops.len();
                let w = c.woke();
                let mut resolved = None;
                if c.finished {
                    match rx.try_recv() {
                        Err(oneshot::error::TryRecvError::Closed) => resolved = Some('x'),
                        Ok(b) => resolved = Some(if b { '1' } else { '0' }),
                        Err(_) => t3.push(("C06".into(), format!("stop #{k} sent to a finished worker stays unresolved"))),
                    }
                }
                let r = format!("ok s{k} woke={w} reply={}", resolved.map_or("-".to_string(), |c| c.to_string()));
                c.stops.push(StopRec { graceful, rx, resolved, issued_at: c.now, handled_at: if c.finished { Some(c.now) } else { None }, judged: c.finished, in_poll: c.in_poll, seen_polls: 0 });
                r
            }
        }
        ["finish", id] => match num(id) {
            Some(id) if !c.poisoned && c.raw() != 0 => {
                let pos = c.shared.borrow().inflight.iter().position(|(i, _)| *i as usize == id);
                match pos {
                    Some(p) => {
                        let before = c.raw();
                        let _ = c.notifications();
                        let (cid, inf) = c.shared.borrow_mut().inflight.remove(p);
                        drop(inf);
                        c.clients.remove(&cid);
                        c.env_delta -= 1;
                        let wq = c.wq_suffix(before, c.raw(), !c.in_poll, "finish", t3);
                        format!("ok{wq}")
                    }
                    None => "bad-op".into(),
                }
            }
            _ => "bad-op".into(),
        },
        _ => return None,
    })
}

/// the short form of an action's result, as printed for actions that ran inside a `poll`
fn short(res: &str) -> String {
    let ws: Vec<&str> = res.split_whitespace().collect();
    match ws.as_slice() {
        ["ok", id, w] if id.starts_with('c') && w.starts_with("woke=") => format!("{id}/{}", &w[5..]),
        ["ok", k, w, _reply] if k.starts_with('s') && w.starts_with("woke=") => format!("{k}/{}", &w[5..]),
        ["ok", w] if w.starts_with("woke=") => format!("closed/{}", &w[5..]),
        ["ok"] => "ok".into(),
        ["ok", w] if w.starts_with("wq=") => "ok".into(),
        ["refused"] => "refused".into(),
        _ => "bad".into(),
    }
}

/// syntactic check of `y=<act>,<act>…` (same grammar as the Lean driver)
fn parse_acts(y: &str) -> Option<Vec<Vec<String>>> {
    y.split(',')
        .map(|a| {
            let p: Vec<&str> = a.split(':').collect();
            let ok = match p.as_slice() {
                ["conn", t] | ["send", t] | ["finish", t] => num(t).is_some(),
                ["inc"] | ["close"] | ["closestop"] => true,
                ["stop", g] => *g == "g" || *g == "f",
                _ => false,
            };
            if ok { Some(p.iter().map(|x| x.to_string()).collect()) } else { None }
        })
        .collect()
}

/// one call of the real `ServerWorker::poll`; `acts` (if any) run at the worker's yield point of the first
/// pass: after its look at the `Stop` channel, before the state arm
fn do_poll(h: &Harness, c: &mut Case, acts: Option<Vec<Vec<String>>>, t3: &mut Vec<(String, String)>) -> String {
    if c.poisoned || c.finished || c.driver.is_none() {
        return "bad-op".into();
    }
    let raw_before = c.raw();
    let _ = c.notifications();
    c.last_raw_seen = raw_before;
    c.env_delta = 0;
    c.shared.borrow_mut().evs.clear();
    let stop_handled_before = !c.stops.is_empty(); // a Stop sent before this poll is taken at its very top
    let waker = c.waker.clone();
    let mut cx = Context::from_waker(&waker);
    // the worker is taken out of the case while it is polled: the actions below must not touch it
    let mut drv = c.driver.take().unwrap();
    let act_res: Rc<RefCell<Vec<String>>> = Rc::new(RefCell::new(vec![]));
    let t3_in: Rc<RefCell<Vec<(String, String)>>> = Rc::new(RefCell::new(vec![]));
    if let Some(acts) = acts.clone() {
        let cp: *mut Case = c;
        let hp: *const Harness = h;
        let (ar, ti) = (act_res.clone(), t3_in.clone());
        let mut fired = false;
        hooks::set_yield_hook(Some(Box::new(move |p: Point| {
            if p != Point::WorkerAfterStopCheck || fired {
                return;
            }
            fired = true;
            // SAFETY: single-threaded; the only live borrow is of the worker itself, which is outside `Case` now
            let (c, h) = unsafe { (&mut *cp, &*hp) };
            c.in_poll = true;
            for a in &acts {
                let ws: Vec<&str> = a.iter().map(|x| x.as_str()).collect();
                let mut t3 = vec![];
                let r = env_op(h, c, &ws, &mut t3).unwrap_or_else(|| "bad-op".into());
                ar.borrow_mut().push(short(&r));
                ti.borrow_mut().extend(t3);
            }
            c.in_poll = false;
        })));
    }
    let r = catch(std::panic::AssertUnwindSafe(|| drv.poll(&mut cx)));
    hooks::set_yield_hook(None);
    c.in_poll = false;
    t3.extend(t3_in.borrow_mut().drain(..));
    let evs: Vec<Evt> = c.shared.borrow().evs.clone();
    let ev_s: Vec<String> = evs.iter().map(|e| e.show()).collect();
    let woke_in_poll = c.woke() != 0;
    let acts_s = if acts.is_some() { format!("acts=[{}] ", act_res.borrow().join(",")) } else { String::new() };
    match r {
        Err(_msg) => {
            c.poisoned = true;
            // the worker is in an unknown state: drop it (a panic while dropping is swallowed too)
            let _ = catch(std::panic::AssertUnwindSafe(move || drop(drv)));
            oracle_c07(c, &evs, stop_handled_before, t3);
            // a panic is expected only for: a factory future that resolved to Err, a token without a service,
            // or the W1 underflow; anything else breaks "that service alone is re-created and serving resumes"
            let fac_err = matches!(evs.last(), Some(Evt::Fac(_, 'E')));
            let bad_tok = c.queued.front().map_or(false, |id| c.tokens.get(id).map_or(true, |t| *t >= c.n));
            if !fac_err && !bad_tok && !c.w1 {
                t3.push((if c.stops.is_empty() { "C07" } else { "C06" }.into(), format!("the worker panicked ({_msg}) after events [{}]", ev_s.join(","))));
            }
            if c.w1 && !c.stops.is_empty() && c.last_raw_seen == 0 {
                t3.push(("NOTE".into(), format!("W1: Stop handled while the shared counter was transiently 0 (sent, not yet counted, already finished): Counter::total() underflowed and the worker panicked ({_msg}); release builds wrap to usize::MAX instead")));
            }
            format!("{acts_s}ev=[{}] ret=panic", ev_s.join(","))
        }
        Ok(p) => {
            let done = p.is_ready();
            let raw_after = c.raw();
            if done {
                c.finished = true;
                drop(drv); // the finished future is dropped, as the runtime does
            } else {
                c.driver = Some(drv);
            }
            oracle_c07(c, &evs, stop_handled_before, t3);
            // a worker that goes to sleep while it re-creates a service sleeps on the factory's future: a future that was
            // never polled has no waker of the worker — unless the worker woke itself, nothing will ever poll it
            // (the accept thread goes on sending connections to this live worker: neither served nor released; C07, C01)
            if !done && !woke_in_poll {
                let unpolled: Vec<(usize, usize)> = c.shared.borrow().fac_live.iter().filter(|e| !e.2).map(|e| (e.0, e.1)).collect();
                if let Some((i, inc)) = unpolled.first() {
                    for tag in ["C07", "C01"] {
                        t3.push((tag.into(), format!(
                            "the worker returned Pending right after it started to re-create service {i} (incarnation {inc}): the factory's future was never polled, so no waker is registered for it and the worker did not wake itself — it sleeps in Restarting while connections keep being sent to it (events of the poll: [{}])",
                            ev_s.join(",")
                        )));
                    }
                }
            }
            // connections the worker closed: the counter went down once per connection released with a guard
            // (corrected by what the in-poll actions did to it); once the future is gone everything still
            // queued is gone with it
            let released = (raw_before as i64 + c.env_delta - raw_after as i64).max(0) as usize;
            let expect = if done { c.queued.len() } else { released.min(c.queued.len()) };
            let closed = c.probe_closed(expect);
            // C02: the shared counter is what the accept side compares with the limit: it counts exactly the connections that are
            // alive at this worker — sent and counted, not yet handed over, or handed to a service and not finished
            if !done && !c.w1 {
                let live = c.queued.len() + c.shared.borrow().inflight.len();
                if raw_after != 1 + live {
                    t3.push(("C02".into(), format!(
                        "after this poll the worker's shared counter reads {} connection(s) in progress but {live} are alive at the worker ({} queued, {} handed to services and not finished): the accept side compares this counter with max_concurrent_connections — it will dispatch {} the limit (events of the poll: [{}])",
                        raw_after as i64 - 1,
                        c.queued.len(),
                        c.shared.borrow().inflight.len(),
                        if raw_after < 1 + live { "past" } else { "short of" },
                        ev_s.join(",")
                    )));
                }
            }
            if done && !c.queued.is_empty() {
                // the worker is gone: a connection still open on the client side was neither served nor closed
                t3.push(("C01".into(), format!("connection(s) {:?} were sent to the worker and are neither served nor closed now that its future has completed (leaked)", c.queued)));
            }
            // replies
            let mut reps = vec![];
            let mut new_replies = vec![];
            for (k, s) in c.stops.iter_mut().enumerate() {
                if s.resolved.is_none() {
                    match s.rx.try_recv() {
                        Ok(b) => {
                            s.resolved = Some(if b { '1' } else { '0' });
                            new_replies.push(if b { '1' } else { '0' });
                            reps.push(format!("{k}:{}", b as u8));
                        }
                        Err(oneshot::error::TryRecvError::Closed) => {
                            s.resolved = Some('x');
                            new_replies.push('x');
                            reps.push(format!("{k}:x"));
                        }
                        Err(oneshot::error::TryRecvError::Empty) => {}
                    }
                }
            }
            oracle_c06(c, &evs, &closed, done, raw_before, raw_after, &new_replies, t3);
            let wq = c.wq_suffix(raw_before, raw_after, acts.is_none(), "poll", t3);
            format!(
                "{acts_s}ev=[{}] ret={} replies=[{}] closed=[{}] raw={}{wq}",
                ev_s.join(","),
                if done { "D" } else { "P" },
                reps.join(","),
                closed.iter().map(|x| x.to_string()).collect::<Vec<_>>().join(","),
                raw_after
            )
        }
    }
}

/// C06 oracle (worker half) after one successful `poll`; own bookkeeping, real observations only
fn oracle_c06(c: &mut Case, evs: &[Evt], closed: &[u32], done: bool, raw_before: usize, raw_after: usize, new_replies: &[char], t3: &mut Vec<(String, String)>) {
    let now = c.now;
    if c.stops.is_empty() {
        // no Stop so far: the worker must not finish — not even when the accept thread has exited and thereby
        // closed the connection channel (that is not a stop command) — unless the server is gone as well
        if done && c.stop.is_some() {
            let inprog = raw_after.wrapping_sub(1);
            if !c.closed_chan {
                t3.push(("C06".into(), "the worker future completed although no Stop was sent and its channel is open".into()));
            } else if inprog != 0 && !c.w1 {
                t3.push(("C06".into(), format!("the worker future completed without having received a Stop — its connection channel was closed by the accept thread's exit — while {inprog} connection(s) were in progress: they die with the worker, a graceful stop can no longer wait for them")));
            }
        }
        if !closed.is_empty() && !done {
            // C01 ("never silently discarded") and C07 ("no queued connection lost"): a connection the worker took
            // from its channel is handed to its service, or released while shutting down — never dropped while it runs
            for tag in ["C07", "C01"] {
                t3.push((tag.into(), format!("queued connection(s) {:?} were dropped by the worker (no Stop was sent)", closed)));
            }
        }
        // C07 `serving_resumes`: a poll that ends right after an all-ready sweep leaves nothing queued
        let n = c.n;
        let k = evs.len();
        let ends_ready = k >= n && (0..n).all(|i| matches!(&evs[k - n + i], Evt::Ready(j, _, 'R') if *j == i));
        if ends_ready && !done && !c.queued.is_empty() {
            t3.push(("C07".into(), format!("all services ready, the worker went back to waiting, but connection(s) {:?} are still queued", c.queued)));
        }
        return;
    }
    if c.w1 {
        return; // the counter does not count the connections any more (window W1 left open): nothing to judge
    }
    let total_after = raw_after.wrapping_sub(1);
    // the oldest Stop not yet taken is taken at the top of this poll; every Stop resolved now was taken too
    // (a Stop sent while a poll was already running may or may not have been seen by that poll: no "taken at the
    // top of this poll" conclusions for it — it counts as taken now, without the immediacy rules)
    let fresh_in_poll = |s: &StopRec| s.in_poll && s.issued_at == now && s.handled_at.is_none() && s.resolved.is_none() && s.seen_polls == 0;
    if c.stops.iter().all(|s| fresh_in_poll(s)) {
        for s in c.stops.iter_mut() {
            s.seen_polls += 1;
        }
        return; // nothing is known to have been taken yet
    }
    let first_unhandled = c.stops.iter().position(|s| s.handled_at.is_none() && !fresh_in_poll(s));
    for s in c.stops.iter_mut() {
        s.seen_polls += 1;
    }
    let mut newly = vec![];
    for (k, s) in c.stops.iter_mut().enumerate() {
        if s.handled_at.is_none() && (Some(k) == first_unhandled || s.resolved.is_some()) {
            s.handled_at = Some(now);
            newly.push(k);
        }
    }
    for &k in &newly {
        let s = &c.stops[k];
        match s.resolved {
            Some('1') => {
                if total_after != 0 {
                    t3.push(("C06".into(), format!("stop #{k} was answered `true` (clean) while {total_after} connection(s) were still in progress")));
                }
            }
            Some('0') if s.graceful => {
                if now - s.issued_at < c.timeout {
                    t3.push(("C06".into(), format!("graceful stop #{k} was answered `false` {} ms after it was sent, shutdown_timeout is {} ms", now - s.issued_at, c.timeout)));
                }
            }
            _ => {}
        }
        // (which poll took a stop is only certain while no stop was sent from inside a poll in this case)
        if Some(k) == first_unhandled && !c.stops.iter().any(|x| x.in_poll) {
            if !s.graceful && !(done && s.resolved.is_some()) {
                t3.push(("C06".into(), format!("forced stop #{k} was received but the worker did not answer and finish in that poll")));
            }
            if raw_before == 1 && !(done && s.resolved == Some('1')) {
                t3.push(("C06".into(), format!("stop #{k} reached an idle worker but it did not answer `true` and finish at once")));
            }
        }
    }
    // replies that arrive in a later poll than the one that took the stop (the tick path)
    for (k, s) in c.stops.iter_mut().enumerate() {
        if newly.contains(&k) || s.judged || s.resolved.is_none() {
            continue;
        }
        s.judged = true;
        match s.resolved {
            Some('1') if total_after != 0 => {
                t3.push(("C06".into(), format!("stop #{k} was answered `true` (clean) while {total_after} connection(s) were still in progress")));
            }
            Some('0') if s.graceful && now - s.issued_at < c.timeout => {
                t3.push(("C06".into(), format!("graceful stop #{k} was answered `false` {} ms after it was sent, shutdown_timeout is {} ms", now - s.issued_at, c.timeout)));
            }
            _ => {}
        }
    }
    for &k in &newly {
        if c.stops[k].resolved.is_some() {
            c.stops[k].judged = true;
        }
    }
    // queued connections are released (never called: see oracle_c07) by every poll of a stopping worker
    if !done && !c.queued.is_empty() {
        // (C01: connections still queued at a worker when it shuts down are released)
        for tag in ["C06", "C01"] {
            t3.push((tag.into(), format!("worker is shutting down but connection(s) {:?} are still in its channel after poll: a connection that reaches a stopping worker is released, not kept until shutdown_timeout", c.queued)));
        }
    }
    // stop always completes: polled promptly, the worker is done no later than t0 + (ceil(T/tick)+1)*tick
    if c.prompt && !done && !c.stops.iter().any(|x| x.in_poll) {
        let tick = 1000u64;
        let t0 = c.stops.iter().filter(|s| !matches!(s.resolved, Some('x'))).filter_map(|s| s.handled_at).max().unwrap_or(now);
        let bound = t0 + ((c.timeout + tick - 1) / tick + 1) * tick;
        if now >= bound {
            t3.push(("C06".into(), format!("stop received at {t0} ms, shutdown_timeout {} ms, but the worker is still running at {now} ms (bound {bound} ms)", c.timeout)));
        } else if now > t0 && (now - t0) % tick == 0 && now - t0 >= c.timeout {
            // polled at a tick at which shutdown_timeout has elapsed: the worker must give up now
            t3.push(("C06".into(), format!("tick at {now} ms: {} ms since the stop was received >= shutdown_timeout {} ms, but the worker keeps waiting", now - t0, c.timeout)));
        }
    }
    if done {
        for (k, s) in c.stops.iter().enumerate() {
            if s.resolved.is_none() {
                t3.push(("C06".into(), format!("worker finished but stop #{k} was neither answered nor dropped")));
            }
        }
        // a worker that ends with connections in progress must be saying so: some stop is answered `false`
        // (forced, or shutdown_timeout elapsed) by the poll that ends it
        if total_after != 0 && !new_replies.contains(&'0') {
            t3.push(("C06".into(), format!("the worker future completed with {total_after} connection(s) in progress without answering any stop `false` (replies of this poll: {:?}): it was ended by the closed connection channel, not by a stop", new_replies)));
        }
    }
}

fn run(a: &Args) {
    silence_panics();
    let rt = tokio::runtime::Builder::new_current_thread().enable_all().start_paused(true).build().unwrap();
    let listener = {
        let mut tries = 0;
        loop {
            match std::net::TcpListener::bind("127.0.0.1:0") {
                Ok(l) => break l,
                Err(_) if tries < 240 => {
                    tries += 1; // ephemeral ports exhausted by other processes
                    std::thread::sleep(Duration::from_millis(250));
                }
                Err(e) => panic!("bind: {e}"),
            }
        }
    };
    let addr = listener.local_addr().unwrap();
    let h = Harness { listener, addr, rt };
    let _g = h.rt.enter();
    let mut rep = Report::new(&a.output);
    let mut case: Option<Case> = None;
    let mut srv_jobs: Vec<(usize, String)> = vec![];
    let mut lines_out: Vec<(String, Option<String>)> = vec![]; // real = None: filled in by a server-level job
    let mut t3_at: Vec<(usize, String, String)> = vec![];
    let all_lines: Vec<String> = in_lines(&a.input).collect();
    // server-level scenarios (real time, own threads) run first, concurrently
    let srv_lines: Vec<String> = all_lines.iter().filter(|l| matches!(l.split_whitespace().next(), Some("srv") | Some("sig") | Some("gate") | Some("fault"))).cloned().collect();
    let mut srv_results = srvlevel::run_jobs(&srv_lines).into_iter();
    for line in all_lines {
        let ws: Vec<&str> = line.split_whitespace().collect();
        let mut t3: Vec<(String, String)> = vec![];
        let real: Option<String> = match ws.as_slice() {
            ["case", ..] => {
                if let Some(c) = case.take() {
                    let _ = catch(std::panic::AssertUnwindSafe(move || drop(c)));
                }
                match Case::new(&ws) {
                    Some(c) => {
                        case = Some(c);
                        Some("ok".into())
                    }
                    None => Some("bad-case".into()),
                }
            }
            ["srv", ..] | ["sig", ..] | ["gate", ..] | ["fault", ..] => {
                srv_jobs.push((lines_out.len(), line.clone()));
                None
            }
            // what C06 demands of the shape of the source (the Lean driver prints what T1 read from it)
            ["k-shape"] => Some("none-arm-polls-stop=1 run-breaks-on-stopping=1 stop-sends-eagerly=1 await-guard=graceful mux-hands-on-cmd-rx=1 default-timeout=30 default-conns=25600 builder-starts-from-default=1 stop-drops-undelivered=1 join-waits-for-all=1 system-stop-if-any=1".into()),
            ["k-total", v] => Some(match num(v) {
                Some(v) => match catch(|| actix_server::verif::kernel_counter_total(v)) {
                    Ok(t) => t.to_string(),
                    Err(_) => "panic".into(),
                },
                None => "bad-op".into(),
            }),
            _ => Some(match case.as_mut() {
                None => "bad-op".into(),
                Some(c) => match env_op(&h, c, &ws, &mut t3) {
                    Some(r) => r,
                    None => match ws.as_slice() {
                        ["advance", ms] => match num(ms) {
                            Some(ms) if ms > 0 && !c.poisoned => {
                                h.rt.block_on(async { tokio::time::advance(Duration::from_millis(ms as u64)).await });
                                c.now += ms as u64;
                                let w = c.woke();
                                format!("ok woke={}", if c.finished { 0 } else { w })
                            }
                            _ => "bad-op".into(),
                        },
                        ["poll"] => do_poll(&h, c, None, &mut t3),
                        ["poll", y] if y.starts_with("y=") => match parse_acts(&y[2..]) {
                            Some(acts) => do_poll(&h, c, Some(acts), &mut t3),
                            None => "bad-op".into(),
                        },
                        _ => "bad-op".into(),
                    },
                },
            }),
        };
        for (p, m) in t3 {
            t3_at.push((lines_out.len(), p, m));
        }
        lines_out.push((line, real));
    }
    if let Some(c) = case.take() {
        let _ = catch(std::panic::AssertUnwindSafe(move || drop(c)));
    }
    for ((idx, _), (op2, obs, fails)) in srv_jobs.iter().zip(&mut srv_results) {
        if !op2.is_empty() {
            lines_out[*idx].0 = op2;
        }
        lines_out[*idx].1 = Some(obs);
        for m in fails {
            // a failure message may carry its own property tags: "[C08,C01] text"
            let (tags, text) = match m.strip_prefix('[').and_then(|r| r.split_once("] ")) {
                Some((t, rest)) => (t.split(',').map(|x| x.to_string()).collect::<Vec<_>>(), rest.to_string()),
                None => (vec!["C06".to_string()], m.clone()),
            };
            let mut tags = tags;
            // reported under the property this run was started for as well (one engine per property in check.py)
            if !tags.contains(&a.prop) && tags != vec!["C06".to_string()] {
                tags.push(a.prop.clone());
            }
            for t in tags {
                t3_at.push((*idx, t.clone(), if t == a.prop && !m.starts_with('[') { text.clone() } else { m.clone() }));
            }
        }
    }
    t3_at.sort_by_key(|x| x.0);
    let mut ti = 0;
    for (i, (op, real)) in lines_out.iter().enumerate() {
        rep.obs(op, real.as_deref().unwrap_or("bad-op"));
        while ti < t3_at.len() && t3_at[ti].0 == i {
            let (_, p, m) = &t3_at[ti];
            if p == "NOTE" {
                rep.note(m);
            } else {
                rep.t3(p, m);
            }
            ti += 1;
        }
    }
    rep.finish();
}

// ------------------------------------------------------------------------------------------------
// server level (C06): the real public API in real time
// ------------------------------------------------------------------------------------------------
mod srvlevel {
    //! `srv <name> workers=W timeout=S|default mode=g|f holds=<ms|n>,… [second=g|f[,g|f…]] [gap2=<ms>] [drop=1] [paused=1]`
    //!   (`timeout=default`: `ServerBuilder::shutdown_timeout` is never called — the documented default of 30 s is what is
    //!   judged; `second=`: further stop() calls, each `gap2` ms after the previous call: EVERY stop future may resolve only
    //!   once the shutdown is complete)
    //!   the real `Server::build()…run()` + `ServerHandle::stop`, clients holding connections open;
    //!   observation `stop=<k|dropped> server=<k> second=<k|-> after=<refused|unserved>` with
    //!   k = floor((t_ms + 400) / 1000) of the resolution time measured from the stop call.
    //! `sig <name> sig=int|term|quit timeout=S hold=<ms|n>`
    //!   a child process running the server with OS signals enabled; observation `exit=<k>`.
    //! Every `srv` / `gate` / `fault` scenario hosts its Server in a process of its own (hidden sub-command `scnchild <line>`,
    //! result line read from a pipe, wall-clock cap): the death of the whole process (abort by a panic while unwinding, SIGSEGV, …)
    //! is the observation `aborted` + a T3 failure (`fault`: C08, C01), a hang is `hung`; the model predicts the normal outcome.
    use std::{
        io::{Read, Write},
        sync::{
            atomic::{AtomicUsize, Ordering},
            Arc,
        },
        time::{Duration, Instant},
    };

    use super::kv;

    fn parse_holds(t: &str) -> Option<Vec<Option<u64>>> {
        if t == "-" {
            return Some(vec![]);
        }
        t.split(',').map(|x| if x == "n" { Some(None) } else { super::num(x).map(|v| Some(v as u64)) }).collect()
    }

    /// where a scenario's clients connect to
    #[derive(Clone, Debug)]
    enum Target {
        Tcp(std::net::SocketAddr),
        Uds(std::path::PathBuf),
        UdsAbstract(Vec<u8>), // Linux abstract namespace: a unix socket without a path in the file system
    }

    trait Rw: tokio::io::AsyncRead + tokio::io::AsyncWrite + Unpin + Send {}
    impl<T: tokio::io::AsyncRead + tokio::io::AsyncWrite + Unpin + Send> Rw for T {}
    type Cl = Box<dyn Rw>;

    async fn connect_to(t: &Target) -> std::io::Result<Cl> {
        match t {
            Target::Tcp(a) => {
                let c = tokio::net::TcpStream::connect(a).await?;
                let _ = socket2::SockRef::from(&c).set_linger(Some(Duration::ZERO));
                Ok(Box::new(c))
            }
            Target::Uds(p) => Ok(Box::new(tokio::net::UnixStream::connect(p).await?)),
            Target::UdsAbstract(name) => {
                use std::os::linux::net::SocketAddrExt;
                let a = std::os::unix::net::SocketAddr::from_abstract_name(name)?;
                let c = std::os::unix::net::UnixStream::connect_addr(&a)?;
                c.set_nonblocking(true)?;
                Ok(Box::new(tokio::net::UnixStream::from_std(c)?))
            }
        }
    }

    async fn echo_ok<S: tokio::io::AsyncRead + tokio::io::AsyncWrite + Unpin>(c: &mut S, tag: u8) -> bool {
        use tokio::io::{AsyncReadExt, AsyncWriteExt};
        if c.write_all(&[tag]).await.is_err() {
            return false;
        }
        let mut b = [0u8; 1];
        matches!(tokio::time::timeout(Duration::from_millis(400), c.read_exact(&mut b)).await, Ok(Ok(_)) if b[0] == tag)
    }

    /// send this scenario's nonce and wait (bounded) for its echo
    async fn hello<S: tokio::io::AsyncRead + tokio::io::AsyncWrite + Unpin>(c: &mut S, nonce: &[u8; 8]) -> bool {
        use tokio::io::{AsyncReadExt, AsyncWriteExt};
        if c.write_all(nonce).await.is_err() {
            return false;
        }
        let mut b = [0u8; 8];
        matches!(tokio::time::timeout(Duration::from_secs(8), c.read_exact(&mut b)).await, Ok(Ok(_)) if &b == nonce)
    }

    /// `served` counts the connections that presented `nonce` (this scenario's own clients): ports are reused
    /// quickly when many checks run at once, so a stranger may connect to this server, and a probe of this
    /// scenario may reach a stranger's server — neither may be mistaken for "served by this server"
    /// `block=1`: the byte that makes the echo handler block its worker thread (synchronously) for BLOCK_MS
    const BLOCK_BYTE: u8 = 0xB1;
    const BLOCK_MS: u64 = 4000;

    /// when the echo service was last called (process-wide)
    static LAST_CALL: std::sync::Mutex<Option<Instant>> = std::sync::Mutex::new(None);

    async fn serve_echo<S: tokio::io::AsyncRead + tokio::io::AsyncWrite + Unpin>(mut stream: S, served: Arc<AtomicUsize>, nonce: [u8; 8]) -> Result<(), ()> {
        use tokio::io::{AsyncReadExt, AsyncWriteExt};
        *LAST_CALL.lock().unwrap() = Some(Instant::now());
        let mut buf = [0u8; 64];
        let mut head: Vec<u8> = vec![];
        loop {
            match stream.read(&mut buf).await {
                Ok(0) | Err(_) => break,
                Ok(n) => {
                    if buf[..n].contains(&BLOCK_BYTE) {
                        // a handler that does not yield: nothing else runs on this worker's thread meanwhile
                        std::thread::sleep(Duration::from_millis(BLOCK_MS));
                    }
                    if head.len() < 8 {
                        let before = head.len();
                        head.extend_from_slice(&buf[..n.min(8 - before)]);
                        if before < 8 && head.len() == 8 && head[..] == nonce[..] {
                            served.fetch_add(1, Ordering::SeqCst);
                        }
                    }
                    if stream.write_all(&buf[..n]).await.is_err() {
                        break;
                    }
                }
            }
        }
        Ok(())
    }

    /// how the listener gets into the builder
    #[derive(Clone, Copy, PartialEq, Debug)]
    enum Lst {
        Tcp,       // `listen` with a std TcpListener bound by the caller
        UdsBind,   // `bind_uds` with a path
        UdsAbstract, // `listen_uds` with a std UnixListener bound by the caller to an abstract-namespace name (no path)
        UdsListen, // `listen_uds` with a std UnixListener bound by the caller, in the mode std gives it (blocking), as a
                   // socket-activation caller would hand it over
    }

    /// the builder's setters, in the order a scenario calls them (`calls=timeout,blocking,…`; each changes its own setting only)
    #[derive(Clone, Copy, PartialEq, Debug)]
    enum Setter {
        Timeout,  // shutdown_timeout(<the scenario's timeout>)
        Blocking, // worker_max_blocking_threads(8)
        Limit,    // max_concurrent_connections(64)
        Backlog,  // backlog(512)
    }

    fn server_on(lst: Lst, workers: usize, timeout: Option<u64>, signals: bool, sysexit: bool, served: Arc<AtomicUsize>, nonce: [u8; 8]) -> std::io::Result<(actix_server::Server, Target)> {
        server_with(None, lst, workers, timeout, signals, sysexit, served, nonce)
    }

    #[allow(clippy::too_many_arguments)]
    fn server_with(calls: Option<Vec<Setter>>, lst: Lst, workers: usize, timeout: Option<u64>, signals: bool, sysexit: bool, served: Arc<AtomicUsize>, nonce: [u8; 8]) -> std::io::Result<(actix_server::Server, Target)> {
        use actix_service::fn_service;
        let mut b = actix_server::Server::build().workers(workers);
        match calls {
            None => {
                if let Some(t) = timeout {
                    b = b.shutdown_timeout(t); // None: the default configuration
                }
            }
            Some(calls) => {
                for c in calls {
                    b = match c {
                        Setter::Timeout => b.shutdown_timeout(timeout.unwrap_or(30)),
                        Setter::Blocking => b.worker_max_blocking_threads(8),
                        Setter::Limit => b.max_concurrent_connections(64),
                        Setter::Backlog => b.backlog(512),
                    };
                }
            }
        }
        if !signals {
            b = b.disable_signals();
        }
        if sysexit {
            b = b.system_exit();
        }
        let uds_path = || {
            static SEQ: AtomicUsize = AtomicUsize::new(0);
            let p = std::env::temp_dir().join(format!("vh-{}-{}.sock", std::process::id(), SEQ.fetch_add(1, Ordering::SeqCst)));
            let _ = std::fs::remove_file(&p);
            p
        };
        match lst {
            Lst::Tcp => {
                let l = std::net::TcpListener::bind("127.0.0.1:0")?;
                let addr = l.local_addr()?;
                let srv = b
                    .listen("verif", l, move || {
                        let served = served.clone();
                        fn_service(move |stream: actix_rt::net::TcpStream| serve_echo(stream, served.clone(), nonce))
                    })?
                    .run();
                Ok((srv, Target::Tcp(addr)))
            }
            Lst::UdsBind => {
                let p = uds_path();
                let srv = b
                    .bind_uds("verif", &p, move || {
                        let served = served.clone();
                        fn_service(move |stream: actix_rt::net::UnixStream| serve_echo(stream, served.clone(), nonce))
                    })?
                    .run();
                Ok((srv, Target::Uds(p)))
            }
            Lst::UdsAbstract => {
                use std::os::linux::net::SocketAddrExt;
                static SEQ: AtomicUsize = AtomicUsize::new(0);
                let name = format!("vh-abs-{}-{}", std::process::id(), SEQ.fetch_add(1, Ordering::SeqCst)).into_bytes();
                let a = std::os::unix::net::SocketAddr::from_abstract_name(&name)?;
                let l = std::os::unix::net::UnixListener::bind_addr(&a)?;
                let srv = b
                    .listen_uds("verif", l, move || {
                        let served = served.clone();
                        fn_service(move |stream: actix_rt::net::UnixStream| serve_echo(stream, served.clone(), nonce))
                    })?
                    .run();
                Ok((srv, Target::UdsAbstract(name)))
            }
            Lst::UdsListen => {
                let p = uds_path();
                let l = std::os::unix::net::UnixListener::bind(&p)?;
                let srv = b
                    .listen_uds("verif", l, move || {
                        let served = served.clone();
                        fn_service(move |stream: actix_rt::net::UnixStream| serve_echo(stream, served.clone(), nonce))
                    })?
                    .run();
                Ok((srv, Target::Uds(p)))
            }
        }
    }

    /// Run a `Server` on a thread (and runtime) of its own: `handle_cmd(Stop)` joins the accept thread with a
    /// *blocking* call, so a server whose accept thread never exits blocks its runtime for ever — it must not
    /// be the scenario's. Returns the handle, the address and a receiver that resolves when the `Server`
    /// future has resolved. A server that never resolves leaks its thread; the process exits all the same.
    fn host_server<F, A: Send + 'static>(build: F) -> std::io::Result<(actix_server::ServerHandle, A, tokio::sync::oneshot::Receiver<()>)>
    where
        F: FnOnce() -> std::io::Result<(actix_server::Server, A)> + Send + 'static,
    {
        let (h, a, drx, ktx) = host_server_droppable(build, false)?;
        std::mem::forget(ktx); // never dropped, never fired: the Server future is awaited to its end
        Ok((h, a, drx))
    }

    /// … and a sender that makes the hosting thread DROP the `Server` future (unresolved, no stop): the accept thread and the
    /// workers go on without a command loop (what a `select!` that the server future loses does to an application)
    #[allow(clippy::type_complexity)]
    fn host_server_droppable<F, A: Send + 'static>(build: F, under_system: bool) -> std::io::Result<(actix_server::ServerHandle, A, tokio::sync::oneshot::Receiver<()>, tokio::sync::oneshot::Sender<()>)>
    where
        F: FnOnce() -> std::io::Result<(actix_server::Server, A)> + Send + 'static,
    {
        let (tx, rx) = std::sync::mpsc::channel();
        let (dtx, drx) = tokio::sync::oneshot::channel();
        let (ktx, krx) = tokio::sync::oneshot::channel::<()>();
        std::thread::spawn(move || {
            // a plain Tokio runtime (no actix System, no Arbiter: the workers run on bare threads) — or an actix System
            // (the workers run on Arbiters)
            let fut = async move {
                match build() {
                    Ok((srv, addr)) => {
                        let _ = tx.send(Ok((srv.handle(), addr)));
                        let mut srv = Box::pin(srv);
                        let resolved = tokio::select! {
                            _ = &mut srv => true,
                            r = krx => match r {
                                Ok(()) => false,
                                Err(_) => {
                                    let _ = (&mut srv).await;
                                    true
                                }
                            },
                        };
                        if resolved {
                            let _ = dtx.send(());
                        } else {
                            drop(srv);
                            drop(dtx);
                        }
                    }
                    Err(e) => {
                        let _ = tx.send(Err(e));
                    }
                }
            };
            if under_system {
                actix_rt::System::new().block_on(fut);
            } else {
                let rt = tokio::runtime::Builder::new_current_thread().enable_all().build().unwrap();
                rt.block_on(fut);
            }
        });
        match rx.recv_timeout(Duration::from_secs(20)) {
            Ok(Ok((h, a))) => Ok((h, a, drx, ktx)),
            Ok(Err(e)) => Err(e),
            Err(_) => Err(std::io::Error::new(std::io::ErrorKind::TimedOut, "server did not start")),
        }
    }

    fn host_server_droppable_sys<F, A: Send + 'static>(under_system: bool, build: F) -> std::io::Result<(actix_server::ServerHandle, A, tokio::sync::oneshot::Receiver<()>, tokio::sync::oneshot::Sender<()>)>
    where
        F: FnOnce() -> std::io::Result<(actix_server::Server, A)> + Send + 'static,
    {
        host_server_droppable(build, under_system)
    }

    /// `stop(false)` at the end of a scenario, bounded (a broken server may never answer)
    async fn stop_bounded(handle: &actix_server::ServerHandle, done: tokio::sync::oneshot::Receiver<()>) {
        let _ = tokio::time::timeout(Duration::from_secs(5), handle.stop(false)).await;
        let _ = tokio::time::timeout(Duration::from_secs(5), done).await;
    }

    /// one instance of a server-level scenario. Everything that is judged is judged one-sidedly, so that a
    /// slow / loaded machine can only make a run *less* able to show a violation, never produce one:
    /// * "early": the stop future resolved, or the server closed a held connection, *before* the property
    ///   allows it (a time observed by the client is never earlier than the real one);
    /// * "late": not resolved `bound + 5 s` after the stop.
    struct Outcome {
        setup: Option<String>,
        stop: &'static str,   // resolved | dropped | never
        server: &'static str, // resolved | never
        second: &'static str, // resolved | never | -
        late_stop: Option<&'static str>, // a stop() called after the Server future has resolved: resolved | never | unknown
        early: Vec<String>,
        late: bool,
        served_after: bool,
        left_open: Vec<usize>, // forced stop: connections in progress that the server never closed
        probe: Option<&'static str>, // flood: a connect right after the stop completed: refused | connected
    }

    fn is_port_error(e: &std::io::Error) -> bool {
        matches!(e.kind(), std::io::ErrorKind::AddrInUse | std::io::ErrorKind::AddrNotAvailable)
    }

    struct Scn {
        workers: usize,
        timeout: Option<u64>, // None: the default configuration (documented: 30 s)
        graceful: bool,
        holds: Vec<Option<u64>>,
        second: Vec<bool>,
        gap2: u64,
        late: Option<bool>, // `late=g|f`: one more stop() after everything has completed (its future must resolve, too)
        lst: Lst,
        block: bool, // `block=1` (mode=f): right before the stop every connection's handler starts to block its worker thread for 4 s
        calls: Option<Vec<Setter>>, // `calls=<setter>,…`: the builder's setters in this order (with `timeout` iff a time-out is configured)
        flood: usize, // `flood=N` (with paused=1, a unix listener): N clients queue up in the listen backlog while the server is
        // paused; resume() and stop() are called back to back: the accept thread is busy when it is told to stop
        sysexit: bool, // `sysexit=1`: the builder's system_exit() (stop the actix System after the shutdown — there is none here)
        dropfut: bool,
        paused: bool,
    }

    fn parse_scn(ws: &[&str]) -> Option<Scn> {
        let workers = kv(ws, "workers").and_then(super::num).unwrap_or(1);
        // `timeout=<seconds>|max|default`: anything a u64 holds (`max` = u64::MAX, "never force"); above 10 s only with
        // connections that all end (nothing waits for such a time-out)
        let timeout = match kv(ws, "timeout") {
            Some("default") => None,
            Some("max") => Some(u64::MAX),
            None => Some(1),
            Some(t) if !t.is_empty() && t.len() <= 20 && t.bytes().all(|b| b.is_ascii_digit()) => Some(t.parse::<u64>().ok()?),
            _ => return None,
        };
        let lst = match kv(ws, "lst") {
            None | Some("tcp") => Lst::Tcp,
            Some("uds") => Lst::UdsBind,
            Some("udsl") => Lst::UdsListen,
            Some("udsa") => Lst::UdsAbstract,
            _ => return None,
        };
        let graceful = match kv(ws, "mode") {
            Some("g") => true,
            Some("f") => false,
            _ => return None,
        };
        let holds = kv(ws, "holds").and_then(parse_holds)?;
        let second: Vec<bool> = match kv(ws, "second") {
            None => vec![],
            Some(t) => t
                .split(',')
                .map(|x| match x {
                    "g" => Some(true),
                    "f" => Some(false),
                    _ => None,
                })
                .collect::<Option<Vec<_>>>()?,
        };
        let gap2 = match kv(ws, "gap2") {
            None => 0,
            Some(g) => super::num(g)? as u64,
        };
        if workers == 0 || workers > 64 || holds.len() > 64 || second.len() > 4 || gap2 > 5000 || (timeout.is_some_and(|t| t > 10) && holds.iter().any(|h| h.is_none())) {
            return None;
        }
        let late = match kv(ws, "late") {
            None => None,
            Some("g") => Some(true),
            Some("f") => Some(false),
            _ => return None,
        };
        let sysexit = match kv(ws, "sysexit") {
            None => false,
            Some("1") => true,
            _ => return None,
        };
        let calls: Option<Vec<Setter>> = match kv(ws, "calls") {
            None => None,
            Some(t) => {
                let v = t
                    .split(',')
                    .map(|x| match x {
                        "timeout" => Some(Setter::Timeout),
                        "blocking" => Some(Setter::Blocking),
                        "limit" => Some(Setter::Limit),
                        "backlog" => Some(Setter::Backlog),
                        _ => None,
                    })
                    .collect::<Option<Vec<_>>>()?;
                if v.len() > 6 || v.iter().filter(|c| **c == Setter::Timeout).count() != timeout.is_some() as usize {
                    return None;
                }
                Some(v)
            }
        };
        let block = match kv(ws, "block") {
            None => false,
            Some("1") if !graceful && !holds.is_empty() => true,
            _ => return None,
        };
        let flood = match kv(ws, "flood") {
            None => 0,
            Some(f) => super::num(f)?,
        };
        if flood > 2000 || (flood > 0 && (kv(ws, "paused") != Some("1") || lst == Lst::Tcp || kv(ws, "drop") == Some("1"))) {
            return None;
        }
        Some(Scn { workers, timeout, graceful, holds, second, gap2, late, lst, block, calls, flood, sysexit, dropfut: kv(ws, "drop") == Some("1"), paused: kv(ws, "paused") == Some("1") })
    }

    async fn scenario(sc: &Scn) -> Outcome {
        use tokio::io::AsyncReadExt;
        let mut out = Outcome { setup: None, stop: "never", server: "never", second: "-", late_stop: None, early: vec![], late: false, served_after: false, left_open: vec![], probe: None };
        let served = Arc::new(AtomicUsize::new(0));
        let nonce: [u8; 8] = {
            static SEQ: AtomicUsize = AtomicUsize::new(0);
            let x = (std::process::id() as u64) << 32 | (SEQ.fetch_add(1, Ordering::SeqCst) as u64 & 0xffff_ffff);
            (x ^ 0x5bd1_e995_9e37_79b9).to_be_bytes()
        };
        // ports may be scarce when many checks run at once: retry
        let mut tries = 0;
        let (handle, addr, mut srv_done) = loop {
            let (w, t, sv, l, se, cl) = (sc.workers, sc.timeout, served.clone(), sc.lst, sc.sysexit, sc.calls.clone());
            match host_server(move || server_with(cl, l, w, t, false, se, sv, nonce)) {
                Ok(x) => break x,
                Err(e) if is_port_error(&e) && tries < 40 => {
                    tries += 1;
                    tokio::time::sleep(Duration::from_millis(250)).await;
                }
                Err(e) => {
                    out.setup = Some(if is_port_error(&e) { "ports".into() } else { format!("error {e}") });
                    return out;
                }
            }
        };
        // every client proves that its connection is being served (echo) before anything else happens
        let mut clients = vec![];
        for i in 0..sc.holds.len() {
            let mut tries = 0;
            let mut c = loop {
                match connect_to(&addr).await {
                    Ok(c) => break c,
                    Err(e) if is_port_error(&e) && tries < 40 => {
                        tries += 1;
                        tokio::time::sleep(Duration::from_millis(250)).await;
                    }
                    Err(e) => {
                        out.setup = Some(if is_port_error(&e) { "ports".into() } else { format!("error connect {e}") });
                        stop_bounded(&handle, srv_done).await;
                        return out;
                    }
                }
            };
            // present the nonce (echoed back by our service), then a tagged echo
            let mut ok = hello(&mut c, &nonce).await;
            if ok {
                ok = false;
                for _ in 0..20 {
                    if echo_ok(&mut c, i as u8 + 1).await {
                        ok = true;
                        break;
                    }
                }
            }
            if !ok {
                out.setup = Some("error echo".into());
                stop_bounded(&handle, srv_done).await;
                return out;
            }
            clients.push(c);
        }
        // the accept thread counts a dispatched connection right after sending it (window W1 is C06's stated
        // exception): give it time to do so
        tokio::time::sleep(Duration::from_millis(std::env::var("VH_SETTLE").ok().and_then(|v| v.parse().ok()).unwrap_or(100))).await;
        if sc.paused {
            handle.pause().await;
        }
        if sc.block {
            use tokio::io::AsyncWriteExt;
            for c in clients.iter_mut() {
                let _ = c.write_all(&[BLOCK_BYTE]).await;
            }
            tokio::time::sleep(Duration::from_millis(200)).await; // the handlers have read it: their threads are busy now
        }
        let mut backlog = vec![];
        for _ in 0..sc.flood {
            match tokio::time::timeout(Duration::from_millis(500), connect_to(&addr)).await {
                Ok(Ok(c)) => backlog.push(c),
                _ => break, // the backlog is full: enough
            }
        }
        let served_before = served.load(Ordering::SeqCst);
        let t0 = Instant::now();
        if sc.flood > 0 {
            drop(handle.resume()); // the command is sent by the call
        }
        let stop_fut = handle.stop(sc.graceful);
        let probe_at = if sc.flood > 0 { Some(addr.clone()) } else { None };
        let stop_task = if sc.dropfut {
            drop(stop_fut);
            None
        } else {
            Some(tokio::spawn(async move {
                stop_fut.await;
                let done = Instant::now();
                // the stop has completed: the accept thread has exited and its listeners are closed — a connect is refused
                let probe = match &probe_at {
                    Some(a) => Some(connect_to(a).await.is_ok()),
                    None => None,
                };
                (t0.elapsed().as_millis(), done, probe)
            }))
        };
        // further stop() calls, each `gap2` ms after the previous call; per call: (graceful, issued at, resolved at)
        let second_task = if sc.second.is_empty() {
            None
        } else {
            let (h2, seconds, gap2) = (handle.clone(), sc.second.clone(), sc.gap2);
            // gap2 = 0: back to back — called right here, with no await since the first call: all the commands can be in the
            // channel before the command loop takes the first
            let mut now: Vec<(bool, u128, _)> = vec![];
            if gap2 == 0 {
                for g2 in &seconds {
                    let f = h2.stop(*g2);
                    now.push((*g2, t0.elapsed().as_millis(), f));
                }
            }
            Some(tokio::spawn(async move {
                let mut tasks = vec![];
                for (g2, issued, f) in now {
                    tasks.push((g2, issued, tokio::spawn(async move {
                        f.await;
                        t0.elapsed().as_millis()
                    })));
                }
                if gap2 > 0 {
                    for g2 in seconds {
                        tokio::time::sleep(Duration::from_millis(gap2)).await;
                        let f = h2.stop(g2);
                        let issued = t0.elapsed().as_millis();
                        tasks.push((g2, issued, tokio::spawn(async move {
                            f.await;
                            t0.elapsed().as_millis()
                        })));
                    }
                }
                tasks
            }))
        };
        // each client watches its connection until its release time: Some(ms) = the *server* closed it at ms
        let finish = Arc::new(tokio::sync::Notify::new());
        let mut client_tasks = vec![];
        for (mut c, rel) in clients.into_iter().zip(sc.holds.iter().cloned()) {
            let finish = finish.clone();
            client_tasks.push(tokio::spawn(async move {
                let release = async {
                    match rel {
                        Some(ms) => tokio::time::sleep_until((t0 + Duration::from_millis(ms)).into()).await,
                        None => finish.notified().await,
                    }
                };
                tokio::pin!(release);
                let mut buf = [0u8; 16];
                loop {
                    tokio::select! {
                        _ = &mut release => return None,
                        r = c.read(&mut buf) => match r {
                            Ok(0) | Err(_) => return Some(t0.elapsed().as_millis()),
                            Ok(_) => {}
                        }
                    }
                }
            }));
        }
        let t_ms = sc.timeout.unwrap_or(30) as u128 * 1000;
        let bound = ((t_ms + 999) / 1000 + 1) * 1000;
        // (a time-out above 10 s comes with connections that all end: the last one's end, rounded up to a tick, bounds the wait)
        let by_holds: Option<u128> = sc.holds.iter().map(|h| h.map(|x| x as u128)).try_fold(0u128, |m, h| h.map(|x| m.max(x))).map(|m| (m / 1000 + 2) * 1000);
        let cap = Duration::from_millis((by_holds.map_or(bound, |b| b.min(bound)).min(60_000) + 5500) as u64);
        // Ok(Ok): the Server future resolved; Ok(Err): the thread that ran it died — the future panicked instead of resolving
        let mut server_panicked = false;
        let t_server = match tokio::time::timeout(cap, &mut srv_done).await {
            Ok(r) => {
                server_panicked = r.is_err();
                Some(t0.elapsed().as_millis())
            }
            Err(_) => None,
        };
        let t_stop = match stop_task {
            None => None,
            Some(t) => match tokio::time::timeout(Duration::from_millis(3000), t).await {
                Ok(Ok((ms, done, probe))) => {
                    if probe == Some(true) {
                        out.early.push(format!("[C06] {ms} ms after the call, stop({}) had completed — and a connection to the server's listener was still possible right then: the accept thread had not exited, its listener was open ({} clients had been waiting in the backlog when resume() and stop() were called): connections can be accepted and dispatched after the completion", sc.graceful, backlog.len()));
                    }
                    out.probe = probe.map(|p| if p { "connected" } else { "refused" });
                    // graceful: every worker has answered before the completion — no service call starts after it
                    if sc.graceful {
                        if let Some(last) = *LAST_CALL.lock().unwrap() {
                            if last > done {
                                out.early.push(format!("[C06] a service call started {} µs after stop(true) had completed: a connection was dispatched and served after the completion", (last - done).as_micros()));
                            }
                        }
                    }
                    Some(ms)
                }
                _ => None,
            },
        };
        drop(backlog);
        let t_seconds: Vec<(bool, u128, Option<u128>)> = match second_task {
            None => vec![],
            Some(t) => match tokio::time::timeout(Duration::from_millis(3000 + 4 * sc.gap2), t).await {
                Ok(Ok(tasks)) => {
                    let mut v = vec![];
                    for (g2, issued, t) in tasks {
                        v.push((g2, issued, match tokio::time::timeout(Duration::from_millis(3000), t).await {
                            Ok(Ok(ms)) => Some(ms),
                            _ => None,
                        }));
                    }
                    v
                }
                _ => sc.second.iter().map(|g2| (*g2, 0, None)).collect(),
            },
        };
        out.server = if server_panicked { "panicked" } else if t_server.is_some() { "resolved" } else { "never" };
        out.stop = if sc.dropfut { "dropped" } else if t_stop.is_some() { "resolved" } else { "never" };
        out.second = if t_seconds.is_empty() {
            "-"
        } else if t_seconds.iter().all(|x| x.2.is_some()) {
            "resolved"
        } else {
            "never"
        };
        // a stop() called when the shutdown is over and the Server future has resolved: nobody is there to take the command,
        // its future resolves all the same (at once)
        if let Some(g3) = sc.late {
            out.late_stop = Some(if t_server.is_none() {
                "unknown"
            } else {
                tokio::time::sleep(Duration::from_millis(100)).await;
                match tokio::time::timeout(Duration::from_millis(4000), handle.stop(g3)).await {
                    Ok(()) => "resolved",
                    Err(_) => "never",
                }
            });
        }
        // nothing is served after completion: a probe presenting our nonce must not be counted by OUR service
        // (whoever answers on that port now — nobody, or a stranger that got the port — is not our concern)
        if t_server.is_some() {
            if let Ok(Ok(mut c)) = tokio::time::timeout(Duration::from_millis(500), connect_to(&addr)).await {
                let _ = hello(&mut c, &nonce).await;
            }
            tokio::time::sleep(Duration::from_millis(50)).await;
            if served.load(Ordering::SeqCst) > served_before {
                out.served_after = true;
            }
        }
        // a forced stop tells every worker to stop at once; a worker that stops takes its connections with it: a connection
        // that its client never lets go of is closed by the server (one-sided: 5 s after the shutdown has completed)
        if !sc.graceful && t_server.is_some() && !sc.block {
            let t = Instant::now();
            loop {
                out.left_open = (0..client_tasks.len()).filter(|i| sc.holds[*i].is_none() && !client_tasks[*i].is_finished()).collect();
                if out.left_open.is_empty() || t.elapsed() > Duration::from_secs(5) {
                    break;
                }
                tokio::time::sleep(Duration::from_millis(25)).await;
            }
        }
        finish.notify_waiters();
        let mut closed_at = vec![];
        for t in client_tasks {
            closed_at.push(match tokio::time::timeout(Duration::from_millis(200), t).await {
                Ok(Ok(x)) => x,
                _ => None,
            });
        }
        // ---- one-sided judgements
        let all_done: Option<u128> = sc.holds.iter().map(|h| h.map(|x| x as u128)).try_fold(0u128, |m, h| h.map(|x| m.max(x)));
        let need = match all_done {
            Some(x) => x.min(t_ms),
            None => t_ms,
        };
        if sc.graceful && !sc.holds.is_empty() {
            if let Some(done_at) = t_stop.or(t_server) {
                if done_at + 60 < need {
                    out.early.push(match sc.timeout {
                        Some(_) => format!(
                            "graceful stop completed after {done_at} ms although connections were in progress until {} and shutdown_timeout is {t_ms} ms",
                            all_done.map_or("never".to_string(), |x| format!("{x} ms"))
                        ),
                        None => format!(
                            "graceful stop completed after {:.1} s with a connection still in progress (until {}) although neither the connection finished nor the default timeout of 30 s elapsed (ServerBuilder::shutdown_timeout was not called)",
                            done_at as f64 / 1000.0,
                            all_done.map_or("never".to_string(), |x| format!("{x} ms"))
                        ),
                    });
                }
            }
            // every further stop(): its future, too, resolves only when the shutdown is complete — a stop issued during a
            // graceful shutdown (graceful or forced) must not be answered while connections are in progress and time is left
            for (i, (g2, issued, resolved)) in t_seconds.iter().enumerate() {
                if let Some(ms) = resolved {
                    if ms + 60 < need {
                        out.early.push(format!(
                            "the future of stop({g2}) no. {} (called {issued} ms into the graceful shutdown) resolved after {ms} ms although connections were in progress until {} and shutdown_timeout is {t_ms} ms: every stop completes only when the shutdown does",
                            i + 2,
                            all_done.map_or("never".to_string(), |x| format!("{x} ms"))
                        ));
                    }
                }
            }
            for (i, cl) in closed_at.iter().enumerate() {
                if let Some(ms) = cl {
                    if ms + 60 < t_ms {
                        out.early.push(format!("connection {i}, still held by its client, was closed by the server {ms} ms into a graceful shutdown (shutdown_timeout {t_ms} ms)"));
                    }
                }
            }
        }
        if sc.block {
            // a forced stop does not wait for the workers — a worker whose thread is busy answers late, nobody waits for that
            if let Some(done_at) = t_stop.or(t_server) {
                if done_at > 2000 {
                    out.early.push(format!("[C06] stop(false) took {done_at} ms to complete while connection handlers kept the worker thread(s) busy (blocking for {BLOCK_MS} ms): a forced stop does not wait for the workers' answers"));
                }
            }
        }
        if !sc.graceful {
            // "does not wait": with a never-ending connection and a long timeout, completion well before the timeout
            if let Some(done_at) = t_stop.or(t_server) {
                if t_ms >= 5000 && all_done.is_none() && done_at > 3000 {
                    out.early.push(format!("forced stop took {done_at} ms to complete (it must not wait for connections; shutdown_timeout {t_ms} ms)"));
                }
            }
        }
        out.late = t_server.is_none();
        if let Target::Uds(p) = &addr {
            let _ = std::fs::remove_file(p);
        }
        out
    }

    fn show(o: &Outcome, fails: &mut Vec<String>) -> String {
        if let Some(s) = &o.setup {
            return format!("setup-{s}");
        }
        if o.server == "never" {
            fails.push("the Server future did not resolve within its bound + 5 s".into());
        }
        if o.server == "panicked" {
            fails.push("the Server future panicked instead of resolving (the thread that awaited it died): after a stop it resolves — whatever else is in the command channel, with or without an actix System".into());
        }
        if o.stop == "never" {
            fails.push("the stop() future did not resolve".into());
        }
        if o.second == "never" {
            fails.push("the future of the second stop() did not resolve".into());
        }
        if o.late_stop == Some("never") {
            fails.push("the future of a stop() called after the shutdown had completed and the Server future had resolved did not resolve within 4 s: stop always completes — the command cannot be delivered any more, its completion channel has to go with it".into());
        }
        fails.extend(o.early.iter().cloned());
        if o.served_after {
            fails.push("a connection was served after the shutdown completed".into());
        }
        if !o.left_open.is_empty() {
            fails.push(format!("[C06,C01] forced stop: connection(s) {:?}, in progress when stop(false) was called, were still open and served 5 s after the shutdown had completed and the Server future had resolved: their worker was never stopped (every worker is sent Stop, graceful or not)", o.left_open));
        }
        format!(
            "stop={} server={} second={} early={} late={} after={}{}",
            o.stop,
            o.server,
            o.second,
            (!o.early.is_empty()) as u8,
            o.late as u8,
            if o.served_after { "served" } else if !o.left_open.is_empty() { "open" } else { "none" },
            o.late_stop.map_or(String::new(), |l| format!(" late-stop={l}")) + &o.probe.map_or(String::new(), |p| format!(" probe={p}"))
        )
    }

    /// (rewritten op, observation, oracle failures)
    fn run_srv(line: &str) -> (String, String, Vec<String>) {
        let ws: Vec<&str> = line.split_whitespace().collect();
        let sc = match parse_scn(&ws) {
            Some(s) => s,
            None => return (line.to_string(), "bad-op".into(), vec![]),
        };
        let reps = kv(&ws, "reps").and_then(super::num).unwrap_or(1).clamp(1, 64);
        let burn = kv(&ws, "burn").and_then(super::num).unwrap_or(0).min(32);
        // optional CPU pressure (replay of the accept-exit / Stop-delivery race needs a preempted server thread)
        let stop_burn = Arc::new(std::sync::atomic::AtomicBool::new(false));
        let burners: Vec<_> = (0..burn)
            .map(|_| {
                let s = stop_burn.clone();
                std::thread::spawn(move || {
                    let mut x = 0u64;
                    while !s.load(Ordering::Relaxed) {
                        x = x.wrapping_mul(6364136223846793005).wrapping_add(1);
                        std::hint::black_box(x);
                    }
                })
            })
            .collect();
        let sc = Arc::new(sc);
        let handles: Vec<_> = (0..reps)
            .map(|_| {
                let sc = sc.clone();
                std::thread::spawn(move || {
                    let rt = tokio::runtime::Builder::new_current_thread().enable_all().build().unwrap();
                    let o = rt.block_on(scenario(&sc));
                    rt.shutdown_timeout(Duration::from_millis(200));
                    o
                })
            })
            .collect();
        let outs: Vec<Outcome> = handles.into_iter().filter_map(|h| h.join().ok()).collect();
        stop_burn.store(true, Ordering::Relaxed);
        for b in burners {
            let _ = b.join();
        }
        let mut fails = vec![];
        if outs.iter().any(|o| matches!(o.setup.as_deref(), Some("ports"))) {
            // no ephemeral ports: nothing was observed; both sides skip the line
            return (format!("{line} skip=ports"), "skipped".into(), vec![]);
        }
        // several repetitions: the worst outcome is reported
        let mut worst: Option<&Outcome> = None;
        for o in &outs {
            let bad = o.setup.is_some() || !o.early.is_empty() || o.late || o.served_after || o.stop == "never" || o.server != "resolved" || o.second == "never" || o.late_stop == Some("never") || !o.left_open.is_empty();
            if bad || worst.is_none() {
                worst = Some(o);
                if bad {
                    break;
                }
            }
        }
        match worst {
            Some(o) => {
                let obs = show(o, &mut fails);
                (line.to_string(), obs, fails)
            }
            None => (line.to_string(), "panic".into(), vec!["the server-level scenario panicked".into()]),
        }
    }

    /// child process: a server with OS signals enabled; prints its port, exits when the server future resolves
    pub fn sigchild(timeout: Option<u64>, plain_tokio: bool, abstract_uds: bool, emfile: bool, pre_cmds: bool) {
        if emfile {
            // commands on stdin: `lower` takes every free descriptor away from this process (soft RLIMIT_NOFILE = 0: the next
            // accept fails with a real EMFILE), `restore` gives them back; each is acknowledged on stdout
            std::thread::spawn(|| {
                use std::io::BufRead;
                let mut old: libc::rlimit = unsafe { std::mem::zeroed() };
                unsafe { libc::getrlimit(libc::RLIMIT_NOFILE, &mut old) };
                for line in std::io::stdin().lock().lines().map_while(Result::ok) {
                    let r = match line.trim() {
                        "lower" => unsafe { libc::setrlimit(libc::RLIMIT_NOFILE, &libc::rlimit { rlim_cur: 0, rlim_max: old.rlim_max }) },
                        "restore" => unsafe { libc::setrlimit(libc::RLIMIT_NOFILE, &old) },
                        _ => -1,
                    };
                    println!("{}", if r == 0 { "done" } else { "failed" });
                    let _ = std::io::stdout().flush();
                }
            });
        }
        // SIGUSR1: a handler that does nothing (no SA_RESTART): whichever thread takes it has its system call interrupted
        extern "C" fn noop(_: libc::c_int) {}
        unsafe {
            let mut sa: libc::sigaction = std::mem::zeroed();
            sa.sa_sigaction = noop as *const () as usize;
            libc::sigemptyset(&mut sa.sa_mask);
            sa.sa_flags = 0;
            libc::sigaction(libc::SIGUSR1, &sa, std::ptr::null_mut());
        }
        let served = Arc::new(AtomicUsize::new(0));
        let fut = async move {
            let (srv, target) = server_on(if abstract_uds { Lst::UdsAbstract } else { Lst::Tcp }, 1, timeout, true, false, served, [0u8; 8]).expect("server");
            if pre_cmds {
                // commands through the handle before any signal arrives: the command loop goes on listening to signals
                let h = srv.handle();
                tokio::spawn(async move {
                    tokio::time::sleep(Duration::from_millis(150)).await;
                    h.pause().await;
                    h.resume().await;
                    h.pause().await;
                    h.resume().await;
                });
            }
            match target {
                Target::Tcp(addr) => println!("{}", addr.port()),
                Target::UdsAbstract(name) => println!("{}", String::from_utf8_lossy(&name)),
                Target::Uds(p) => println!("{}", p.display()),
            }
            std::io::stdout().flush().unwrap();
            let _ = srv.await;
        };
        // a panic of the Server future ends the process with the panic exit code (101)
        if plain_tokio {
            tokio::runtime::Builder::new_current_thread().enable_all().build().unwrap().block_on(fut);
        } else {
            actix_rt::System::new().block_on(fut);
        }
        std::process::exit(0);
    }

    fn run_sig(line: &str) -> (String, String, Vec<String>) {
        let ws: Vec<&str> = line.split_whitespace().collect();
        let (signame, graceful) = match kv(&ws, "sig") {
            Some("int") => ("INT", false),
            Some("term") => ("TERM", true),
            Some("quit") => ("QUIT", false),
            _ => return (line.to_string(), "bad-op".into(), vec![]),
        };
        let timeout: Option<u64> = match kv(&ws, "timeout") {
            Some("default") => None, // the default configuration (documented: 30 s)
            t => Some(t.and_then(super::num).unwrap_or(1) as u64),
        };
        let hold = match kv(&ws, "hold").and_then(parse_holds) {
            Some(h) if h.len() == 1 => h[0],
            _ => return (line.to_string(), "bad-op".into(), vec![]),
        };
        // `rt=tokio`: the server process runs a plain Tokio runtime (no actix System to stop after the shutdown)
        let plain_tokio = match kv(&ws, "rt") {
            None | Some("system") => false,
            Some("tokio") => true,
            _ => return (line.to_string(), "bad-op".into(), vec![]),
        };
        // `lst=udsa`: the server process listens on a unix socket in the abstract namespace (no path)
        let abstract_uds = match kv(&ws, "lst") {
            None | Some("tcp") => false,
            Some("udsa") => true,
            _ => return (line.to_string(), "bad-op".into(), vec![]),
        };
        // `to=acceptor`: the signal is delivered to the accept thread of the server process (tgkill), not to the process;
        // `usr1=1`: before that, SIGUSR1 (no-op handler in the server process) is delivered to the accept thread: the server serves on
        let to_acceptor = match kv(&ws, "to") {
            None | Some("process") => false,
            Some("acceptor") => true,
            _ => return (line.to_string(), "bad-op".into(), vec![]),
        };
        let usr1 = match kv(&ws, "usr1") {
            None => false,
            Some("1") => true,
            _ => return (line.to_string(), "bad-op".into(), vec![]),
        };
        // `emfile=1`: while the server runs, its process loses every free descriptor for a moment: a client that connects then
        // makes accept fail with a real EMFILE (the listener backs off for 500 ms); the descriptors come back 100 ms later;
        // `storm=<ms>x<n>`: from then on SIGUSR1 (no-op handler) is delivered to the accept thread every <ms> ms, n times.
        // The connection that hit the shortage is served when the back-off expires — interrupted polls do not postpone it
        // `pre=1`: the server handles commands (pause, resume, twice) before the signal arrives
        let pre_cmds = match kv(&ws, "pre") {
            None => false,
            Some("1") => true,
            _ => return (line.to_string(), "bad-op".into(), vec![]),
        };
        let emfile = match kv(&ws, "emfile") {
            None => false,
            Some("1") => true,
            _ => return (line.to_string(), "bad-op".into(), vec![]),
        };
        let storm: Option<(u64, u64)> = match kv(&ws, "storm") {
            None => None,
            Some(t) => match t.split_once('x').and_then(|(a, b)| Some((super::num(a)? as u64, super::num(b)? as u64))) {
                Some((ms, n)) if emfile && (10..=1000).contains(&ms) && (1..=100).contains(&n) => Some((ms, n)),
                _ => return (line.to_string(), "bad-op".into(), vec![]),
            },
        };
        let exe = match std::env::current_exe() {
            Ok(e) => e,
            Err(e) => return (line.to_string(), format!("setup-error {e}"), vec![]),
        };
        let mut child = match std::process::Command::new(exe)
            .args(["sigchild", &timeout.map_or("default".to_string(), |t| t.to_string()), if plain_tokio { "tokio" } else { "system" }, if abstract_uds { "udsa" } else { "tcp" }, if emfile { "emfile" } else { "-" }, if pre_cmds { "pre" } else { "-" }])
            .stdin(if emfile { std::process::Stdio::piped() } else { std::process::Stdio::null() })
            .stdout(std::process::Stdio::piped())
            .stderr(std::process::Stdio::null())
            .spawn()
        {
            Ok(c) => c,
            Err(e) => return (line.to_string(), format!("setup-error spawn {e}"), vec![]),
        };
        let child_pid = child.id();
        let mut port = String::new();
        {
            let out = child.stdout.as_mut().unwrap();
            let mut b = [0u8; 1];
            while let Ok(1) = out.read(&mut b) {
                if b[0] == b'\n' {
                    break;
                }
                port.push(b[0] as char);
            }
        }
        trait StdRw: Read + Write + Send {}
        impl<T: Read + Write + Send> StdRw for T {}
        let port2 = port.clone();
        let mk_conn = move || -> Option<Box<dyn StdRw>> {
            let port = port2.clone();
            if abstract_uds {
            use std::os::linux::net::SocketAddrExt;
            std::os::unix::net::SocketAddr::from_abstract_name(port.trim().as_bytes())
                .and_then(|a| std::os::unix::net::UnixStream::connect_addr(&a))
                .ok()
                .filter(|_| port.trim().starts_with("vh-abs-"))
                .map(|c| {
                    let _ = c.set_read_timeout(Some(Duration::from_millis(1000)));
                    Box::new(c) as Box<dyn StdRw>
                })
        } else {
            port.trim().parse::<u16>().ok().and_then(|p| std::net::TcpStream::connect(("127.0.0.1", p)).ok()).map(|c| {
                let _ = c.set_read_timeout(Some(Duration::from_millis(1000)));
                Box::new(c) as Box<dyn StdRw>
            })
            }
        };
        let mut c = match mk_conn() {
            Some(c) => c,
            None => {
                let _ = child.kill();
                return (format!("{line} skip=ports"), "skipped".into(), vec![]);
            }
        };
        let _ = c.write_all(&[9]);
        let mut b = [0u8; 1];
        if c.read_exact(&mut b).is_err() {
            let _ = child.kill();
            return (line.to_string(), "setup-error echo".into(), vec![]);
        }
        std::thread::sleep(Duration::from_millis(if pre_cmds { 700 } else { 100 })); // let the signal handlers be installed (and the commands be handled)
        // the thread of the accept loop in the server process
        let acceptor_tid = || -> Option<i32> {
            for e in std::fs::read_dir(format!("/proc/{}/task", child_pid)).ok()?.flatten() {
                if let Ok(comm) = std::fs::read_to_string(e.path().join("comm")) {
                    if comm.trim().starts_with("actix-server ac") {
                        return e.file_name().to_str()?.parse().ok();
                    }
                }
            }
            None
        };
        let mut pre_fails: Vec<String> = vec![];
        let mut serves: Option<bool> = None;
        if usr1 {
            // a harmless signal (the server process has a no-op handler for it) handled on the accept thread: its poll is
            // interrupted; the server goes on serving — the connection in progress and a new one
            if let Some(tid) = acceptor_tid() {
                for _ in 0..3 {
                    unsafe { libc::syscall(libc::SYS_tgkill, child_pid as libc::c_long, tid as libc::c_long, libc::SIGUSR1 as libc::c_long) };
                    std::thread::sleep(Duration::from_millis(30));
                }
                std::thread::sleep(Duration::from_millis(100));
                let mut ok = false;
                if let Some(mut c2) = mk_conn() {
                    let _ = c2.write_all(&[7]);
                    let mut b2 = [0u8; 1];
                    ok = c2.read_exact(&mut b2).is_ok() && b2[0] == 7;
                }
                serves = Some(ok);
                if !ok {
                    pre_fails.push("a harmless signal (SIGUSR1, no-op handler) was handled on the accept thread of the running server (its poll returned EINTR): afterwards a new connection was not accepted and served — an interrupted poll is not an error, the server keeps serving".into());
                }
            }
        }
        let mut served_obs = String::new();
        if emfile {
            let mut stdin = child.stdin.take();
            let mut cmd = |c: &str, child: &mut std::process::Child| -> bool {
                let Some(si) = stdin.as_mut() else { return false };
                if si.write_all(format!("{c}\n").as_bytes()).is_err() || si.flush().is_err() {
                    return false;
                }
                let out = child.stdout.as_mut().unwrap();
                let (mut l, mut b) = (String::new(), [0u8; 1]);
                while let Ok(1) = out.read(&mut b) {
                    if b[0] == b'\n' {
                        break;
                    }
                    l.push(b[0] as char);
                }
                l.trim() == "done"
            };
            let tid = acceptor_tid();
            let mut served_ms: Option<u128> = None;
            let mut ran = false;
            if cmd("lower", &mut child) {
                // the client's connect completes in the kernel (backlog); the server's accept fails: EMFILE, back-off
                let c2 = mk_conn();
                std::thread::sleep(Duration::from_millis(100));
                let restored = cmd("restore", &mut child);
                let t_restored = Instant::now();
                if let (Some(mut c2), true) = (c2, restored) {
                    ran = true;
                    let storm_thread = storm.and_then(|(ms, n)| {
                        tid.map(|tid| {
                            std::thread::spawn(move || {
                                for _ in 0..n {
                                    unsafe { libc::syscall(libc::SYS_tgkill, child_pid as libc::c_long, tid as libc::c_long, libc::SIGUSR1 as libc::c_long) };
                                    std::thread::sleep(Duration::from_millis(ms));
                                }
                            })
                        })
                    });
                    // (read time-out of the connection: 1 s per attempt)
                    let _ = c2.write_all(&[5]);
                    let mut b2 = [0u8; 1];
                    while t_restored.elapsed() < Duration::from_millis(3500) {
                        if c2.read_exact(&mut b2).is_ok() && b2[0] == 5 {
                            served_ms = Some(t_restored.elapsed().as_millis());
                            break;
                        }
                    }
                    if let Some(t) = storm_thread {
                        let _ = t.join();
                    }
                }
            } else {
                let _ = cmd("restore", &mut child);
            }
            if ran {
                let ok = matches!(served_ms, Some(ms) if ms <= 1500);
                if !ok {
                    for tag in ["C05", "C03"] {
                        pre_fails.push(format!(
                            "[{tag}] accept failed for want of descriptors (EMFILE), the listener backed off; the descriptors were back 100 ms later, but the waiting connection was {} after that{}: the back-off ends 500 ms after the error — whatever wakes the accept thread's poll in between, an interrupted poll included",
                            served_ms.map_or("not served within 3.5 s".to_string(), |ms| format!("served only {ms} ms")),
                            storm.map_or(String::new(), |(ms, n)| format!(" (SIGUSR1, no-op handler, delivered to the accept thread every {ms} ms, {n} times)"))
                        ));
                    }
                }
                served_obs = format!(" served={}", ok as u8);
            } else {
                served_obs = " served=skipped".into();
            }
        }
        let t0 = Instant::now();
        let direct = if to_acceptor { acceptor_tid() } else { None };
        match direct {
            Some(tid) => {
                let signo = match signame {
                    "INT" => libc::SIGINT,
                    "TERM" => libc::SIGTERM,
                    _ => libc::SIGQUIT,
                };
                unsafe { libc::syscall(libc::SYS_tgkill, child_pid as libc::c_long, tid as libc::c_long, signo as libc::c_long) };
            }
            None => {
                let _ = std::process::Command::new("kill").args([&format!("-{signame}"), &child.id().to_string()]).status();
            }
        }
        let t_ms = timeout.unwrap_or(30) as u128 * 1000;
        let cap = Duration::from_millis(match (timeout, hold) {
            (None, Some(h)) => h + 7000, // default configuration: only with a connection that ends (no 37 s waits)
            _ => t_ms as u64 + 7000,
        });
        let mut released = false;
        let mut exit_ms = None;
        let mut exit_code: Option<i32> = Some(0);
        let mut c = Some(c);
        while t0.elapsed() < cap {
            if let Some(ms) = hold {
                if !released && t0.elapsed() >= Duration::from_millis(ms) {
                    c = None;
                    released = true;
                }
            }
            if let Ok(Some(st)) = child.try_wait() {
                exit_ms = Some(t0.elapsed().as_millis());
                exit_code = st.code();
                break;
            }
            std::thread::sleep(Duration::from_millis(10));
        }
        drop(c);
        let mut fails = pre_fails;
        let mut early = false;
        match exit_ms {
            None => {
                let _ = child.kill();
                let _ = child.wait();
                fails.push(format!("the server process did not exit within {} ms of SIG{signame}", cap.as_millis()));
            }
            Some(ms) => {
                let need = hold.map_or(t_ms, |h| (h as u128).min(t_ms));
                if graceful && ms + 60 < need {
                    early = true;
                    fails.push(format!(
                        "SIGTERM: the process exited after {ms} ms with a connection in progress until {:?}, shutdown_timeout {}",
                        hold,
                        if timeout.is_some() { format!("{t_ms} ms") } else { "not configured (default: 30 s)".to_string() }
                    ));
                }
                if !graceful && t_ms >= 5000 && hold.is_none() && ms > 3000 {
                    early = true;
                    fails.push(format!("SIG{signame}: forced shutdown took {ms} ms (shutdown_timeout {t_ms} ms)"));
                }
            }
        }
        let clean = exit_code == Some(0);
        if exit_ms.is_some() && !clean {
            fails.push(format!(
                "SIG{signame}: the server process ended with {} instead of exiting cleanly: the Server future did not resolve (it panicked){}",
                exit_code.map_or("a signal".to_string(), |c| format!("exit code {c}")),
                if plain_tokio { " — on a plain Tokio runtime there is no actix System to stop after the shutdown" } else { "" }
            ));
        }
        (
            line.to_string(),
            format!(
                "exit={} early={}{}",
                if exit_ms.is_none() { "never".to_string() } else if clean { "ok".to_string() } else { exit_code.map_or("signal".to_string(), |c| format!("code{c}")) },
                early as u8,
                if usr1 { format!(" serves={}", serves.map_or("?".to_string(), |s| (s as u8).to_string())) } else { String::new() } + &served_obs
            ),
            fails,
        )
    }

    // ---------------------------------------------------------------------------------------------
    // `gate <name> kind=pending|fail`: a service whose readiness is switched by the test (C07, through the
    // real `StreamService` adapter): ready for a first connection; while the worker is idle it turns
    // Pending (or breaks once); the next connection must wait for it / go to the re-created instance.
    // ---------------------------------------------------------------------------------------------
    const G_READY: usize = 0;
    const G_PENDING: usize = 1;
    const G_FAIL_ONCE: usize = 2;

    #[derive(Default)]
    struct GateShared {
        gate: AtomicUsize,
        waker: std::sync::Mutex<Option<std::task::Waker>>,
        created: AtomicUsize,
        polls: AtomicUsize,
        calls: std::sync::Mutex<Vec<(usize, usize)>>, // (instance, gate at the time of the call)
        /// instances whose very FIRST readiness answer is Err (a replacement that is broken from the start)
        fail_first: std::sync::Mutex<Vec<usize>>,
        /// instances that have answered a readiness check with Err, in order
        failed: std::sync::Mutex<Vec<usize>>,
        /// calls that reached an instance after it had reported a readiness error
        called_after_fail: std::sync::Mutex<Vec<usize>>,
        /// `kind=driver`: the scenario's go for the readiness drivers
        drive: tokio::sync::Notify,
    }

    impl GateShared {
        fn set_gate(&self, v: usize) {
            self.gate.store(v, Ordering::SeqCst);
            if let Some(w) = self.waker.lock().unwrap().take() {
                w.wake();
            }
        }
    }

    struct GatedService {
        id: usize,
        first: std::cell::Cell<bool>,
        shared: Arc<GateShared>,
        /// `kind=driver`: ready only once the local task that the FACTORY spawned for this instance has run
        driver: Option<(Rc<std::cell::Cell<bool>>, Rc<RefCell<Option<std::task::Waker>>>)>,
    }

    use std::{cell::RefCell, rc::Rc};

    /// the factory of the gated service; `driver`: the new instance gets a readiness driver — a task spawned on the local set
    /// the factory runs on; it waits for the scenario's go (`GateShared::drive`), then makes its instance ready and wakes it
    async fn make_gated(sh: Arc<GateShared>, driver: bool) -> Result<GatedService, ()> {
        let id = sh.created.fetch_add(1, Ordering::SeqCst) + 1;
        let drv = if driver {
            let ready = Rc::new(std::cell::Cell::new(false));
            let wk: Rc<RefCell<Option<std::task::Waker>>> = Rc::new(RefCell::new(None));
            let (r2, w2, sh2) = (ready.clone(), wk.clone(), sh.clone());
            tokio::task::spawn_local(async move {
                sh2.drive.notified().await;
                sh2.drive.notify_one(); // (pass the go on to the driver of a later instance)
                r2.set(true);
                if let Some(w) = w2.borrow_mut().take() {
                    w.wake();
                }
            });
            Some((ready, wk))
        } else {
            None
        };
        Ok(GatedService { id, first: std::cell::Cell::new(true), shared: sh, driver: drv })
    }

    impl<S: tokio::io::AsyncWrite + Unpin + 'static> actix_service::Service<S> for GatedService {
        type Response = ();
        type Error = ();
        type Future = futures_core::future::LocalBoxFuture<'static, Result<(), ()>>;

        fn poll_ready(&self, cx: &mut std::task::Context<'_>) -> std::task::Poll<Result<(), ()>> {
            self.shared.polls.fetch_add(1, Ordering::SeqCst);
            if let Some((ready, wk)) = &self.driver {
                if !ready.get() {
                    *wk.borrow_mut() = Some(cx.waker().clone());
                    return std::task::Poll::Pending;
                }
            }
            if self.first.replace(false) && self.shared.fail_first.lock().unwrap().contains(&self.id) {
                self.shared.failed.lock().unwrap().push(self.id);
                return std::task::Poll::Ready(Err(()));
            }
            match self.shared.gate.load(Ordering::SeqCst) {
                G_READY => std::task::Poll::Ready(Ok(())),
                G_PENDING => {
                    *self.shared.waker.lock().unwrap() = Some(cx.waker().clone());
                    if self.shared.gate.load(Ordering::SeqCst) != G_PENDING {
                        cx.waker().wake_by_ref();
                    }
                    std::task::Poll::Pending
                }
                _ => {
                    // this instance is broken; its replacement is healthy
                    self.shared.failed.lock().unwrap().push(self.id);
                    self.shared.gate.store(G_READY, Ordering::SeqCst);
                    std::task::Poll::Ready(Err(()))
                }
            }
        }

        fn call(&self, mut io: S) -> Self::Future {
            use tokio::io::AsyncWriteExt;
            let gate = self.shared.gate.load(Ordering::SeqCst);
            self.shared.calls.lock().unwrap().push((self.id, gate));
            if self.shared.failed.lock().unwrap().contains(&self.id) {
                self.shared.called_after_fail.lock().unwrap().push(self.id);
            }
            let id = self.id;
            Box::pin(async move {
                let _ = io.write_all(&[b'0' + id as u8]).await;
                let _ = io.shutdown().await;
                Ok(())
            })
        }
    }

    /// connect, wait (bounded) for the one-byte answer of the service that took the connection
    async fn ask(addr: std::net::SocketAddr, wait: Duration) -> Option<u8> {
        use tokio::io::AsyncReadExt;
        let mut c = tokio::net::TcpStream::connect(addr).await.ok()?;
        let _ = socket2::SockRef::from(&c).set_linger(Some(Duration::ZERO));
        let mut b = [0u8; 1];
        match tokio::time::timeout(wait, c.read_exact(&mut b)).await {
            Ok(Ok(_)) => Some(b[0]),
            _ => None,
        }
    }

    async fn ask_t(t: &Target, wait: Duration) -> Option<u8> {
        use tokio::io::AsyncReadExt;
        let mut c = connect_to(t).await.ok()?;
        let mut b = [0u8; 1];
        match tokio::time::timeout(wait, c.read_exact(&mut b)).await {
            Ok(Ok(_)) => Some(b[0]),
            _ => None,
        }
    }

    fn run_gate(line: &str) -> (String, String, Vec<String>) {
        let ws: Vec<&str> = line.split_whitespace().collect();
        // `kind=fail2`: the re-created instance fails as well — at its very first readiness check; the third one is healthy
        // `kind=driver`: the service is ready only once a local task that its factory spawned has run (after the scenario's go):
        // the tasks a factory spawns live on with the worker, the connection that waits is served then
        let driver = kv(&ws, "kind") == Some("driver");
        // `lst=uds`: a unix listener (bind_uds): the connection reaches the service intact after it waited for readiness;
        // `sys=1`: hosted under an actix System instead of a plain Tokio runtime
        let uds = match kv(&ws, "lst") {
            None | Some("tcp") => false,
            Some("uds") => true,
            _ => return (line.to_string(), "bad-op".into(), vec![]),
        };
        let under_system = match kv(&ws, "sys") {
            None => false,
            Some("1") => true,
            _ => return (line.to_string(), "bad-op".into(), vec![]),
        };
        // `burst=N` (kind=pending): N further connections are queued while the service is Pending
        let burst = match kv(&ws, "burst") {
            None => 0usize,
            Some(n) => match super::num(n) {
                Some(n) if (1..=200).contains(&n) && kv(&ws, "kind") == Some("pending") && kv(&ws, "stop").is_none() => n,
                _ => return (line.to_string(), "bad-op".into(), vec![]),
            },
        };
        let (fail, fail2) = match kv(&ws, "kind") {
            Some("pending") | Some("driver") => (false, false),
            Some("fail") => (true, false),
            Some("fail2") => (true, true),
            _ => return (line.to_string(), "bad-op".into(), vec![]),
        };
        // `stop=f|g` (kind=pending): the second connection is queued at the worker (its service is not ready) when the server is
        // stopped: it is released — closed, never served, also when the service becomes ready afterwards (C01, C06)
        // `listeners=N at=K`: the server has N listeners (each with a service of its own; all but one are never connected to);
        // the gated service is the one of listener K (its token and its factory index are K): when it fails its readiness
        // check it is re-created from ITS OWN factory, whatever its index
        let (listeners, at) = match (kv(&ws, "listeners"), kv(&ws, "at")) {
            (None, None) => (1usize, 0usize),
            (Some(n), Some(k)) => match (super::num(n), super::num(k)) {
                (Some(n), Some(k)) if k < n && n <= 400 => (n, k),
                _ => return (line.to_string(), "bad-op".into(), vec![]),
            },
            _ => return (line.to_string(), "bad-op".into(), vec![]),
        };
        let stop_mode = match kv(&ws, "stop") {
            None => None,
            Some("f") if !fail && !driver => Some(false),
            Some("g") if !fail && !driver => Some(true),
            _ => return (line.to_string(), "bad-op".into(), vec![]),
        };
        let rt = tokio::runtime::Builder::new_current_thread().enable_all().build().unwrap();
        let mut fails = vec![];
        let obs = rt.block_on(async {
            let shared = Arc::new(GateShared::default());
            if fail2 {
                shared.fail_first.lock().unwrap().push(2);
            }
            let sh = shared.clone();
            if uds && listeners != 1 {
                return "bad-op".to_string();
            }
            let hosted = host_server_droppable_sys(under_system, move || {
                let mut b = actix_server::Server::build().workers(1).disable_signals();
                if uds {
                    static SEQ: AtomicUsize = AtomicUsize::new(0);
                    let p = std::env::temp_dir().join(format!("vh-gate-{}-{}.sock", std::process::id(), SEQ.fetch_add(1, Ordering::SeqCst)));
                    let _ = std::fs::remove_file(&p);
                    let sh = sh.clone();
                    b = b.bind_uds("gated-uds", &p, move || {
                        let sh = sh.clone();
                        actix_service::fn_factory(move || make_gated(sh.clone(), driver))
                    })?;
                    return Ok((b.run(), Target::Uds(p)));
                }
                let mut addr = None;
                for i in 0..listeners {
                    let lst = std::net::TcpListener::bind("127.0.0.1:0")?;
                    if i == at {
                        addr = Some(lst.local_addr()?);
                        let sh = sh.clone();
                        b = b.listen(format!("gated-{i}"), lst, move || {
                            let sh = sh.clone();
                            actix_service::fn_factory(move || make_gated(sh.clone(), driver))
                        })?;
                    } else {
                        // a listener nobody connects to; its service says so if it is ever called
                        b = b.listen(format!("other-{i}"), lst, move || {
                            actix_service::fn_service(move |mut io: actix_rt::net::TcpStream| async move {
                                use tokio::io::AsyncWriteExt;
                                let _ = io.write_all(b"x").await;
                                Ok::<_, ()>(())
                            })
                        })?;
                    }
                }
                Ok((b.run(), Target::Tcp(addr.unwrap())))
            });
            let (handle, addr, srv_done) = match hosted {
                Ok((h, a, d, k)) => {
                    std::mem::forget(k);
                    (h, a, d)
                }
                Err(e) => return if is_port_error(&e) { "skipped".to_string() } else { format!("setup-error {e}") },
            };
            // first connection: served by instance 1 (`kind=driver`: once the readiness driver has been given its go, 300 ms
            // after the connection was made)
            let a1 = if driver {
                let (t2, sh2) = (addr.clone(), shared.clone());
                let first = tokio::spawn(async move {
                    let r = ask_t(&t2, Duration::from_secs(10)).await;
                    let _ = sh2;
                    r
                });
                tokio::time::sleep(Duration::from_millis(300)).await;
                shared.drive.notify_one();
                first.await.ok().flatten()
            } else {
                ask_t(&addr, Duration::from_secs(10)).await
            };
            // wait until the worker has swept again after that call and gone idle: two further readiness polls
            // with nothing happening in between (bounded; if the machine is too slow the scenario shows nothing)
            let p0 = shared.polls.load(Ordering::SeqCst);
            let t = Instant::now();
            let mut last = (p0, Instant::now());
            loop {
                tokio::time::sleep(Duration::from_millis(20)).await;
                let p = shared.polls.load(Ordering::SeqCst);
                if p != last.0 {
                    last = (p, Instant::now());
                }
                if (p > p0 && last.1.elapsed() > Duration::from_millis(150)) || t.elapsed() > Duration::from_secs(5) {
                    break;
                }
            }
            shared.set_gate(if fail { G_FAIL_ONCE } else { G_PENDING });
            tokio::time::sleep(Duration::from_millis(50)).await;
            // second connection
            let sh2 = shared.clone();
            let addr2 = addr.clone();
            let second = tokio::spawn(async move {
                let r = ask_t(&addr2, Duration::from_secs(15)).await;
                let _ = sh2;
                r
            });
            if let Some(graceful) = stop_mode {
                tokio::time::sleep(Duration::from_millis(400)).await; // accepted, dispatched, queued at the worker
                let stopped = tokio::time::timeout(Duration::from_secs(8), handle.stop(graceful)).await.is_ok();
                let _ = tokio::time::timeout(Duration::from_secs(5), srv_done).await;
                // the queued connection is closed (its client reads end-of-file / reset): 5 s, one-sided
                let (released, a2) = match tokio::time::timeout(Duration::from_secs(5), second).await {
                    Ok(r) => (true, r.ok().flatten()),
                    Err(_) => (false, None),
                };
                // … and stays unserved when the service becomes ready after the shutdown
                let before = shared.calls.lock().unwrap().len();
                shared.set_gate(G_READY);
                tokio::time::sleep(Duration::from_millis(600)).await;
                let calls = shared.calls.lock().unwrap().clone();
                let after = calls.len() - before;
                if !stopped {
                    fails.push("[C06] the stop() future did not resolve within 8 s".into());
                }
                if !released || a2.is_some() || after != 0 || before != 1 {
                    fails.push(format!(
                        "[C01,C06] a connection queued at a worker whose service was not ready when stop({graceful}) was called was not released: {} 5 s after the shutdown had completed; service calls before the stop: {before}, after it (the service became ready again): {after} — the worker was never stopped, or kept its queue",
                        if released { if a2.is_some() { "it was answered" } else { "closed" } } else { "still open" }
                    ));
                }
                let g = |x: usize| if x == G_READY { 'R' } else if x == G_PENDING { 'P' } else { 'E' };
                return format!(
                    "calls={} answers={}{} stop={} released={} called-after={}",
                    calls.iter().take(before).map(|(i, x)| format!("{i}{}", g(*x))).collect::<Vec<_>>().join(","),
                    a1.map_or('-', |b| b as char),
                    a2.map_or('-', |b| b as char),
                    if stopped { "resolved" } else { "never" },
                    released as u8,
                    after
                );
            }
            if burst > 0 {
                // `burst` more connections queue up at the worker while its service is Pending; the gate opens: all are served
                let more: Vec<_> = (0..burst)
                    .map(|_| {
                        let a = addr.clone();
                        tokio::spawn(async move { ask_t(&a, Duration::from_secs(12)).await })
                    })
                    .collect();
                tokio::time::sleep(Duration::from_millis(600)).await;
                shared.set_gate(G_READY);
                let mut got = second.await.ok().flatten().is_some() as usize;
                for t in more {
                    got += t.await.ok().flatten().is_some() as usize;
                }
                let n_calls = shared.calls.lock().unwrap().len();
                stop_bounded(&handle, srv_done).await;
                if got < burst + 1 {
                    fails.push(format!("[C07,C01] {} connections were queued at the worker while its service was Pending; the service became ready, but only {got} of them were served within 12 s ({n_calls} calls in all): a queued connection is served when its service is ready, however many are queued", burst + 1));
                }
                return format!("first={} burst={got}/{}", a1.map_or('-', |b| b as char), burst + 1);
            }
            if !fail {
                // it has to wait; 400 ms later the gate opens
                tokio::time::sleep(Duration::from_millis(400)).await;
                shared.set_gate(G_READY);
            }
            let a2 = second.await.ok().flatten();
            let calls = shared.calls.lock().unwrap().clone();
            stop_bounded(&handle, srv_done).await;
            // ---- the statement of C07 on what the service itself recorded
            for (k, (id, gate)) in calls.iter().enumerate() {
                if *gate != G_READY {
                    fails.push(format!(
                        "[C07] connection #{k} was handed to service instance {id} while its readiness was {} (no readiness poll preceded the call)",
                        if *gate == G_PENDING { "Pending" } else { "Err (the instance is broken and has not been re-created)" }
                    ));
                }
            }
            let want = if fail2 { 3 } else { 2 };
            if fail && calls.len() >= 2 && calls[1].0 != want {
                fails.push(format!("[C07] after a failed readiness check the next connection was served by instance {} instead of the re-created instance {want}", calls[1].0));
            }
            // every readiness answer a service gives is the worker's to see: an instance that answered Err — its first answer
            // included — is re-created before anything is handed to it
            let caf = shared.called_after_fail.lock().unwrap().clone();
            if !caf.is_empty() {
                fails.push(format!(
                    "[C07] a connection was handed to service instance {:?} after that instance had answered a readiness check with Err (instances that failed, in order: {:?}): a service whose readiness check fails is re-created, the failed instance is never called",
                    caf,
                    shared.failed.lock().unwrap()
                ));
            }
            if a1.is_none() || a2.is_none() {
                fails.push(format!("[C07] a connection was not served within 10-15 s although its service is ready (answers: {:?}, {:?})", a1, a2));
            }
            let g = |x: usize| match x {
                G_READY => 'R',
                G_PENDING => 'P',
                _ => 'E',
            };
            let failed_obs = if fail2 { format!(" failed={}", shared.failed.lock().unwrap().iter().map(|x| x.to_string()).collect::<Vec<_>>().join(",")) } else { String::new() };
            format!("calls={} answers={}{}{failed_obs}", calls.iter().map(|(i, x)| format!("{i}{}", g(*x))).collect::<Vec<_>>().join(","), a1.map_or('-', |b| b as char), a2.map_or('-', |b| b as char))
        });
        rt.shutdown_timeout(Duration::from_millis(200));
        if obs == "skipped" {
            return (format!("{line} skip=ports"), obs, vec![]);
        }
        (line.to_string(), obs, fails)
    }

    // ---------------------------------------------------------------------------------------------
    // `fault <name>`: two workers; the service of worker 0 panics on request (the worker dies) and is slow to
    // tear down. Connections made during the teardown must not go to the dead worker (C08 / C01): each is
    // answered by a live worker.
    // ---------------------------------------------------------------------------------------------
    struct FaultShared {
        instances: AtomicUsize,
        /// 0: nobody; KILL_ANY: whichever instance is called next; g: instance g at its next call
        kill_target: AtomicUsize,
        killed_gens: std::sync::Mutex<Vec<usize>>,
        /// instance g dies at its next `poll_ready` (0: nobody) — `ready_panics`: by a panic there; otherwise `poll_ready`
        /// answers Err and the factory's next `new_service` fails as well (the worker gives up: "Can not restart service")
        ready_target: AtomicUsize,
        ready_panics: std::sync::atomic::AtomicBool,
        fail_factory: std::sync::atomic::AtomicBool,
        /// the waker each instance saw at its last `poll_ready` (to have an idle worker polled)
        wakers: std::sync::Mutex<Vec<(usize, std::task::Waker)>>,
        /// the service of a worker killed in `call` is slow to tear down (2.5 s)
        slow_teardown: std::sync::atomic::AtomicBool,
        /// calls of the factory so far
        factory_calls: AtomicUsize,
        /// per instance: connections in progress now, and the most there were at the same time since the last reset
        active: std::sync::Mutex<Vec<(usize, usize, usize)>>,
        /// notified: the thread that runs the Server future is kept busy for 1.5 s (commands pile up in its channel)
        busy: tokio::sync::Notify,
    }

    const KILL_ANY: usize = usize::MAX;

    struct FaultySvc {
        gen: usize,
        killed: std::cell::Cell<bool>,
        shared: Arc<FaultShared>,
    }

    impl actix_service::Service<actix_rt::net::TcpStream> for FaultySvc {
        type Response = ();
        type Error = ();
        type Future = futures_core::future::LocalBoxFuture<'static, Result<(), ()>>;

        fn poll_ready(&self, cx: &mut std::task::Context<'_>) -> std::task::Poll<Result<(), ()>> {
            {
                let mut w = self.shared.wakers.lock().unwrap();
                w.retain(|x| x.0 != self.gen);
                w.push((self.gen, cx.waker().clone()));
            }
            let t = self.shared.ready_target.load(Ordering::SeqCst);
            if t == self.gen && self.shared.ready_target.compare_exchange(t, 0, Ordering::SeqCst, Ordering::SeqCst).is_ok() {
                self.shared.killed_gens.lock().unwrap().push(self.gen);
                if self.shared.ready_panics.load(Ordering::SeqCst) {
                    panic!("verif: instance {} panics in poll_ready on purpose", self.gen);
                }
                self.shared.fail_factory.store(true, Ordering::SeqCst);
                return std::task::Poll::Ready(Err(()));
            }
            std::task::Poll::Ready(Ok(()))
        }

        fn call(&self, mut stream: actix_rt::net::TcpStream) -> Self::Future {
            use tokio::io::AsyncWriteExt;
            let t = self.shared.kill_target.load(Ordering::SeqCst);
            if (t == KILL_ANY || t == self.gen) && self.shared.kill_target.compare_exchange(t, 0, Ordering::SeqCst, Ordering::SeqCst).is_ok() {
                self.killed.set(true);
                self.shared.killed_gens.lock().unwrap().push(self.gen);
                panic!("verif: killing worker instance {} on purpose", self.gen);
            }
            let gen = self.gen;
            struct Active(Arc<FaultShared>, usize);
            impl Drop for Active {
                fn drop(&mut self) {
                    if let Some(e) = self.0.active.lock().unwrap().iter_mut().find(|e| e.0 == self.1) {
                        e.1 = e.1.saturating_sub(1);
                    }
                }
            }
            {
                let mut a = self.shared.active.lock().unwrap();
                if !a.iter().any(|e| e.0 == gen) {
                    a.push((gen, 0, 0));
                }
                let e = a.iter_mut().find(|e| e.0 == gen).unwrap();
                e.1 += 1;
                e.2 = e.2.max(e.1);
            }
            let active = Active(self.shared.clone(), gen);
            Box::pin(async move {
                use tokio::io::AsyncReadExt;
                let _active = active;
                let _ = stream.write_all(&[b'0' + gen as u8]).await;
                // in progress until the client goes away
                let mut buf = [0u8; 16];
                loop {
                    match stream.read(&mut buf).await {
                        Ok(0) | Err(_) => break,
                        Ok(_) => {}
                    }
                }
                Ok(())
            })
        }
    }

    /// `shutdown_timeout` (s) of the `fault` scenarios' server
    const STOP_T: u64 = 2;

    impl Drop for FaultySvc {
        fn drop(&mut self) {
            if self.killed.get() && self.shared.slow_teardown.load(Ordering::SeqCst) {
                // slow teardown of the service of the faulted worker
                std::thread::sleep(Duration::from_millis(2500));
            }
        }
    }

    fn run_fault(line: &str) -> (String, String, Vec<String>) {
        let ws: Vec<&str> = line.split_whitespace().collect();
        // delay between the kill and the two connections made inside the teardown window (ms)
        let with_stop = match kv(&ws, "stop") {
            None => false,
            Some("1") => true,
            _ => return (line.to_string(), "bad-op".into(), vec![]),
        };
        let gap = match kv(&ws, "gap") {
            None => 150u64,
            Some(g) => match super::num(g) {
                Some(g) if g <= 1500 => g as u64,
                _ => return (line.to_string(), "bad-op".into(), vec![]),
            },
        };
        // `faults=2`: a second fault after the first replacement has rejoined; `limit=L`: max_concurrent_connections(L)
        // (a worker that dies while saturated); `workers=1`: nobody else to serve while the replacement comes up
        let faults = match kv(&ws, "faults") {
            None => 1usize,
            Some("1") => 1,
            Some("2") => 2,
            _ => return (line.to_string(), "bad-op".into(), vec![]),
        };
        let limit = match kv(&ws, "limit") {
            None => None,
            Some(l) => match super::num(l) {
                Some(l) if (1..=4).contains(&l) => Some(l),
                _ => return (line.to_string(), "bad-op".into(), vec![]),
            },
        };
        let workers = match kv(&ws, "workers") {
            None => 2usize,
            Some("1") => 1,
            Some("2") => 2,
            _ => return (line.to_string(), "bad-op".into(), vec![]),
        };
        let exact = limit.is_none() && workers == 2; // answers are deterministic only in the plain two-worker scenario
        // `pair=1`: at the end, `workers` connections opened and held at the same time (with `limit=1`: one per worker — every
        // worker, the replacements included, is in the rotation under an index of its own);
        // `dropsrv=1`: the Server future is dropped (no stop) before the fault: accept thread and workers go on, the fault is
        // reported to nobody, the discovering connection and every later one still go to the live worker
        let pair = match kv(&ws, "pair") {
            None => false,
            Some("1") => true,
            _ => return (line.to_string(), "bad-op".into(), vec![]),
        };
        let dropsrv = match kv(&ws, "dropsrv") {
            None => false,
            Some("1") => true,
            _ => return (line.to_string(), "bad-op".into(), vec![]),
        };
        // `kill=call|ready|restart`: how the (first) worker dies — its service panics in `call` (default) / panics in
        // `poll_ready` / answers Err in `poll_ready` and its factory fails to make another one (the worker gives up);
        // `busystop=1`: worker 0 dies (nobody has noticed: nothing is dispatched to it afterwards), a connection is in progress
        // on worker 1, graceful stop: it waits for worker 1 although worker 0's stop channel is dead (C06);
        // `hold=1` (workers=1 limit=1 kill=ready): the only worker dies while saturated by a connection that stays open:
        // the connections of a dead worker die with it, their release is how a saturated dead worker is found (C08)
        let kill = match kv(&ws, "kill") {
            None | Some("call") => 0u8,
            Some("ready") => 1,
            Some("restart") => 2,
            _ => return (line.to_string(), "bad-op".into(), vec![]),
        };
        let busystop = match kv(&ws, "busystop") {
            None => false,
            Some("1") => true,
            _ => return (line.to_string(), "bad-op".into(), vec![]),
        };
        let hold = match kv(&ws, "hold") {
            None => false,
            Some("1") => true,
            _ => return (line.to_string(), "bad-op".into(), vec![]),
        };
        // `sat=1` (limit=1): worker 0 saturated by a held connection (alive), worker 1 dies in `call` (its guard is released, it is
        // marked available again): the next connection finds the cursor on the saturated worker and the only available worker
        // dead — it is force-sent to the live worker, not dropped (C01)
        let sat = match kv(&ws, "sat") {
            None => false,
            Some("1") => true,
            _ => return (line.to_string(), "bad-op".into(), vec![]),
        };
        // `signals=1`: the server is built WITHOUT disable_signals() (the builder's default): the command loop listens to OS
        // signals as well and still receives the fault reports and stops;
        // `pausedrep=1` (limit=1): the replacement of a dead worker comes up while the server is paused; after resume it is in
        // the rotation (one held connection per worker)
        // `sys=1`: the server is hosted under an actix System (its workers run on Arbiters) instead of a plain Tokio runtime
        let under_system = match kv(&ws, "sys") {
            None => false,
            Some("1") => true,
            _ => return (line.to_string(), "bad-op".into(), vec![]),
        };
        let signals = match kv(&ws, "signals") {
            None => false,
            Some("1") => true,
            _ => return (line.to_string(), "bad-op".into(), vec![]),
        };
        let pausedrep = match kv(&ws, "pausedrep") {
            None => false,
            Some("1") => true,
            _ => return (line.to_string(), "bad-op".into(), vec![]),
        };
        // `facfail=1`: worker 0 dies and the factory fails when the server tries to replace it (logged; the server goes on with
        // worker 1); then worker 1 dies: it is replaced all the same and service resumes — the Server future has not ended
        let facfail = match kv(&ws, "facfail") {
            None => false,
            Some("1") => true,
            _ => return (line.to_string(), "bad-op".into(), vec![]),
        };
        if facfail && (!exact || kill != 0 || faults != 1 || with_stop || pair || dropsrv || busystop || hold || sat || pausedrep) {
            return (line.to_string(), "bad-op".into(), vec![]);
        }
        // `victim=last`: the first fault hits the worker in the last handle slot (worker 1) instead of worker 0
        let victim_last = match kv(&ws, "victim") {
            None | Some("first") => false,
            Some("last") => true,
            _ => return (line.to_string(), "bad-op".into(), vec![]),
        };
        if victim_last && (!exact || kill != 0 || faults != 1 || pair || dropsrv || busystop || hold || sat || pausedrep || facfail) {
            return (line.to_string(), "bad-op".into(), vec![]);
        }
        if pausedrep && (workers != 2 || limit != Some(1) || kill != 0 || faults != 1 || with_stop || pair || dropsrv || busystop || hold || sat) {
            return (line.to_string(), "bad-op".into(), vec![]);
        }
        if sat && (workers != 2 || limit != Some(1) || kill != 0 || faults != 1 || with_stop || pair || dropsrv || busystop || hold) {
            return (line.to_string(), "bad-op".into(), vec![]);
        }
        if (with_stop && (!exact || pair))
            || (dropsrv && (!exact || with_stop || pair || faults != 1 || kill != 0))
            || (busystop && (!exact || with_stop || pair || dropsrv || faults != 1 || kill != 0))
            || (hold && (workers != 1 || limit != Some(1) || kill != 1 || faults != 1 || with_stop || pair || dropsrv || busystop))
        {
            return (line.to_string(), "bad-op".into(), vec![]);
        }
        let rt = tokio::runtime::Builder::new_current_thread().enable_all().build().unwrap();
        let mut fails = vec![];
        let obs = rt.block_on(async {
            let shared = Arc::new(FaultShared {
                instances: AtomicUsize::new(0),
                kill_target: AtomicUsize::new(0),
                killed_gens: Default::default(),
                ready_target: AtomicUsize::new(0),
                ready_panics: std::sync::atomic::AtomicBool::new(kill == 1),
                fail_factory: std::sync::atomic::AtomicBool::new(false),
                wakers: Default::default(),
                slow_teardown: std::sync::atomic::AtomicBool::new(!busystop && !sat && !pausedrep),
                factory_calls: AtomicUsize::new(0),
                active: Default::default(),
                busy: tokio::sync::Notify::new(),
            });
            let sh = shared.clone();
            let (handle, addr, mut srv_done, drop_srv) = match host_server_droppable_sys(under_system, move || {
                let lst = std::net::TcpListener::bind("127.0.0.1:0")?;
                let addr = lst.local_addr()?;
                {
                    // (this closure runs on the runtime that will run the Server future)
                    let shb = sh.clone();
                    tokio::spawn(async move {
                        loop {
                            shb.busy.notified().await;
                            std::thread::sleep(Duration::from_millis(1500));
                        }
                    });
                }
                let mut b = actix_server::Server::build().workers(workers).shutdown_timeout(STOP_T);
                if !signals {
                    b = b.disable_signals();
                }
                if let Some(l) = limit {
                    b = b.max_concurrent_connections(l);
                }
                let srv = b
                    .listen("faulty", lst, move || {
                        let sh = sh.clone();
                        actix_service::fn_factory(move || {
                            let sh = sh.clone();
                            async move {
                                sh.factory_calls.fetch_add(1, Ordering::SeqCst);
                                if sh.fail_factory.swap(false, Ordering::SeqCst) {
                                    return Err(()); // the re-creation of a broken service fails as well
                                }
                                let gen = sh.instances.fetch_add(1, Ordering::SeqCst) + 1;
                                Ok::<_, ()>(FaultySvc { gen, killed: std::cell::Cell::new(false), shared: sh })
                            }
                        })
                    })?
                    .run();
                Ok((srv, addr))
            }) {
                Ok(x) => x,
                Err(e) => return if is_port_error(&e) { "skipped".to_string() } else { format!("setup-error {e}") },
            };
            let w = Duration::from_secs(8);
            let show = |x: Option<u8>| x.map_or('-', |b| b as char);
            let mut answers = vec![];
            // handles = [w0 (instance 1), w1 (instance 2)], round-robin from slot 0
            answers.push(ask(addr, w).await);
            answers.push(ask(addr, w).await);
            let mut drop_srv = Some(drop_srv);
            if facfail {
                std::mem::forget(drop_srv.take());
                // worker 0 dies; the restart that its discovery triggers fails
                let calls0 = shared.factory_calls.load(Ordering::SeqCst);
                shared.fail_factory.store(true, Ordering::SeqCst);
                shared.kill_target.store(1, Ordering::SeqCst);
                let mut killed = Some(b'?');
                for _ in 0..6 {
                    let r = ask(addr, Duration::from_millis(1500)).await;
                    if !shared.killed_gens.lock().unwrap().is_empty() {
                        killed = r;
                        break;
                    }
                }
                let t = Instant::now();
                let mut between = vec![];
                while shared.factory_calls.load(Ordering::SeqCst) == calls0 && t.elapsed() < Duration::from_secs(10) {
                    between.push(ask(addr, w).await);
                    tokio::time::sleep(Duration::from_millis(25)).await;
                }
                let failed = shared.factory_calls.load(Ordering::SeqCst) > calls0 && !shared.fail_factory.load(Ordering::SeqCst);
                tokio::time::sleep(Duration::from_millis(400)).await;
                // a restart that failed is no reason for the Server future to end
                let running = matches!(srv_done.try_recv(), Err(tokio::sync::oneshot::error::TryRecvError::Empty));
                if failed && !running {
                    fails.push("[C08] the Server future ended because the restart of a faulted worker failed (the factory could not make the service): a failed restart is logged, the server goes on with the workers it has and still replaces workers that die later".into());
                }
                for (k, r) in between.iter().enumerate() {
                    if r.is_none() {
                        fails.push(format!("[C08,C01] connection #{k} made after worker 0 had died was not served although worker 1 is alive"));
                    }
                }
                // then the other worker dies: replaced (instance 3), service resumes
                shared.kill_target.store(2, Ordering::SeqCst);
                let mut killed2 = Some(b'?');
                for _ in 0..6 {
                    let r = ask(addr, Duration::from_millis(1500)).await;
                    if shared.killed_gens.lock().unwrap().len() >= 2 {
                        killed2 = r;
                        break;
                    }
                }
                let t = Instant::now();
                while shared.instances.load(Ordering::SeqCst) < 3 && t.elapsed() < Duration::from_secs(10) {
                    let _ = ask(addr, Duration::from_millis(300)).await;
                    tokio::time::sleep(Duration::from_millis(25)).await;
                }
                let replaced2 = shared.instances.load(Ordering::SeqCst) >= 3;
                tokio::time::sleep(Duration::from_millis(300)).await;
                let mut later2 = vec![];
                for _ in 0..4 {
                    later2.push(ask(addr, if replaced2 { w } else { Duration::from_millis(500) }).await);
                }
                if failed && !replaced2 {
                    fails.push("[C08] worker 1 died after the restart of worker 0 had failed: it was not replaced within 10 s — every fault is followed by a restart attempt, whatever happened to earlier ones".into());
                }
                if failed && later2.iter().any(|x| x.is_none()) {
                    fails.push(format!("[C08,C01] after worker 1 had died (the earlier restart of worker 0 had failed) connections were not served any more (answers {:?}): service never resumed", later2.iter().map(|x| x.map(|b| b as char)).collect::<Vec<_>>()));
                }
                if running {
                    stop_bounded(&handle, srv_done).await;
                } else {
                    let _ = tokio::time::timeout(Duration::from_secs(2), handle.stop(false)).await;
                }
                return format!(
                    "before={}{} killed={} restart-failed={} server-running={} killed2={} replaced2={} later2-all-served={}",
                    show(answers[0]),
                    show(answers[1]),
                    show(killed),
                    failed as u8,
                    running as u8,
                    show(killed2),
                    replaced2 as u8,
                    later2.iter().all(|x| x.is_some()) as u8
                );
            }
            if pausedrep {
                std::mem::forget(drop_srv.take());
                tokio::time::sleep(Duration::from_millis(200)).await;
                // a worker dies (nobody has noticed); the thread of the Server future is busy for 1.5 s; pause() is called, then
                // a connection discovers the dead worker: the command loop finds [Pause, WorkerFaulted] and the accept loop is
                // paused when it is handed the replacement
                shared.kill_target.store(KILL_ANY, Ordering::SeqCst);
                let killed = ask(addr, Duration::from_millis(1500)).await;
                tokio::time::sleep(Duration::from_millis(100)).await;
                let calls0 = shared.factory_calls.load(Ordering::SeqCst);
                shared.busy.notify_one();
                tokio::time::sleep(Duration::from_millis(100)).await;
                let t_pause = Instant::now();
                let pause_fut = handle.pause(); // the command is sent by the call
                for _ in 0..3 {
                    let _ = ask(addr, Duration::from_millis(300)).await;
                }
                let in_time = t_pause.elapsed() < Duration::from_millis(1200);
                let paused = tokio::time::timeout(Duration::from_secs(8), pause_fut).await.is_ok();
                let t = Instant::now();
                while shared.instances.load(Ordering::SeqCst) < 3 && t.elapsed() < Duration::from_secs(10) {
                    tokio::time::sleep(Duration::from_millis(25)).await;
                }
                let started = shared.factory_calls.load(Ordering::SeqCst) > calls0;
                let replaced = shared.instances.load(Ordering::SeqCst) >= 3;
                tokio::time::sleep(Duration::from_millis(400)).await; // the accept loop has been handed the new worker, paused
                let resumed = tokio::time::timeout(Duration::from_secs(5), handle.resume()).await.is_ok();
                tokio::time::sleep(Duration::from_millis(300)).await;
                // one connection per worker, held at the same time (limit 1): the replacement takes one
                let tasks: Vec<_> = (0..2)
                    .map(|_| {
                        tokio::spawn(async move {
                            use tokio::io::AsyncReadExt;
                            let mut c = tokio::net::TcpStream::connect(addr).await.ok()?;
                            let _ = socket2::SockRef::from(&c).set_linger(Some(Duration::ZERO));
                            let mut b = [0u8; 1];
                            match tokio::time::timeout(w, c.read_exact(&mut b)).await {
                                Ok(Ok(_)) => Some((c, b[0])),
                                _ => None,
                            }
                        })
                    })
                    .collect();
                let mut heldc = vec![];
                for t in tasks {
                    if let Ok(Some(x)) = t.await {
                        heldc.push(x);
                    }
                }
                if started && paused && resumed && replaced && heldc.len() < 2 {
                    fails.push(format!(
                        "[C08,C03] the replacement of a dead worker came up while the server was paused{}; after resume only {} of 2 connections opened at the same time were answered within 8 s (by instance(s) {:?}; every worker may hold 1): the replacement never rejoined the rotation",
                        if in_time { "" } else { " (the machine was slow: the pause may have come late)" },
                        heldc.len(),
                        heldc.iter().map(|x| x.1 as char).collect::<Vec<_>>()
                    ));
                }
                let n = heldc.len();
                drop(heldc);
                stop_bounded(&handle, srv_done).await;
                return format!("killed={} replaced={} paused={} resumed={} pair={n}/2", show(killed), replaced as u8, paused as u8, resumed as u8);
            }
            if sat {
                std::mem::forget(drop_srv.take());
                use tokio::io::AsyncReadExt;
                tokio::time::sleep(Duration::from_millis(200)).await; // the two connections above are gone, both workers free
                // c1: held (saturates the worker that takes it)
                let mut heldc: Option<(tokio::net::TcpStream, u8)> = None;
                if let Ok(mut c) = tokio::net::TcpStream::connect(addr).await {
                    let _ = socket2::SockRef::from(&c).set_linger(Some(Duration::ZERO));
                    let mut b = [0u8; 1];
                    if let Ok(Ok(_)) = tokio::time::timeout(w, c.read_exact(&mut b)).await {
                        heldc = Some((c, b[0]));
                    }
                }
                tokio::time::sleep(Duration::from_millis(150)).await;
                // c2: goes to the other worker, whose service panics in `call`
                shared.kill_target.store(KILL_ANY, Ordering::SeqCst);
                let killed = ask(addr, Duration::from_millis(1500)).await;
                let died = shared.killed_gens.lock().unwrap().clone();
                tokio::time::sleep(Duration::from_millis(300)).await;
                // c3: must reach a service (the saturated live worker takes it)
                let c3 = ask(addr, w).await;
                let live = heldc.as_ref().map(|x| x.1 as char);
                if heldc.is_some() && !died.is_empty() && c3.is_none() {
                    fails.push(format!(
                        "[C01,C08] a connection accepted while worker (instance {:?}) was saturated but alive and the only worker marked available (instance {:?}) had died was closed without reaching a service: it has to be handed to the live worker (max_concurrent_connections 1, 2 workers)",
                        live, died
                    ));
                }
                drop(heldc);
                stop_bounded(&handle, srv_done).await;
                return format!("held={} killed={} next-served={}", live.is_some() as u8, show(killed), c3.is_some() as u8);
            }
            if hold {
                // ---- one worker, limit 1: the first connection above is gone; hold one (the worker is saturated), then the
                // service panics in poll_ready (the worker is polled through the waker its service saw)
                std::mem::forget(drop_srv.take());
                use tokio::io::AsyncReadExt;
                let mut heldc: Option<(tokio::net::TcpStream, u8)> = None;
                if let Ok(mut c) = tokio::net::TcpStream::connect(addr).await {
                    let _ = socket2::SockRef::from(&c).set_linger(Some(Duration::ZERO));
                    let mut b = [0u8; 1];
                    if let Ok(Ok(_)) = tokio::time::timeout(w, c.read_exact(&mut b)).await {
                        heldc = Some((c, b[0]));
                    }
                }
                let inst = heldc.as_ref().map_or(0usize, |x| (x.1 - b'0') as usize);
                tokio::time::sleep(Duration::from_millis(150)).await;
                shared.ready_target.store(inst, Ordering::SeqCst);
                for (g, wk) in shared.wakers.lock().unwrap().iter() {
                    if *g == inst {
                        wk.wake_by_ref();
                    }
                }
                let t = Instant::now();
                while shared.killed_gens.lock().unwrap().is_empty() && t.elapsed() < Duration::from_secs(5) {
                    tokio::time::sleep(Duration::from_millis(20)).await;
                }
                let died = !shared.killed_gens.lock().unwrap().is_empty();
                // the next client must be greeted by a new instance while the first one still holds its connection
                // (with a single worker the connection whose dispatch discovers the fault has nowhere to go: keep asking)
                let t = Instant::now();
                let mut next = None;
                while t.elapsed() < Duration::from_secs(12) {
                    next = ask(addr, Duration::from_millis(1500)).await;
                    if matches!(next, Some(b) if (b - b'0') as usize > inst) {
                        break;
                    }
                    tokio::time::sleep(Duration::from_millis(50)).await;
                }
                let replaced = shared.instances.load(Ordering::SeqCst) >= 2;
                let served = matches!(next, Some(b) if (b - b'0') as usize > inst);
                if died && !served {
                    fails.push(format!(
                        "[C08,C03] the only worker died (panic in poll_ready) while it was saturated by a connection that its client keeps open (max_concurrent_connections 1): within 12 s no later connection was served by a replacement (last answer: {:?}, factory instantiations: {}): the dead worker was never found — its connections must die with it, their release is what gets a saturated dead worker discovered",
                        next.map(|b| b as char),
                        shared.instances.load(Ordering::SeqCst)
                    ));
                }
                drop(heldc);
                stop_bounded(&handle, srv_done).await;
                return format!("held={} died={} next-served={} replaced={}", (inst > 0) as u8, died as u8, served as u8, replaced as u8);
            }
            if busystop {
                // ---- worker 0 dies, nobody notices; a connection in progress on worker 1; graceful stop
                std::mem::forget(drop_srv.take());
                use tokio::io::AsyncReadExt;
                shared.kill_target.store(KILL_ANY, Ordering::SeqCst);
                let killed = ask(addr, Duration::from_millis(1500)).await;
                tokio::time::sleep(Duration::from_millis(150)).await;
                let mut heldc: Option<(tokio::net::TcpStream, u8)> = None;
                if let Ok(mut c) = tokio::net::TcpStream::connect(addr).await {
                    let _ = socket2::SockRef::from(&c).set_linger(Some(Duration::ZERO));
                    let mut b = [0u8; 1];
                    if let Ok(Ok(_)) = tokio::time::timeout(w, c.read_exact(&mut b)).await {
                        heldc = Some((c, b[0]));
                    }
                }
                let Some((mut c, inst)) = heldc else {
                    stop_bounded(&handle, srv_done).await;
                    return format!("before={}{} killed={} held=-", show(answers[0]), show(answers[1]), show(killed));
                };
                tokio::time::sleep(Duration::from_millis(100)).await; // W1: let the accept thread count it
                const HOLD_MS: u64 = 1500;
                let t0 = Instant::now();
                let stop_fut = handle.stop(true);
                let watch = async {
                    // Some(ms): the server closed the connection at ms; None: the client let go at HOLD_MS
                    let release = tokio::time::sleep_until((t0 + Duration::from_millis(HOLD_MS)).into());
                    tokio::pin!(release);
                    let mut b = [0u8; 8];
                    loop {
                        tokio::select! {
                            _ = &mut release => return None,
                            r = c.read(&mut b) => match r {
                                Ok(0) | Err(_) => return Some(t0.elapsed().as_millis()),
                                Ok(_) => {}
                            }
                        }
                    }
                };
                let cap = Duration::from_millis(STOP_T * 1000 + 7000);
                let (t_stop, t_closed) = tokio::join!(async { tokio::time::timeout(cap, stop_fut).await.ok().map(|_| t0.elapsed().as_millis()) }, watch);
                let need = (HOLD_MS as u128).min(STOP_T as u128 * 1000);
                let mut early = false;
                match t_stop {
                    Some(ms) if ms + 60 < need => {
                        early = true;
                        fails.push(format!("[C06,C08] graceful stop completed after {ms} ms while a connection was still in progress on the live worker 1 (instance {}, held by its client until {HOLD_MS} ms; shutdown_timeout {} ms): worker 0 had died by a panic and was not yet replaced — a dead worker's stop channel answers at once, the stop must still wait for the others", inst as char, STOP_T * 1000));
                    }
                    Some(_) => {}
                    None => fails.push("[C06] the stop() future did not resolve within its bound + 5 s".into()),
                }
                if let Some(ms) = t_closed {
                    if ms + 60 < need {
                        early = true;
                        fails.push(format!("[C06,C08] the connection in progress on the live worker 1 was closed by the server {ms} ms into a graceful shutdown (shutdown_timeout {} ms) — worker 0 had died and was not yet replaced", STOP_T * 1000));
                    }
                }
                let _ = tokio::time::timeout(Duration::from_secs(5), &mut srv_done).await;
                return format!(
                    "before={}{} killed={} held={} stop={} early={}",
                    show(answers[0]),
                    show(answers[1]),
                    show(killed),
                    inst as char,
                    if t_stop.is_some() { "resolved" } else { "never" },
                    early as u8
                );
            }
            if dropsrv {
                // ---- the Server future goes away without a stop; then worker 0 dies; everything later belongs to worker 1
                let _ = drop_srv.take().unwrap().send(());
                let _ = tokio::time::timeout(Duration::from_secs(5), &mut srv_done).await; // Err: dropped
                tokio::time::sleep(Duration::from_millis(100)).await;
                shared.kill_target.store(KILL_ANY, Ordering::SeqCst);
                let killed = ask(addr, Duration::from_millis(1500)).await;
                tokio::time::sleep(Duration::from_millis(gap)).await;
                let mut later: Vec<Result<Option<u8>, std::io::ErrorKind>> = vec![];
                for _ in 0..6 {
                    later.push(match tokio::net::TcpStream::connect(addr).await {
                        Err(e) => Err(e.kind()),
                        Ok(mut c) => {
                            use tokio::io::AsyncReadExt;
                            let _ = socket2::SockRef::from(&c).set_linger(Some(Duration::ZERO));
                            let mut b = [0u8; 1];
                            match tokio::time::timeout(w, c.read_exact(&mut b)).await {
                                Ok(Ok(_)) => Ok(Some(b[0])),
                                _ => Ok(None),
                            }
                        }
                    });
                    tokio::time::sleep(Duration::from_millis(30)).await;
                }
                for (k, r) in later.iter().enumerate() {
                    match r {
                        Ok(Some(_)) => {}
                        Ok(None) => fails.push(format!("[C08,C01] connection #{k} made after worker 0 died (the Server future had been dropped, accept thread and worker 1 are alive) was closed without an answer: it was not re-routed to the live worker")),
                        Err(e) => fails.push(format!("[C08] connection #{k} made after worker 0 died (the Server future had been dropped) could not even connect ({e:?}): the accept thread is gone — it must survive a worker fault that it can report to nobody")),
                    }
                }
                // nobody to stop this server through: the process (a child of the harness) ends with the scenario
                return format!(
                    "before={}{} dropped=1 killed={} later-all-served={}",
                    show(answers[0]),
                    show(answers[1]),
                    show(killed),
                    later.iter().all(|x| matches!(x, Ok(Some(_)))) as u8
                );
            }
            std::mem::forget(drop_srv.take());
            // kill w0 (its turn): the killing connection gets no answer
            if victim_last {
                // the worker in the LAST handle slot (instance 2) dies: the connection before goes to worker 0, the killing one
                // to worker 1 — the cursor is on the last slot when the dead worker is discovered
                shared.kill_target.store(2, Ordering::SeqCst);
                let _ = ask(addr, w).await;
            } else if kill == 0 {
                shared.kill_target.store(KILL_ANY, Ordering::SeqCst);
            } else {
                // the worker whose turn it is: instance 1 (worker 0) — the connection wakes it, it asks its service first
                shared.ready_target.store(1, Ordering::SeqCst);
            }
            let killed = ask(addr, Duration::from_millis(1500)).await;
            let t_kill = Instant::now();
            tokio::time::sleep(Duration::from_millis(gap)).await;
            // two connections inside the teardown window: one for w1's slot, one for the dead w0's slot
            let r1 = ask(addr, w).await;
            let in_window = t_kill.elapsed() < Duration::from_millis(2000);
            let r2 = ask(addr, w).await;
            // the replacement comes up and rejoins the rotation
            let t = Instant::now();
            while shared.instances.load(Ordering::SeqCst) < workers + 1 && t.elapsed() < Duration::from_secs(12) {
                tokio::time::sleep(Duration::from_millis(25)).await;
                if !exact {
                    // nothing discovers a fault but a dispatch to the dead worker: keep some traffic going
                    let _ = ask(addr, Duration::from_millis(300)).await;
                }
            }
            let replaced = shared.instances.load(Ordering::SeqCst) >= workers + 1;
            tokio::time::sleep(Duration::from_millis(300)).await;
            let mut later = vec![];
            for _ in 0..4 {
                later.push(ask(addr, w).await);
            }
            // `faults=2`: the same again — a worker dies, is replaced, and connections are answered afterwards
            let mut second_obs = String::new();
            if faults == 2 {
                // two workers: the second fault hits the OTHER worker (the original instance that is still alive)
                let already = shared.killed_gens.lock().unwrap().clone();
                let target = if workers == 2 { (1..=2usize).find(|g| !already.contains(g)).unwrap_or(KILL_ANY) } else { KILL_ANY };
                shared.kill_target.store(target, Ordering::SeqCst);
                let mut killed2 = Some(b'?');
                for _ in 0..40 {
                    let r = ask(addr, Duration::from_millis(1500)).await;
                    if shared.killed_gens.lock().unwrap().len() > already.len() {
                        killed2 = r;
                        break;
                    }
                    tokio::time::sleep(Duration::from_millis(25)).await;
                }
                tokio::time::sleep(Duration::from_millis(gap)).await;
                let t = Instant::now();
                while shared.instances.load(Ordering::SeqCst) < workers + 2 && t.elapsed() < Duration::from_secs(10) {
                    let _ = ask(addr, Duration::from_millis(300)).await;
                    tokio::time::sleep(Duration::from_millis(25)).await;
                }
                let replaced2 = shared.instances.load(Ordering::SeqCst) >= workers + 2;
                tokio::time::sleep(Duration::from_millis(300)).await;
                let mut later2 = vec![];
                for _ in 0..4 {
                    later2.push(ask(addr, w).await);
                }
                if !replaced2 {
                    fails.push("[C08] after a second fault the faulted worker was not replaced by a worker with services within 10 s".into());
                }
                for (k, r) in later2.iter().enumerate() {
                    if r.is_none() {
                        fails.push(format!("[C08,C01] connection #{k} made after the second fault's replacement period was not served (a worker without services panics on every connection)"));
                    }
                }
                second_obs = format!(" killed2={} replaced2={} later2-all-served={}", killed2.map_or('-', |b| b as char), replaced2 as u8, later2.iter().all(|x| x.is_some()) as u8);
            }
            // `pair=1`: as many connections as workers, opened and held at the same time
            let mut pair_obs = String::new();
            if pair {
                tokio::time::sleep(Duration::from_millis(400)).await;
                for e in shared.active.lock().unwrap().iter_mut() {
                    e.2 = e.1;
                }
                // with a limit: two more than all the workers together may hold — the surplus waits, no worker takes more
                // than its limit (a replacement worker serves with the configuration of the server, like the one it replaces)
                let n_conn = limit.map_or(workers, |l| workers * l + 2);
                let answered = Arc::new(AtomicUsize::new(0));
                let tasks: Vec<_> = (0..n_conn)
                    .map(|_| {
                        let answered = answered.clone();
                        tokio::spawn(async move {
                            use tokio::io::AsyncReadExt;
                            let mut c = tokio::net::TcpStream::connect(addr).await.ok()?;
                            let _ = socket2::SockRef::from(&c).set_linger(Some(Duration::ZERO));
                            let mut b = [0u8; 1];
                            match tokio::time::timeout(w, c.read_exact(&mut b)).await {
                                Ok(Ok(_)) => {
                                    answered.fetch_add(1, Ordering::SeqCst);
                                    // held until the scenario lets go
                                    let mut rest = [0u8; 8];
                                    let _ = c.read(&mut rest).await;
                                    Some(b[0])
                                }
                                _ => None,
                            }
                        })
                    })
                    .collect();
                let t = Instant::now();
                while answered.load(Ordering::SeqCst) < workers && t.elapsed() < w {
                    tokio::time::sleep(Duration::from_millis(25)).await;
                }
                tokio::time::sleep(Duration::from_millis(700)).await; // time for a worker to take more than it may
                let got = answered.load(Ordering::SeqCst);
                let peaks: Vec<(usize, usize)> = shared.active.lock().unwrap().iter().map(|e| (e.0, e.2)).collect();
                for t in &tasks {
                    t.abort(); // the clients go away
                }
                if got < workers {
                    fails.push(format!(
                        "[C08,C03,C04,C02] after {faults} worker(s) had died and been replaced, only {got} of {workers} connections opened at the same time were answered within 8 s{}: a replacement is not in the rotation under an index of its own (an idle worker is skipped while connections wait)",
                        limit.map_or(String::new(), |l| format!("; every worker may hold {l}")),
                    ));
                }
                let mut peak_obs = String::new();
                if let Some(l) = limit {
                    let peak = peaks.iter().map(|p| p.1).max().unwrap_or(0);
                    for (g, p) in &peaks {
                        if *p > l {
                            fails.push(format!(
                                "[C08,C02] service instance {g}{} had {p} connections in progress at the same time although max_concurrent_connections is {l}: a replacement worker serves with the configuration of the server, like the worker it replaces",
                                if *g > workers { " (a replacement worker)" } else { "" }
                            ));
                        }
                    }
                    peak_obs = format!(" peak={peak}");
                }
                pair_obs = format!(" pair={}/{workers}{peak_obs}", got.min(workers));
                tokio::time::sleep(Duration::from_millis(150)).await;
            }
            // `stop=1`: a connection is held open on the REPLACEMENT worker, then a graceful stop: it has to wait for it
            let mut stop_obs = String::new();
            let mut stop_fails: Vec<String> = vec![];
            if with_stop && replaced {
                use tokio::io::AsyncReadExt;
                let mut held: Option<(tokio::net::TcpStream, u8)> = None;
                for _ in 0..6 {
                    if let Ok(mut c) = tokio::net::TcpStream::connect(addr).await {
                        let _ = socket2::SockRef::from(&c).set_linger(Some(Duration::ZERO));
                        let mut b = [0u8; 1];
                        if let Ok(Ok(_)) = tokio::time::timeout(w, c.read_exact(&mut b)).await {
                            if b[0] >= b'3' {
                                held = Some((c, b[0]));
                                break;
                            }
                        }
                    }
                }
                match held {
                    None => stop_obs = " stop=no-replacement-connection".into(),
                    Some((mut c, inst)) => {
                        tokio::time::sleep(Duration::from_millis(100)).await; // W1: let the accept thread count it
                        let t0 = Instant::now();
                        let stop_fut = handle.stop(true);
                        let watch = async {
                            let mut b = [0u8; 8];
                            loop {
                                match c.read(&mut b).await {
                                    Ok(0) | Err(_) => return t0.elapsed().as_millis(),
                                    Ok(_) => {}
                                }
                            }
                        };
                        let cap = Duration::from_millis(STOP_T * 1000 + 7000);
                        let (t_stop, t_closed) = tokio::join!(
                            async { tokio::time::timeout(cap, stop_fut).await.ok().map(|_| t0.elapsed().as_millis()) },
                            async { tokio::time::timeout(cap, watch).await.ok() }
                        );
                        let need = STOP_T as u128 * 1000;
                        let mut early = false;
                        if let Some(ms) = t_stop {
                            if ms + 60 < need {
                                early = true;
                                stop_fails.push(format!("[C06,C08] after worker 0 was replaced, a graceful stop completed after {ms} ms although a connection was in progress on the replacement worker (instance {}) and shutdown_timeout is {need} ms: the server did not wait for the replacement worker", inst as char));
                            }
                        } else {
                            stop_fails.push(format!("[C06,C08] the stop() future did not resolve within its bound + 5 s: a graceful stop waits for the connection on the replacement worker no longer than the configured shutdown_timeout ({} ms) — a replacement worker has the configuration of the server", STOP_T * 1000));
                        }
                        if let Some(ms) = t_closed {
                            if ms + 60 < need {
                                early = true;
                                stop_fails.push(format!("[C06,C08] the connection in progress on the replacement worker was closed by the server {ms} ms into a graceful shutdown (shutdown_timeout {need} ms)"));
                            }
                        }
                        stop_obs = format!(" stop={} early={}", if t_stop.is_some() { "resolved" } else { "never" }, early as u8);
                        let _ = tokio::time::timeout(Duration::from_secs(5), &mut srv_done).await;
                    }
                }
            } else if with_stop {
                stop_obs = " stop=no-replacement".into();
            }
            if !with_stop {
                stop_bounded(&handle, srv_done).await;
            }
            fails.extend(stop_fails);
            // ---- C08 / C01: a connection accepted after the fault is served by a live worker
            for (k, r) in [r1, r2].iter().enumerate() {
                if r.is_none() && exact {
                    fails.push(format!(
                        "[C08,C01] connection #{k} made after worker 0 died (while its service was being torn down{}) was closed without an answer although worker 1 is alive: it was dispatched to the dead worker instead of being re-routed",
                        if in_window { "" } else { "; the machine was slow, the window had passed" }
                    ));
                }
            }
            for (k, r) in later.iter().enumerate() {
                if r.is_none() {
                    fails.push(format!("[C08,C01] connection #{k} made after the replacement came up was not served"));
                }
            }
            if !replaced {
                fails.push(format!("[C08{}] the faulted worker was not replaced within 12 s (its fault was never discovered: nothing is dispatched to it any more)", if limit.is_some() { ",C03" } else { "" }));
            }
            if exact {
                format!(
                    "before={}{} killed={} window={}{} replaced={} later-all-served={}{second_obs}{pair_obs}{stop_obs}",
                    show(answers[0]),
                    show(answers[1]),
                    show(killed),
                    show(r1),
                    show(r2),
                    replaced as u8,
                    later.iter().all(|x| x.is_some()) as u8
                )
            } else {
                // which worker takes which connection depends on timing here: only what the property fixes is shown
                format!(
                    "before={}/2 killed={} replaced={} later-all-served={}{second_obs}{pair_obs}",
                    answers.iter().filter(|x| x.is_some()).count(),
                    show(killed),
                    replaced as u8,
                    later.iter().all(|x| x.is_some()) as u8
                )
            }
        });
        rt.shutdown_timeout(Duration::from_millis(200));
        if obs == "skipped" {
            return (format!("{line} skip=ports"), obs, vec![]);
        }
        (line.to_string(), obs, fails)
    }

    /// one real-server scenario in this process (the hidden sub-command `scnchild <line>`): the result goes to stdout as one line,
    /// fields separated by U+001F: `R`, rewritten op, observation, oracle failures …
    pub fn scnchild(line: &str) {
        let l = line.to_string();
        let l2 = l.clone();
        let r = std::panic::catch_unwind(move || match l.split_whitespace().next() {
            Some("gate") => run_gate(&l),
            Some("fault") => run_fault(&l),
            _ => run_srv(&l),
        })
        .unwrap_or_else(|_| (l2, "panic".to_string(), vec!["the server-level scenario panicked".to_string()]));
        let clean = |x: &str| x.replace(['\u{1f}', '\n', '\r'], " ");
        let mut out = format!("R\u{1f}{}\u{1f}{}", clean(&r.0), clean(&r.1));
        for f in &r.2 {
            out.push('\u{1f}');
            out.push_str(&clean(f));
        }
        use std::io::Write;
        let so = std::io::stdout();
        let mut so = so.lock();
        let _ = writeln!(so, "{out}");
        let _ = so.flush();
    }

    /// wall-clock cap for one scenario in a child process (the slowest ones take well under a minute, also on a loaded machine)
    const CHILD_CAP: Duration = Duration::from_secs(420);

    /// run one `srv` / `gate` / `fault` line in a child process, so that the death of the whole process (a panic while unwinding
    /// aborts, a signal) is an observed outcome of the scenario instead of the end of this harness
    fn run_in_child(line: &str) -> (String, String, Vec<String>) {
        use std::io::Read;
        use std::os::unix::process::ExitStatusExt;
        use std::process::{Command, Stdio};
        let kind = line.split_whitespace().next().unwrap_or("");
        let tags = match kind {
            "fault" => "[C08,C01] ",
            "gate" => "[C07] ",
            _ => "[C06] ",
        };
        let exe = match std::env::current_exe() {
            Ok(e) => e,
            Err(_) => return (line.to_string(), "bad-op".into(), vec![]),
        };
        let mut child = {
            let mut tries = 0;
            loop {
                match Command::new(&exe).args(["scnchild", line]).stdin(Stdio::null()).stdout(Stdio::piped()).stderr(Stdio::null()).spawn() {
                    Ok(c) => break c,
                    Err(_) if tries < 40 => {
                        tries += 1; // out of processes / memory for a moment
                        std::thread::sleep(Duration::from_millis(250));
                    }
                    Err(_) => return (format!("{line} skip=ports"), "skipped".into(), vec![]),
                }
            }
        };
        let mut so = child.stdout.take().unwrap();
        let reader = std::thread::spawn(move || {
            let mut s = String::new();
            let _ = so.read_to_string(&mut s);
            s
        });
        let t0 = Instant::now();
        let status = loop {
            match child.try_wait() {
                Ok(Some(st)) => break Some(st),
                Ok(None) if t0.elapsed() < CHILD_CAP => std::thread::sleep(Duration::from_millis(20)),
                _ => {
                    let _ = child.kill();
                    let _ = child.wait();
                    break None;
                }
            }
        };
        let text = reader.join().unwrap_or_default();
        let result = text.lines().find_map(|l| {
            let mut f = l.split('\u{1f}');
            if f.next() != Some("R") {
                return None;
            }
            let op = f.next()?.to_string();
            let obs = f.next()?.to_string();
            Some((op, obs, f.map(|x| x.to_string()).collect::<Vec<_>>()))
        });
        match status {
            None => (
                line.to_string(),
                "hung".into(),
                vec![format!("{tags}the server process did not finish the scenario within {} s and had to be killed{}", CHILD_CAP.as_secs(), match &result {
                    Some((_, o, _)) => format!(" (the scenario itself had ended: {o})"),
                    None => String::new(),
                })],
            ),
            Some(st) => match (st.signal(), result) {
                (Some(sig), res) => {
                    let what = if kind == "fault" {
                        "when a worker died by panic on a plain Tokio runtime (no actix System, no Arbiter)"
                    } else {
                        "during the scenario"
                    };
                    let seen = match &res {
                        Some((_, o, _)) => format!("the scenario had been judged ({o}) and the process died while it wound the server down"),
                        None => "nothing was reported: every connection the process held was lost with it, the other workers and the accept thread included".to_string(),
                    };
                    let mut fails = vec![format!(
                        "{tags}the server process aborted (signal {sig}{}) {what}: {seen}; the death of one worker must stay the death of one worker",
                        match sig {
                            6 => ", SIGABRT",
                            11 => ", SIGSEGV",
                            4 => ", SIGILL",
                            7 => ", SIGBUS",
                            _ => "",
                        }
                    )];
                    if let Some((_, _, f)) = res {
                        fails.extend(f);
                    }
                    (line.to_string(), "aborted".into(), fails)
                }
                (None, Some(r)) => r,
                (None, None) => (
                    line.to_string(),
                    "panic".into(),
                    vec![format!("{tags}the server process ended (exit code {:?}) without reporting on the scenario", st.code())],
                ),
            },
        }
    }

    /// run every `srv …` / `sig …` / `gate …` / `fault …` line concurrently; result per line: (op, observation, oracle failures).
    /// `srv`, `gate` and `fault` host a real Server: each runs in a process of its own (`sig` starts its own server process)
    pub fn run_jobs(lines: &[String]) -> Vec<(String, String, Vec<String>)> {
        let mut out = vec![];
        for batch in lines.chunks(12) {
            let handles: Vec<_> = batch
                .iter()
                .cloned()
                .map(|l| {
                    std::thread::spawn(move || {
                        let l2 = l.clone();
                        let r = std::panic::catch_unwind(move || match l.split_whitespace().next() {
                            Some("sig") => run_sig(&l),
                            _ => run_in_child(&l),
                        });
                        r.unwrap_or_else(|_| (l2, "panic".to_string(), vec!["the server-level scenario panicked".to_string()]))
                    })
                })
                .collect();
            out.extend(handles.into_iter().map(|h| h.join().unwrap_or_else(|_| (String::new(), "panic".to_string(), vec![]))));
        }
        out
    }
}

// ------------------------------------------------------------------------------------------------
// generators
// ------------------------------------------------------------------------------------------------
mod gen {
    use super::*;

    const ALPH: [char; 3] = ['R', 'P', 'E'];

    /// all scripts over {R,P,E} of length <= max (shortest first)
    fn scripts(max: usize) -> Vec<String> {
        let mut out = vec![String::new()];
        let mut last = vec![String::new()];
        for _ in 0..max {
            let mut next = vec![];
            for s in &last {
                for c in ALPH {
                    next.push(format!("{s}{c}"));
                }
            }
            out.extend(next.iter().cloned());
            last = next;
        }
        out
    }

    fn sc(s: &str) -> String {
        if s.is_empty() { ".".into() } else { s.into() }
    }

    /// `s<i>=…` spec: initial script + one future incarnation per `E` that can be reached (+1 spare)
    fn svc_spec(rng: &mut Rng, script: &str, rich: bool) -> String {
        let mut t = sc(script);
        let fails = script.matches('E').count().min(1) + if rich { rng.below(2) } else { 0 };
        let mut more = fails;
        while more > 0 {
            more -= 1;
            let fpend = *rng.pick(&[0usize, 0, 1, 2]);
            let ok = !rng.chance(1, 12);
            let sub = *rng.pick(&["", "", "R", "P", "PR", "E", "RE", "RP"]);
            if sub.contains('E') && more == 0 && rng.chance(1, 2) {
                more += 1;
            }
            t.push_str(&format!("/{fpend}{}{}", if ok { '+' } else { '-' }, sc(sub)));
        }
        t
    }

    fn closing(w: &mut dyn Write, polls: usize) {
        for _ in 0..polls {
            writeln!(w, "poll").unwrap();
        }
    }

    /// C07 exhaustive part: every tuple of scripts, a fixed arrival pattern chosen by `pat`
    fn c07_exhaustive(w: &mut dyn Write, rng: &mut Rng, n: usize, maxlen: usize, tag: &str) {
        let ss = scripts(maxlen);
        let mut idx = vec![0usize; n];
        let mut count = 0u64;
        loop {
            let specs: Vec<String> = (0..n).map(|i| format!("s{i}={}", svc_spec(rng, &ss[idx[i]], false))).collect();
            writeln!(w, "case {tag}{count} n={n} timeout=1000 {}", specs.join(" ")).unwrap();
            // arrivals: two connections before the first poll, one between polls, one late
            let toks: Vec<usize> = (0..4).map(|_| rng.below(n)).collect();
            writeln!(w, "conn {}", toks[0]).unwrap();
            if rng.chance(2, 3) {
                writeln!(w, "conn {}", toks[1]).unwrap();
            }
            writeln!(w, "poll").unwrap();
            writeln!(w, "conn {}", toks[2]).unwrap();
            writeln!(w, "poll").unwrap();
            writeln!(w, "poll").unwrap();
            if rng.chance(1, 2) {
                writeln!(w, "conn {}", toks[3]).unwrap();
            }
            closing(w, 2 * maxlen + 4);
            count += 1;
            // next tuple
            let mut k = 0;
            loop {
                if k == n {
                    return;
                }
                idx[k] += 1;
                if idx[k] < ss.len() {
                    break;
                }
                idx[k] = 0;
                k += 1;
            }
        }
    }

    /// C07 thorough: all arrival orders (token sequences) of <= 3 connections x arrival slots, scripts <= 2
    fn c07_arrivals(w: &mut dyn Write, rng: &mut Rng, n: usize, maxlen: usize) {
        let ss = scripts(maxlen);
        let mut count = 0u64;
        let mut idx = vec![0usize; n];
        loop {
            for k in 0..=3usize {
                // token sequences of length k, slots in 0..3 (before poll #slot), nondecreasing slots
                let ntok = n.pow(k as u32);
                for tcode in 0..ntok {
                    let nslot = 3usize.pow(k as u32);
                    for scode in 0..nslot {
                        let mut slots = vec![];
                        let mut x = scode;
                        for _ in 0..k {
                            slots.push(x % 3);
                            x /= 3;
                        }
                        if slots.windows(2).any(|p| p[0] > p[1]) {
                            continue;
                        }
                        let mut toks = vec![];
                        let mut y = tcode;
                        for _ in 0..k {
                            toks.push(y % n);
                            y /= n;
                        }
                        let specs: Vec<String> = (0..n).map(|i| format!("s{i}={}", svc_spec(rng, &ss[idx[i]], false))).collect();
                        writeln!(w, "case a{n}_{count} n={n} timeout=1000 {}", specs.join(" ")).unwrap();
                        for p in 0..3 {
                            for j in 0..k {
                                if slots[j] == p {
                                    writeln!(w, "conn {}", toks[j]).unwrap();
                                }
                            }
                            writeln!(w, "poll").unwrap();
                        }
                        closing(w, 2 * maxlen + 3);
                        count += 1;
                    }
                }
            }
            let mut k = 0;
            loop {
                if k == n {
                    return;
                }
                idx[k] += 1;
                if idx[k] < ss.len() {
                    break;
                }
                idx[k] = 0;
                k += 1;
            }
        }
    }

    fn rand_script(rng: &mut Rng, max: usize) -> String {
        let l = rng.below(max + 1);
        let bias = rng.below(3);
        (0..l)
            .map(|_| match (bias, rng.below(10)) {
                (0, 0..=5) | (1, 0..=2) | (2, 0..=3) => 'R',
                (0, 6..=8) | (1, 3..=7) | (2, 4..=6) => 'P',
                _ => 'E',
            })
            .collect()
    }

    /// seeded random histories over the whole op alphabet (both properties)
    fn random_case(w: &mut dyn Write, rng: &mut Rng, name: &str, prop: &str, nmin: usize, nmax: usize, limit: Option<usize>) {
        let n = rng.range(nmin, nmax);
        let timeout = *rng.pick(&[0usize, 500, 1000, 1500, 2000, 3000]);
        let specs: Vec<String> = (0..n)
            .map(|i| {
                let s = rand_script(rng, 5);
                format!("s{i}={}", svc_spec(rng, &s, true))
            })
            .collect();
        let lim = limit.map_or(String::new(), |l| format!(" limit={l}"));
        writeln!(w, "case {name} n={n} timeout={timeout}{lim} {}", specs.join(" ")).unwrap();
        let stops = prop == "C06" || rng.chance(1, 5);
        let len = rng.range(6, 30);
        let mut conns = 0usize;
        for _ in 0..len {
            let r = rng.below(100);
            if r < 30 {
                let tok = if rng.chance(1, 60) { n + rng.below(2) } else { rng.below(n) };
                writeln!(w, "conn {tok}").unwrap();
                conns += 1;
            } else if r < 65 {
                writeln!(w, "poll").unwrap();
            } else if r < 78 && conns > 0 {
                writeln!(w, "finish {}", rng.below(conns)).unwrap();
            } else if r < 86 && stops {
                writeln!(w, "stop {}", if rng.chance(2, 3) { "g" } else { "f" }).unwrap();
            } else if r < 94 && stops {
                writeln!(w, "advance {}", *rng.pick(&[250usize, 500, 1000, 1000, 1500])).unwrap();
                if rng.chance(3, 4) {
                    writeln!(w, "poll").unwrap();
                }
            } else if r < 94 {
                writeln!(w, "poll").unwrap();
            } else if r < 96 {
                if prop == "C06" && rng.chance(1, 3) {
                    // the accept thread exits / the server goes away (C06 only: what the worker does then is F8)
                    writeln!(w, "{}", if rng.chance(3, 4) { "close" } else { "closestop" }).unwrap();
                } else if prop == "C06" && rng.chance(1, 4) {
                    let acts = ["stop:g", "stop:f", "close", "conn:0", "finish:0", "inc", "closestop", "send:0"];
                    let k = rng.range(1, 3);
                    let v: Vec<&str> = (0..k).map(|_| *rng.pick(&acts)).collect();
                    writeln!(w, "poll y={}", v.join(",")).unwrap();
                } else {
                    writeln!(w, "conn {}", rng.below(n)).unwrap();
                    conns += 1;
                }
            } else if r < 98 {
                // malformed / not applicable
                let bad = *rng.pick(&["conn", "conn x", "poll 1", "finish", "finish -1", "stop", "stop x", "advance 0", "advance", "pol", "inc 1", "send", ""]);
                writeln!(w, "{bad}").unwrap();
            } else {
                writeln!(w, "poll").unwrap();
                writeln!(w, "poll").unwrap();
            }
        }
        closing(w, 6);
    }

    /// C06, worker level: `k` connections in progress, each finishing in a given slot, `q` queued and
    /// never received, one stop (graceful / forced), optionally a second one, polled promptly
    #[allow(clippy::too_many_arguments)]
    fn c06_case(w: &mut dyn Write, name: &str, slots: &[usize], timeout: usize, graceful: bool, q: usize, second: Option<(usize, bool)>, step: usize) {
        // slot values: 0 = before the stop, 1 = 300 ms, 2 = 1300 ms, 3 = 2300 ms, 4 = never
        writeln!(w, "case {name} n=1 timeout={timeout} prompt=1 s0=.").unwrap();
        for _ in slots {
            writeln!(w, "conn 0").unwrap();
        }
        writeln!(w, "poll").unwrap();
        for (i, s) in slots.iter().enumerate() {
            if *s == 0 {
                writeln!(w, "finish {i}").unwrap();
            }
        }
        for _ in 0..q {
            writeln!(w, "conn 0").unwrap();
        }
        writeln!(w, "stop {}", if graceful { "g" } else { "f" }).unwrap();
        if let Some((0, g2)) = second {
            writeln!(w, "stop {}", if g2 { "g" } else { "f" }).unwrap();
        }
        writeln!(w, "poll").unwrap();
        let horizon = ((timeout + 999) / 1000 + 2) * 1000 + if second.is_some() { 2000 } else { 0 };
        let mut t = 0;
        while t < horizon {
            writeln!(w, "advance {step}").unwrap();
            let t2 = t + step;
            for (i, s) in slots.iter().enumerate() {
                let at = match s {
                    1 => 300,
                    2 => 1300,
                    3 => 2300,
                    _ => usize::MAX,
                };
                if at > t && at <= t2 {
                    writeln!(w, "finish {i}").unwrap();
                }
            }
            if let Some((at, g2)) = second {
                if at > t && at <= t2 {
                    writeln!(w, "stop {}", if g2 { "g" } else { "f" }).unwrap();
                }
            }
            writeln!(w, "poll").unwrap();
            t = t2;
        }
        writeln!(w, "stop g").unwrap(); // a stop after the worker is gone must resolve too
        writeln!(w, "conn 0").unwrap(); // and nothing is accepted any more
    }

    fn c06_enumerate(w: &mut dyn Write, thorough: bool) {
        let mut slotsets: Vec<Vec<usize>> = vec![vec![]];
        for a in 0..5 {
            slotsets.push(vec![a]);
            for b in a..5 {
                slotsets.push(vec![a, b]);
                for c in b..5 {
                    slotsets.push(vec![a, b, c]);
                }
            }
        }
        let timeouts: &[usize] = &[0, 1000, 2000, 3000, 500, 1500];
        let seconds: &[Option<(usize, bool)>] = if thorough {
            &[None, Some((0, true)), Some((0, false)), Some((500, true)), Some((500, false)), Some((1500, true)), Some((1500, false))]
        } else {
            &[None, Some((500, false)), Some((1500, true))]
        };
        let steps: &[usize] = if thorough { &[1000, 500, 250] } else { &[1000, 500] };
        let qs: &[usize] = if thorough { &[0, 1, 2] } else { &[0, 2] };
        let mut count = 0;
        for slots in &slotsets {
            for &t in timeouts {
                for graceful in [true, false] {
                    for &q in qs {
                        for &second in seconds {
                            for &step in steps {
                                if !thorough && (count % 3 != 0) && slots.len() == 3 {
                                    count += 1;
                                    continue;
                                }
                                c06_case(w, &format!("e{count}"), slots, t, graceful, q, second, step);
                                count += 1;
                            }
                        }
                    }
                }
            }
        }
        // F8: the accept thread exits (closes the connection channel) before / while / after the Stop arrives
        let mut j = 0;
        for graceful in ["g", "f"] {
            for inprog in 0..=2usize {
                for queued in 0..=1usize {
                    for variant in 0..5usize {
                        writeln!(w, "case x{j} n=1 timeout=2000 prompt=1 s0=.").unwrap();
                        j += 1;
                        for _ in 0..inprog {
                            writeln!(w, "conn 0").unwrap();
                        }
                        writeln!(w, "poll").unwrap();
                        for _ in 0..queued {
                            writeln!(w, "conn 0").unwrap();
                        }
                        match variant {
                            0 => {
                                writeln!(w, "close").unwrap();
                                writeln!(w, "poll").unwrap();
                                writeln!(w, "stop {graceful}").unwrap();
                                writeln!(w, "poll").unwrap();
                            }
                            1 => {
                                writeln!(w, "poll y=stop:{graceful},close").unwrap();
                            }
                            2 => {
                                writeln!(w, "poll y=close,stop:{graceful}").unwrap();
                            }
                            3 => {
                                writeln!(w, "stop {graceful}").unwrap();
                                writeln!(w, "close").unwrap();
                                writeln!(w, "poll").unwrap();
                            }
                            _ => {
                                writeln!(w, "close").unwrap();
                                writeln!(w, "poll").unwrap();
                                writeln!(w, "closestop").unwrap();
                                writeln!(w, "poll").unwrap();
                            }
                        }
                        for t in 0..3 {
                            writeln!(w, "advance 1000").unwrap();
                            if t == 0 && inprog > 0 {
                                writeln!(w, "finish 0").unwrap();
                            }
                            writeln!(w, "poll").unwrap();
                        }
                    }
                }
            }
        }
        // window W1: the accept thread has sent but not yet counted a connection when Stop arrives
        for graceful in [true, false] {
            writeln!(w, "case w1_{} n=1 timeout=1000 s0=.", graceful as u8).unwrap();
            writeln!(w, "send 0").unwrap();
            writeln!(w, "poll").unwrap();
            writeln!(w, "finish 0").unwrap();
            writeln!(w, "stop {}", if graceful { "g" } else { "f" }).unwrap();
            writeln!(w, "poll").unwrap();
            writeln!(w, "case w1b_{} n=1 timeout=1000 s0=.", graceful as u8).unwrap();
            writeln!(w, "send 0").unwrap();
            writeln!(w, "stop {}", if graceful { "g" } else { "f" }).unwrap();
            writeln!(w, "poll").unwrap();
            writeln!(w, "inc").unwrap();
            writeln!(w, "advance 1000").unwrap();
            writeln!(w, "poll").unwrap();
        }
    }

    pub fn gen(a: &Args) {
        let mut w = out_writer(&a.output);
        let thorough = a.tier == "thorough";
        let mut rng = Rng::new(a.seed ^ 0x7707);
        let prop = a.prop.as_str();
        writeln!(w, "case kernels n=1 timeout=0").unwrap();
        // (`Counter::total()` of a raw value 0 computes 0 - 1: a panic with overflow checks, a wrap without — only the former is
        // what the model says; a build without debug assertions starts at 1)
        for v in (if cfg!(debug_assertions) { 0 } else { 1 })..=5 {
            writeln!(w, "k-total {v}").unwrap();
        }
        if prop == "C06" {
            writeln!(w, "k-shape").unwrap();
        }
        if prop == "C05" {
            // only what C05 needs from this engine (real signals cannot be delivered to the stepped accept loop): a back-off
            // after a real EMFILE, with and without handled signals interrupting the accept thread's poll while it lasts
            writeln!(w, "case srvlevel n=1 timeout=0").unwrap();
            writeln!(w, "sig b0 sig=term timeout=1 hold=n emfile=1").unwrap();
            writeln!(w, "sig b1 sig=term timeout=1 hold=n emfile=1 storm=100x30").unwrap();
            writeln!(w, "sig b2 sig=quit timeout=1 hold=n emfile=1 storm=40x60 rt=tokio").unwrap();
            if thorough {
                writeln!(w, "sig b3 sig=term timeout=1 hold=n emfile=1 storm=250x12").unwrap();
                writeln!(w, "sig b4 sig=int timeout=1 hold=300 emfile=1 storm=10x100 lst=udsa").unwrap();
            }
            writeln!(w, "sig bad sig=term timeout=1 hold=n storm=100x30").unwrap();
            writeln!(w, "sig bad2 sig=term timeout=1 hold=n emfile=1 storm=100").unwrap();
            w.flush().unwrap();
            return;
        }
        if prop == "C08" {
            // only what C08 needs from this engine: a worker that dies (its service panics) with a slow teardown of its
            // service, connections made inside the teardown window, the replacement rejoining — on the real Server
            writeln!(w, "case srvlevel n=1 timeout=0").unwrap();
            let gaps: &[usize] = if thorough { &[50, 150, 400, 800, 1200] } else { &[150, 600] };
            for (k, g) in gaps.iter().enumerate() {
                writeln!(w, "fault f{k} gap={g}").unwrap();
            }
            // … and a graceful stop with a connection in progress on the replacement worker
            writeln!(w, "fault fs stop=1").unwrap();
            // two faults in sequence, each replaced before the next; a worker that dies while saturated
            // (max_concurrent_connections = what was in progress when its service panicked); a single worker
            writeln!(w, "fault f2 faults=2").unwrap();
            writeln!(w, "fault fl limit=1").unwrap();
            writeln!(w, "fault f1 workers=1 limit=1").unwrap();
            // both workers die one after the other (each replaced before the next fault); then one connection per worker is held
            // at the same time under max_concurrent_connections(1): the replacements have indices (availability bits) of their own
            writeln!(w, "fault fp limit=1 faults=2 pair=1").unwrap();
            // the Server future is dropped without a stop, then a worker dies: the accept thread survives, the live worker serves
            writeln!(w, "fault fd dropsrv=1").unwrap();
            // other ways to die: the service panics in poll_ready; poll_ready answers Err and the factory cannot make another
            // one (the worker gives up) — found and replaced all the same; the only worker dies while saturated by a held connection
            writeln!(w, "fault fk kill=restart").unwrap();
            writeln!(w, "fault fh workers=1 limit=1 kill=ready hold=1").unwrap();
            // a dead worker nobody has noticed + a busy live one + graceful stop (C06)
            writeln!(w, "fault fb busystop=1").unwrap();
            // one worker saturated and alive, the other dead but marked available: the next connection goes to the live one
            writeln!(w, "fault fc limit=1 sat=1").unwrap();
            // signals enabled (the builder's default): fault reports and stops still reach the command loop
            writeln!(w, "fault fg signals=1").unwrap();
            // the replacement comes up while the server is paused and is in the rotation after resume
            writeln!(w, "fault fz limit=1 pausedrep=1").unwrap();
            // a restart fails (the factory cannot make the service): logged; the next fault, of the other worker, is still replaced
            writeln!(w, "fault ff facfail=1").unwrap();
            writeln!(w, "fault fv victim=last stop=1").unwrap();
            writeln!(w, "fault fv2 victim=last").unwrap();
            // the same under an actix System (workers on Arbiters): a worker that dies saturated takes its arbiter — and the
            // connections on it — with it; that is how it is found
            writeln!(w, "fault fhs workers=1 limit=1 kill=ready hold=1 sys=1").unwrap();
            writeln!(w, "fault f0s sys=1").unwrap();
            if thorough {
                writeln!(w, "fault fg2 signals=1 faults=2 pair=1 limit=1").unwrap();
                writeln!(w, "fault fg3 signals=1 stop=1").unwrap();
                writeln!(w, "fault fs1 sys=1 kill=restart").unwrap();
                writeln!(w, "fault ff2 facfail=1 sys=1").unwrap();
                writeln!(w, "fault ff3 facfail=1 signals=1").unwrap();
                writeln!(w, "fault fs2 sys=1 limit=1 faults=2 pair=1").unwrap();
                writeln!(w, "fault fs3 sys=1 stop=1").unwrap();
                writeln!(w, "fault fs4 sys=1 limit=1 sat=1").unwrap();
                writeln!(w, "fault fk2 kill=ready").unwrap();
                writeln!(w, "fault fk3 workers=1 kill=restart").unwrap();
                writeln!(w, "fault fk4 kill=restart faults=2").unwrap();
                writeln!(w, "fault fp2 faults=2 pair=1").unwrap();
                writeln!(w, "fault fp3 limit=2 faults=2 pair=1").unwrap();
                writeln!(w, "fault fd2 dropsrv=1 gap=600").unwrap();
                writeln!(w, "fault f3 workers=1 faults=2").unwrap();
                writeln!(w, "fault f4 limit=2 faults=2").unwrap();
                writeln!(w, "fault f5 workers=1").unwrap();
            }
            writeln!(w, "fault bad2 faults=3").unwrap();
            writeln!(w, "fault bad gap=x").unwrap();
            w.flush().unwrap();
            return;
        }
        if prop == "C01" {
            // only what C01 needs from this engine: routing by token, taken-but-never-served, dropped without a Stop,
            // released at shutdown / nothing leaked (worker level), and connections around a worker fault (server level)
            writeln!(w, "case srvlevel n=1 timeout=0").unwrap();
            writeln!(w, "fault f0").unwrap();
            writeln!(w, "fault fs stop=1").unwrap();
            writeln!(w, "fault f2 faults=2").unwrap();
            writeln!(w, "fault fc limit=1 sat=1").unwrap();
            // a forced stop reaches every worker: a connection in progress is closed (not left open, not served on)
            writeln!(w, "srv sf workers=2 timeout=5 mode=f holds=n,n").unwrap();
            // … and so is a connection queued at a worker whose service is not ready (never served, not left open)
            writeln!(w, "gate gs kind=pending stop=f").unwrap();
            if thorough {
                writeln!(w, "gate gs2 kind=pending stop=g").unwrap();
            }
            c07_exhaustive(&mut *w, &mut rng, 1, if thorough { 4 } else { 3 }, "x1_");
            c07_arrivals(&mut *w, &mut rng, 2, 1);
            if thorough {
                c07_exhaustive(&mut *w, &mut rng, 2, 3, "x2_");
                c07_arrivals(&mut *w, &mut rng, 3, 1);
            }
            let mut k = 0;
            for slots in [vec![], vec![1usize], vec![4], vec![1, 4]] {
                for t in [0usize, 1000] {
                    for graceful in [true, false] {
                        for q in [1usize, 2] {
                            c06_case(&mut *w, &format!("s{k}"), &slots, t, graceful, q, None, 1000);
                            k += 1;
                        }
                    }
                }
            }
            for c in 0..(if thorough { 3000 } else { 300 }) {
                random_case(&mut *w, &mut rng, &format!("r{c}"), "C06", 1, 3, None);
            }
            w.flush().unwrap();
            return;
        }
        if prop == "C02" {
            // only what C02 (and C03/C04) need from this engine: the notifications the REAL worker pushes into the accept
            // thread's waker queue — a worker at / around its limit whose service fails its readiness check and is rebuilt;
            // and (real Server) two workers that die one after the other and are replaced: afterwards every worker takes its
            // share and none more than the limit (each replacement has the index — the availability bit — of the worker it replaces)
            writeln!(w, "case srvlevel n=1 timeout=0").unwrap();
            writeln!(w, "fault fp limit=1 faults=2 pair=1").unwrap();
            writeln!(w, "fault fp4 limit=2 faults=2 pair=1").unwrap();
            let mut k = 0;
            for limit in 1..=3usize {
                for m in (limit.saturating_sub(1))..=(limit + 1) {
                    for extra in 0..=1usize {
                        for fpend in 0..=1usize {
                            let script: String = "R".repeat(2 + m + extra) + "E";
                            writeln!(w, "case k{k} n=1 timeout=1000 limit={limit} s0={script}/{fpend}+.").unwrap();
                            k += 1;
                            for _ in 0..m {
                                writeln!(w, "conn 0").unwrap();
                            }
                            for _ in 0..(extra + 3 + fpend) {
                                writeln!(w, "poll").unwrap();
                            }
                            for i in 0..m {
                                writeln!(w, "finish {i}").unwrap();
                                writeln!(w, "poll").unwrap();
                            }
                            // a graceful stop releasing queued connections across the limit
                            for _ in 0..(limit + 1) {
                                writeln!(w, "conn 0").unwrap();
                            }
                            writeln!(w, "stop g").unwrap();
                            writeln!(w, "poll").unwrap();
                            writeln!(w, "advance 1000").unwrap();
                            writeln!(w, "poll").unwrap();
                        }
                    }
                }
            }
            for c in 0..(if thorough { 3000 } else { 300 }) {
                let limit = rng.range(1, 3);
                random_case(&mut *w, &mut rng, &format!("r{c}"), "C02", 1, 2, Some(limit));
            }
            writeln!(w, "case bad n=1 timeout=0 limit=0").unwrap();
            w.flush().unwrap();
            return;
        }
        if prop == "C07" {
            // server level (real Server, real StreamService adapter): readiness that changes while the worker is idle,
            // and a worker that dies with a slow service teardown (C08 / C01, run with this engine)
            writeln!(w, "case srvlevel n=1 timeout=0").unwrap();
            writeln!(w, "gate g0 kind=pending").unwrap();
            writeln!(w, "gate g1 kind=fail").unwrap();
            writeln!(w, "gate g2 kind=fail2").unwrap();
            // more than 256 listeners on the worker: the failing service is no. 256 / no. 300 — re-created from its own factory
            writeln!(w, "gate g3 kind=fail listeners=257 at=256").unwrap();
            // a service made ready by a local task that its factory spawned (plain Tokio runtime, and under an actix System)
            writeln!(w, "gate g5 kind=driver").unwrap();
            // many connections queued at one worker while its service is Pending: all served when it is ready
            writeln!(w, "gate gq kind=pending burst=60").unwrap();
            writeln!(w, "gate gq2 kind=pending burst=150 lst=uds").unwrap();
            writeln!(w, "gate g6 kind=driver sys=1").unwrap();
            // a unix listener: the connection reaches the service intact (it is answered) after it waited for readiness
            writeln!(w, "gate g7 kind=pending lst=uds").unwrap();
            writeln!(w, "gate g8 kind=fail lst=uds sys=1").unwrap();
            writeln!(w, "srv u0 workers=1 timeout=1 mode=g holds=300 lst=uds").unwrap();
            writeln!(w, "srv u1 workers=2 timeout=1 mode=g holds=300,n lst=udsl").unwrap();
            writeln!(w, "gate g4 kind=fail2 listeners=301 at=300").unwrap();
            writeln!(w, "gate gs kind=pending stop=f").unwrap();
            writeln!(w, "fault f0").unwrap();
            writeln!(w, "gate bad kind=x").unwrap();
            if thorough {
                c07_exhaustive(&mut *w, &mut rng, 1, 4, "x1_");
                c07_exhaustive(&mut *w, &mut rng, 2, 4, "x2_");
                c07_exhaustive(&mut *w, &mut rng, 3, 2, "x3_");
                c07_arrivals(&mut *w, &mut rng, 1, 2);
                c07_arrivals(&mut *w, &mut rng, 2, 2);
                c07_arrivals(&mut *w, &mut rng, 3, 1);
            } else {
                c07_exhaustive(&mut *w, &mut rng, 1, 3, "x1_");
                c07_exhaustive(&mut *w, &mut rng, 2, 3, "x2_");
                c07_arrivals(&mut *w, &mut rng, 2, 1);
            }
            let nr = if thorough { 20000 } else { 1500 };
            for c in 0..nr {
                random_case(&mut *w, &mut rng, &format!("r{c}"), prop, if c % 2 == 0 { 3 } else { 1 }, 3, None);
            }
        } else {
            // server level: the real public API in real time (a few scenarios; more in the thorough tier)
            writeln!(w, "case srvlevel n=1 timeout=0").unwrap();
            let mut k = 0;
            let mut srv = |w: &mut dyn Write, rest: &str| {
                writeln!(w, "srv s{k} {rest}").unwrap();
                k += 1;
            };
            // a worker faults and is replaced; a connection is in progress on the REPLACEMENT; graceful stop must wait for it
            writeln!(w, "fault fs0 stop=1").unwrap();
            // … the worker in the LAST handle slot, discovered with the cursor on it; the accept thread survives, the stop completes
            writeln!(w, "fault fv0 victim=last stop=1").unwrap();
            // a worker is dead and nobody has noticed; a connection is in progress on the OTHER worker; graceful stop waits for it
            writeln!(w, "fault fb0 busystop=1").unwrap();
            if thorough {
                writeln!(w, "fault fs1 gap=600 stop=1").unwrap();
                writeln!(w, "fault fs2 gap=50 stop=1").unwrap();
            }
            // F7: graceful stop vs. accept-thread exit (needs a preempted server thread: repeated under CPU pressure)
            srv(&mut *w, "workers=2 timeout=2 mode=g holds=n,n reps=48 burn=12");
            srv(&mut *w, "workers=1 timeout=1 mode=g holds=-");
            srv(&mut *w, "workers=1 timeout=2 mode=g holds=300");
            srv(&mut *w, "workers=1 timeout=1 mode=g holds=n");
            srv(&mut *w, "workers=1 timeout=5 mode=f holds=n");
            srv(&mut *w, "workers=1 timeout=2 mode=g holds=300 second=g");
            srv(&mut *w, "workers=1 timeout=2 mode=g holds=300 drop=1");
            srv(&mut *w, "workers=1 timeout=2 mode=g holds=300 paused=1");
            srv(&mut *w, "workers=2 timeout=3 mode=g holds=300,1300");
            srv(&mut *w, "workers=2 timeout=5 mode=f holds=n,300 second=f");
            srv(&mut *w, "workers=1 timeout=0 mode=g holds=n");
            srv(&mut *w, "workers=2 timeout=2 mode=g holds=n,300,1300");
            srv(&mut *w, "workers=1 timeout=5 mode=f holds=n drop=1");
            // overlapping stops: the later ones are issued when the first has been taken off the channel; every future waits
            srv(&mut *w, "workers=1 timeout=5 mode=g holds=1500 second=g,f gap2=300");
            srv(&mut *w, "workers=2 timeout=2 mode=g holds=n,300 second=f,g gap2=400");
            // the builder's setters in a given order: the stop honours the CONFIGURED time-out (a connection is held beyond it)
            // whatever was set after it — each setter changes its own setting only
            srv(&mut *w, "workers=1 timeout=2 mode=g holds=n calls=timeout,blocking");
            srv(&mut *w, "workers=2 timeout=1 mode=g holds=n,300 calls=blocking,timeout,limit,backlog");
            srv(&mut *w, "workers=1 timeout=1 mode=g holds=n calls=timeout,limit,backlog,blocking");
            // a handler that blocks its worker thread: a forced stop completes without it
            srv(&mut *w, "workers=1 timeout=5 mode=f holds=n block=1");
            srv(&mut *w, "workers=2 timeout=5 mode=f holds=n,n block=1 second=f");
            // system_exit() on a plain Tokio runtime (there is no actix System to stop): the Server future resolves all the same
            srv(&mut *w, "workers=1 timeout=1 mode=g holds=300 sysexit=1");
            srv(&mut *w, "workers=2 timeout=5 mode=f holds=n sysexit=1 second=g");
            // stops called back to back (all in the channel before the command loop takes the first), the first future dropped
            srv(&mut *w, "workers=1 timeout=2 mode=g holds=300 second=g,f drop=1");
            // "never force": a time-out no clock can reach — the stop completes when the connection ends, not before, and
            // nothing overflows on the way
            srv(&mut *w, "workers=1 timeout=max mode=g holds=1200");
            srv(&mut *w, "workers=2 timeout=1000000000000 mode=g holds=300,1300");
            // listeners handed to the builder in other ways (a unix socket by path; a unix listener bound by the caller and handed
            // over as std made it — blocking): a connection is served, then the stop and the Server future resolve
            srv(&mut *w, "workers=1 timeout=1 mode=g holds=300 lst=udsl");
            srv(&mut *w, "workers=1 timeout=5 mode=f holds=n lst=udsl");
            srv(&mut *w, "workers=2 timeout=2 mode=g holds=300,n lst=uds second=g gap2=300");
            // … and a unix listener without a path (Linux abstract namespace): served, then stopped, gracefully and by force
            srv(&mut *w, "workers=1 timeout=1 mode=g holds=300 lst=udsa");
            srv(&mut *w, "workers=2 timeout=5 mode=f holds=n lst=udsa");
            writeln!(w, "sig a0 sig=term timeout=1 hold=300 lst=udsa").unwrap();
            // the accept thread is busy (1500 clients in the backlog, resume() + stop() back to back) when it is told to stop:
            // when the stop has completed it has exited all the same — a connect right then is refused
            srv(&mut *w, "workers=1 timeout=2 mode=f holds=- paused=1 flood=1500 lst=uds");
            srv(&mut *w, "workers=2 timeout=2 mode=g holds=- paused=1 flood=1500 lst=udsa");
            // signals handled ON the accept thread (its poll is interrupted): a harmless one leaves the server serving, the
            // terminating one stops it cleanly
            writeln!(w, "sig e0 sig=term timeout=1 hold=300 to=acceptor usr1=1").unwrap();
            writeln!(w, "sig e1 sig=int timeout=5 hold=n to=acceptor rt=tokio").unwrap();
            // commands before the signal: the signal still stops the server
            writeln!(w, "sig c0 sig=term timeout=1 hold=300 pre=1").unwrap();
            writeln!(w, "sig c1 sig=quit timeout=5 hold=n pre=1 rt=tokio").unwrap();
            // one more stop() after the shutdown is over (the Server future has resolved): resolves at once
            srv(&mut *w, "workers=1 timeout=1 mode=g holds=300 late=f");
            srv(&mut *w, "workers=2 timeout=5 mode=f holds=n late=g second=g");
            // the default configuration (no shutdown_timeout call): 30 s, not less — the client ends its connection after 4.5 s
            srv(&mut *w, "workers=1 timeout=default mode=g holds=4500");
            writeln!(w, "sig d0 sig=term timeout=default hold=4500").unwrap();
            // real signals to a server process on a plain Tokio runtime: the process exits cleanly (the Server future resolves)
            writeln!(w, "sig p0 sig=term timeout=2 hold=300 rt=tokio").unwrap();
            writeln!(w, "sig p1 sig=int timeout=5 hold=n rt=tokio").unwrap();
            if thorough {
                for holds in ["1300", "n", "300,1300"] {
                    for second in ["g", "f", "g,g,f", "f,f"] {
                        for gap2 in [100, 600] {
                            srv(&mut *w, &format!("workers=2 timeout=3 mode=g holds={holds} second={second} gap2={gap2}"));
                        }
                    }
                }
                srv(&mut *w, "workers=2 timeout=default mode=g holds=300,3500 second=g gap2=1000");
                for lst in ["uds", "udsl", "udsa"] {
                    for (mode, holds) in [("g", "-"), ("g", "300"), ("g", "n"), ("f", "n"), ("f", "300,n"), ("g", "1300,300")] {
                        for extra in ["", "second=f gap2=200", "late=g", "paused=1"] {
                            srv(&mut *w, &format!("workers=2 timeout=2 mode={mode} holds={holds} lst={lst} {extra}"));
                        }
                    }
                }
                srv(&mut *w, "workers=1 timeout=max mode=f holds=1200");
                srv(&mut *w, "workers=2 timeout=18446744073709551615 mode=g holds=300,2300 second=g gap2=500");
                srv(&mut *w, "workers=1 timeout=9223372036854775807 mode=g holds=1200");
                srv(&mut *w, "workers=1 timeout=18446744073709551616 mode=g holds=300");
                srv(&mut *w, "workers=1 timeout=max mode=g holds=n");
                srv(&mut *w, "workers=1 timeout=default mode=f holds=n");
                for workers in [1usize, 2] {
                    for timeout in [0usize, 1, 2, 5] {
                        for mode in ["g", "f"] {
                            if (timeout == 5) != (mode == "f") && timeout >= 2 {
                                continue;
                            }
                            for holds in ["-", "300", "n", "1300", "300,n", "1300,300", "300,300,n"] {
                                for extra in ["", "second=g", "second=f", "drop=1", "paused=1", "paused=1 second=f drop=1"] {
                                    srv(&mut *w, &format!("workers={workers} timeout={timeout} mode={mode} holds={holds} {extra}"));
                                }
                            }
                        }
                    }
                }
                let mut j = 0;
                for sig in ["int", "term", "quit"] {
                    for (timeout, hold) in [(1, "n"), (2, "300"), (5, "n")] {
                        writeln!(w, "sig g{j} sig={sig} timeout={timeout} hold={hold}").unwrap();
                        j += 1;
                    }
                }
                // malformed
                writeln!(w, "srv bad1 workers=1 timeout=1 mode=x holds=-").unwrap();
                writeln!(w, "sig bad2 sig=hup timeout=1 hold=n").unwrap();
            }
            // real OS signals to a child process with a held connection (one-sided): SIGQUIT is forced, SIGTERM graceful
            writeln!(w, "sig q0 sig=quit timeout=5 hold=n").unwrap();
            writeln!(w, "sig t0 sig=term timeout=1 hold=n").unwrap();
            writeln!(w, "srv bad0 workers=0 timeout=1 mode=g holds=-").unwrap();
            c06_enumerate(&mut *w, thorough);
            let nr = if thorough { 20000 } else { 1500 };
            for c in 0..nr {
                random_case(&mut *w, &mut rng, &format!("r{c}"), prop, 1, 3, None);
            }
        }
        w.flush().unwrap();
    }
}

fn main() {
    let argv: Vec<String> = std::env::args().collect();
    if argv.get(1).map(|s| s.as_str()) == Some("sigchild") {
        srvlevel::sigchild(
            match argv.get(2).map(|s| s.as_str()) {
                Some("default") => None,
                t => Some(t.and_then(|t| t.parse().ok()).unwrap_or(1)),
            },
            argv.get(3).map(|s| s.as_str()) == Some("tokio"),
            argv.get(4).map(|s| s.as_str()) == Some("udsa"),
            argv.get(5).map(|s| s.as_str()) == Some("emfile"),
            argv.get(6).map(|s| s.as_str()) == Some("pre"),
        );
        return;
    }
    if argv.get(1).map(|s| s.as_str()) == Some("scnchild") {
        silence_panics();
        srvlevel::scnchild(argv.get(2).map(|s| s.as_str()).unwrap_or(""));
        return;
    }
    let a = parse_args();
    match a.cmd.as_str() {
        "gen" => gen::gen(&a),
        "run" => run(&a),
        _ => {
            eprintln!("usage: worker gen|run …");
            std::process::exit(2)
        }
    }
}
