//! Engine `worker` (C06, C07): the REAL `actix_server` `ServerWorker::poll`, called one `poll` at a
//! time on the harness thread (hooks `actix_server::verif::WorkerDriver`) under a paused tokio clock,
//! with scripted services / factories that log every `poll_ready`, `call` and `create`, real loopback
//! TCP connections carrying an id, and the real `Stop` channel. Same op lines as the Lean model
//! `ActixNet.Worker` (engine `worker` of `amodel`).
//!
//! ```text
//! case <name> n=<services> timeout=<ms> [prompt=1] s<i>=<script>[/<fpend>(+|-)<script>]*
//!      script over R(eady) P(ending) E(rr), `.` = empty; each `/` part is one future incarnation:
//!      the factory future answers Pending <fpend> times, then Ok (+) with that script or Err (-)
//! conn <tok> | send <tok> | inc | close | stop g|f | finish <id> | advance <ms> | poll
//! ```
//! `srv …` lines (C06, server level) run the real `Server` / `ServerHandle` API in real time.
//!
//! The T3 oracles keep their own bookkeeping from real observations only (they never look at the
//! Lean model).
use std::{
    cell::RefCell,
    collections::{BTreeMap, VecDeque},
    future::Future,
    io::{Read, Write},
    pin::Pin,
    rc::Rc,
    sync::{
        atomic::{AtomicUsize, Ordering},
        Arc,
    },
    task::{Context, Poll, Wake, Waker},
    time::Duration,
};

use actix_server::verif::{AcceptDriver, AcceptHandle, InFlight, StopHandle, VerifFactory, VerifService, WakerHandle, WorkerDriver};
use futures_core::future::LocalBoxFuture;
use tokio::sync::oneshot;
use vh::*;

struct CW(AtomicUsize);
impl Wake for CW {
    fn wake(self: Arc<Self>) {
        self.0.fetch_add(1, Ordering::SeqCst);
    }
    fn wake_by_ref(self: &Arc<Self>) {
        self.0.fetch_add(1, Ordering::SeqCst);
    }
}

/// strict decimal (the Lean driver's `toNat?` on plain digits): 1..=9 ASCII digits
fn num(s: &str) -> Option<usize> {
    if s.is_empty() || s.len() > 9 || !s.bytes().all(|b| b.is_ascii_digit()) {
        return None;
    }
    s.parse().ok()
}

fn kv<'a>(ws: &'a [&str], key: &str) -> Option<&'a str> {
    ws.iter().find_map(|w| w.strip_prefix(key).and_then(|r| r.strip_prefix('=')))
}

#[derive(Clone, Debug, PartialEq)]
enum Evt {
    Ready(usize, usize, char), // service, incarnation, R|P|E
    Call(usize, usize, u32),   // service, incarnation, connection id
    Create(usize),
    Fac(usize, char), // P|O|E
}

impl Evt {
    fn show(&self) -> String {
        match self {
            Evt::Ready(i, inc, r) => format!("r{i}.{inc}{r}"),
            Evt::Call(t, inc, c) => format!("c{t}.{inc}#{c}"),
            Evt::Create(i) => format!("n{i}"),
            Evt::Fac(i, r) => format!("f{i}{r}"),
        }
    }
}

#[derive(Default)]
struct Shared {
    evs: Vec<Evt>,
    inflight: Vec<(u32, InFlight)>,
}

struct Svc {
    idx: usize,
    inc: usize,
    script: RefCell<VecDeque<char>>,
    shared: Rc<RefCell<Shared>>,
}

impl VerifService for Svc {
    fn poll_ready(&self, _cx: &mut Context<'_>) -> Poll<Result<(), ()>> {
        let r = self.script.borrow_mut().pop_front().unwrap_or('R');
        self.shared.borrow_mut().evs.push(Evt::Ready(self.idx, self.inc, r));
        match r {
            'R' => Poll::Ready(Ok(())),
            'P' => Poll::Pending,
            _ => Poll::Ready(Err(())),
        }
    }

    fn call(&self, mut conn: InFlight) {
        let mut buf = [0u8; 4];
        let mut got = 0;
        for _ in 0..5000 {
            match conn.read(&mut buf[got..]) {
                Ok(k) if k > 0 => {
                    got += k;
                    if got == 4 {
                        break;
                    }
                }
                _ => std::thread::sleep(Duration::from_micros(100)),
            }
        }
        let id = if got == 4 { u32::from_be_bytes(buf) } else { u32::MAX };
        let mut sh = self.shared.borrow_mut();
        sh.evs.push(Evt::Call(self.idx, self.inc, id));
        sh.inflight.push((id, conn));
    }
}

#[derive(Clone)]
struct IncSpec {
    fpend: usize,
    fok: bool,
    script: VecDeque<char>,
}

struct Fac {
    idx: usize,
    future: RefCell<VecDeque<IncSpec>>,
    created: RefCell<usize>,
    shared: Rc<RefCell<Shared>>,
}

struct FacFut {
    idx: usize,
    inc: usize,
    spec: Option<IncSpec>,
    shared: Rc<RefCell<Shared>>,
}

impl Future for FacFut {
    type Output = Result<(usize, Box<dyn VerifService>), ()>;
    fn poll(mut self: Pin<&mut Self>, _cx: &mut Context<'_>) -> Poll<Self::Output> {
        let this = &mut *self;
        let spec = this.spec.as_mut().expect("factory future polled after completion");
        if spec.fpend > 0 {
            spec.fpend -= 1;
            this.shared.borrow_mut().evs.push(Evt::Fac(this.idx, 'P'));
            return Poll::Pending;
        }
        let spec = this.spec.take().unwrap();
        if spec.fok {
            this.shared.borrow_mut().evs.push(Evt::Fac(this.idx, 'O'));
            Poll::Ready(Ok((
                this.idx,
                Box::new(Svc { idx: this.idx, inc: this.inc, script: RefCell::new(spec.script), shared: this.shared.clone() }) as Box<dyn VerifService>,
            )))
        } else {
            this.shared.borrow_mut().evs.push(Evt::Fac(this.idx, 'E'));
            Poll::Ready(Err(()))
        }
    }
}

impl VerifFactory for Fac {
    fn create(&self) -> LocalBoxFuture<'static, Result<(usize, Box<dyn VerifService>), ()>> {
        self.shared.borrow_mut().evs.push(Evt::Create(self.idx));
        let spec = self.future.borrow_mut().pop_front().unwrap_or(IncSpec { fpend: 0, fok: true, script: VecDeque::new() });
        let mut c = self.created.borrow_mut();
        *c += 1;
        Box::pin(FacFut { idx: self.idx, inc: *c, spec: Some(spec), shared: self.shared.clone() })
    }
}

fn parse_script(t: &str) -> Option<VecDeque<char>> {
    if t == "." {
        return Some(VecDeque::new());
    }
    if t.is_empty() || !t.chars().all(|c| matches!(c, 'R' | 'P' | 'E')) {
        return if t.is_empty() { Some(VecDeque::new()) } else { None };
    }
    Some(t.chars().collect())
}

fn parse_inc(t: &str) -> Option<IncSpec> {
    let nd = t.bytes().take_while(|b| b.is_ascii_digit()).count();
    if nd == 0 || nd >= t.len() {
        return None;
    }
    let fpend = num(&t[..nd])?;
    let fok = match &t[nd..nd + 1] {
        "+" => true,
        "-" => false,
        _ => return None,
    };
    Some(IncSpec { fpend, fok, script: parse_script(&t[nd + 1..])? })
}

fn parse_svc(t: &str) -> Option<(VecDeque<char>, VecDeque<IncSpec>)> {
    let mut it = t.split('/');
    let sc = parse_script(it.next()?)?;
    let mut incs = VecDeque::new();
    for p in it {
        incs.push_back(parse_inc(p)?);
    }
    Some((sc, incs))
}

struct StopRec {
    graceful: bool,
    rx: oneshot::Receiver<bool>,
    resolved: Option<char>, // '1' '0' 'x'
    issued_at: u64,
    handled_at: Option<u64>, // virtual time of the poll that took it from the channel
    judged: bool,
}

struct Case {
    n: usize,
    timeout: u64,
    prompt: bool,
    driver: Option<WorkerDriver>,
    accept: Option<AcceptHandle>,
    stop: StopHandle,
    _ad: AcceptDriver,
    _wh: WakerHandle,
    shared: Rc<RefCell<Shared>>,
    cw: Arc<CW>,
    waker: Waker,
    seen_wakes: usize,
    clients: BTreeMap<u32, std::net::TcpStream>,
    tokens: BTreeMap<u32, usize>,
    queued: VecDeque<u32>,
    next_conn: u32,
    stops: Vec<StopRec>,
    now: u64,
    poisoned: bool,
    finished: bool,
    last_raw: usize,
    // ---- oracle bookkeeping (real observations only)
    cur_inc: Vec<usize>,
    w1: bool, // a `send` without `inc` happened: the counter no longer counts the connections
    closed_chan: bool,
    keep: Option<AcceptHandle>,
}

struct Harness {
    listener: std::net::TcpListener,
    addr: std::net::SocketAddr,
    rt: tokio::runtime::Runtime,
}

impl Case {
    fn new(ws: &[&str]) -> Option<Case> {
        let n = kv(ws, "n").and_then(num).unwrap_or(1);
        let timeout = kv(ws, "timeout").and_then(num).unwrap_or(0) as u64;
        let prompt = kv(ws, "prompt") == Some("1");
        let shared = Rc::new(RefCell::new(Shared::default()));
        let mut factories: Vec<Rc<dyn VerifFactory>> = vec![];
        let mut initial: Vec<Box<dyn VerifService>> = vec![];
        for i in 0..n {
            let (sc, incs) = match kv(ws, &format!("s{i}")) {
                Some(t) => parse_svc(t)?,
                None => (VecDeque::new(), VecDeque::new()),
            };
            factories.push(Rc::new(Fac { idx: i, future: RefCell::new(incs), created: RefCell::new(0), shared: shared.clone() }));
            initial.push(Box::new(Svc { idx: i, inc: 0, script: RefCell::new(sc), shared: shared.clone() }));
        }
        let mut wh = None;
        let (ad, _frx) = AcceptDriver::new(vec![], |w| {
            wh = Some(w.clone());
            vec![]
        })
        .ok()?;
        let wh = wh?;
        let (driver, accept, stop) = WorkerDriver::new(0, &wh, 1_000_000, Duration::from_millis(timeout), factories, initial);
        let cw = Arc::new(CW(AtomicUsize::new(0)));
        let waker = Waker::from(cw.clone());
        Some(Case {
            n,
            timeout,
            prompt,
            driver: Some(driver),
            accept: Some(accept),
            stop,
            _ad: ad,
            _wh: wh,
            shared,
            cw,
            waker,
            seen_wakes: 0,
            clients: BTreeMap::new(),
            tokens: BTreeMap::new(),
            queued: VecDeque::new(),
            next_conn: 0,
            stops: vec![],
            now: 0,
            poisoned: false,
            finished: false,
            last_raw: 1,
            cur_inc: vec![0; n],
            w1: false,
            closed_chan: false,
            keep: None,
        })
    }

    fn woke(&mut self) -> u8 {
        let now = self.cw.0.load(Ordering::SeqCst);
        let d = now - self.seen_wakes;
        self.seen_wakes = now;
        (d > 0) as u8
    }

    fn ghost_inc(&mut self) {}

    fn raw(&self) -> usize {
        match &self.driver {
            Some(d) => d.counter_raw(),
            None => self.last_raw,
        }
    }

    /// which of the connections still in the channel (as far as the harness knows) have been closed by
    /// the server side; waits until at least `expect` are seen closed (bounded)
    fn probe_closed(&mut self, expect: usize) -> Vec<u32> {
        let mut closed = vec![];
        for round in 0..400 {
            for id in self.queued.iter() {
                if closed.contains(id) {
                    continue;
                }
                let s = self.clients.get_mut(id).unwrap();
                let mut b = [0u8; 1];
                match s.read(&mut b) {
                    Ok(0) => closed.push(*id),
                    Ok(_) => {}
                    Err(e) if e.kind() == std::io::ErrorKind::WouldBlock => {}
                    Err(_) => closed.push(*id),
                }
            }
            if closed.len() >= expect {
                break;
            }
            if round > 0 {
                std::thread::sleep(Duration::from_micros(500));
            }
        }
        closed.sort();
        self.queued.retain(|id| !closed.contains(id));
        for id in &closed {
            self.clients.remove(id);
        }
        closed
    }
}

fn do_conn(h: &Harness, c: &mut Case, tok: usize, with_inc: bool, t3: &mut Vec<(String, String)>) -> String {
    if c.poisoned || c.accept.is_none() {
        return "bad-op".into();
    }
    let id = c.next_conn;
    let mut cl = match std::net::TcpStream::connect(h.addr) {
        Ok(s) => s,
        Err(e) => return format!("setup-error connect {e}"),
    };
    let _ = cl.write_all(&id.to_be_bytes());
    let (srv, _) = match h.listener.accept() {
        Ok(x) => x,
        Err(e) => return format!("setup-error accept {e}"),
    };
    let _ = cl.set_nonblocking(true);
    let acc = c.accept.as_ref().unwrap();
    let ok = if with_inc { acc.send_tcp(tok, srv).is_some() } else { acc.send_tcp_no_inc(tok, srv) };
    if !ok {
        if !c.finished {
            t3.push(("C06".into(), "send to a worker that has not finished failed".into()));
        }
        return "refused".into();
    }
    if c.finished {
        t3.push(("C06".into(), format!("connection c{id} was accepted by the channel of a worker that already completed its shutdown")));
    }
    if !with_inc {
        c.w1 = true;
    }
    c.next_conn += 1;
    c.clients.insert(id, cl);
    c.tokens.insert(id, tok);
    c.queued.push_back(id);
    let w = c.woke();
    format!("ok c{id} woke={w}")
}

/// C07 oracle on the events of one `poll` (`evs`), with the harness's own view of the channel
fn oracle_c07(c: &mut Case, evs: &[Evt], stop_handled: bool, t3: &mut Vec<(String, String)>) {
    let n = c.n;
    for (k, e) in evs.iter().enumerate() {
        match e {
            Evt::Call(tok, inc, id) => {
                // (1) right after a complete all-ready sweep, nothing in between
                let ok = k >= n
                    && (0..n).all(|i| matches!(&evs[k - n + i], Evt::Ready(j, _, 'R') if *j == i));
                if !ok {
                    let ctx: Vec<String> = evs[k.saturating_sub(n + 1)..k].iter().map(|e| e.show()).collect();
                    t3.push(("C07".into(), format!("service {tok} was called with connection c{id} without an immediately preceding sweep in which all {n} services reported ready (events before the call: [{}])", ctx.join(","))));
                }
                // (2) FIFO / nothing lost / exactly once
                match c.queued.front() {
                    Some(f) if f == id => {
                        c.queued.pop_front();
                    }
                    other => {
                        t3.push(("C07".into(), format!("call with connection c{id} but the oldest queued connection is {:?} (order / loss / duplication)", other)));
                        c.queued.retain(|x| x != id);
                    }
                }
                // routing and incarnation
                if c.tokens.get(id) != Some(tok) {
                    t3.push(("C07".into(), format!("connection c{id} with token {:?} was given to service {tok}", c.tokens.get(id))));
                }
                if c.cur_inc.get(*tok) != Some(inc) {
                    t3.push(("C07".into(), format!("connection c{id} was given to incarnation {inc} of service {tok}, current is {:?}", c.cur_inc.get(*tok))));
                }
                if stop_handled {
                    t3.push(("C06".into(), format!("connection c{id} was handed to a service after the worker had received Stop")));
                }
            }
            Evt::Create(i) => {
                // (4) only the failed service is re-created
                let ok = k >= 1 && matches!(&evs[k - 1], Evt::Ready(j, _, 'E') if j == i);
                if !ok {
                    t3.push(("C07".into(), format!("factory {i} was asked for a new service although service {i} did not just fail its readiness check")));
                }
            }
            Evt::Ready(i, inc, r) => {
                if c.cur_inc.get(*i) != Some(inc) {
                    t3.push(("C07".into(), format!("readiness of incarnation {inc} of service {i} was polled, current incarnation is {:?}", c.cur_inc.get(*i))));
                }
                if *r == 'E' {
                    let ok = matches!(evs.get(k + 1), Some(Evt::Create(j)) if j == i);
                    if !ok {
                        t3.push(("C07".into(), format!("service {i} failed its readiness check but its factory was not asked for a replacement next (next event: {:?})", evs.get(k + 1).map(|e| e.show()))));
                    }
                }
            }
            Evt::Fac(i, 'O') => {
                if let Some(x) = c.cur_inc.get_mut(*i) {
                    *x += 1;
                }
            }
            Evt::Fac(..) => {}
        }
    }
}

fn do_poll(c: &mut Case, t3: &mut Vec<(String, String)>) -> String {
    if c.poisoned || c.finished || c.driver.is_none() {
        return "bad-op".into();
    }
    let raw_before = c.raw();
    c.shared.borrow_mut().evs.clear();
    let stop_handled_before = !c.stops.is_empty(); // a Stop sent before this poll is taken at its very top
    let waker = c.waker.clone();
    let mut cx = Context::from_waker(&waker);
    let drv = c.driver.as_mut().unwrap();
    let r = catch(std::panic::AssertUnwindSafe(|| drv.poll(&mut cx)));
    let evs: Vec<Evt> = c.shared.borrow().evs.clone();
    let ev_s: Vec<String> = evs.iter().map(|e| e.show()).collect();
    let _ = c.woke();
    match r {
        Err(_msg) => {
            c.poisoned = true;
            // the worker is in an unknown state: drop it (a panic while dropping is swallowed too)
            let d = c.driver.take();
            let _ = catch(std::panic::AssertUnwindSafe(move || drop(d)));
            oracle_c07(c, &evs, stop_handled_before, t3);
            format!("ev=[{}] ret=panic", ev_s.join(","))
        }
        Ok(p) => {
            let done = p.is_ready();
            let raw_after = c.raw();
            c.last_raw = raw_after;
            if done {
                c.finished = true;
                c.driver = None; // the finished future is dropped, as the runtime does
            }
            oracle_c07(c, &evs, stop_handled_before, t3);
            // connections the worker closed: `raw_before - raw_after` were released with a guard;
            // once the future is gone everything still queued is gone with it
            let expect = if done { c.queued.len() } else { raw_before.saturating_sub(raw_after).min(c.queued.len()) };
            let closed = c.probe_closed(expect);
            // replies
            let mut reps = vec![];
            for (k, s) in c.stops.iter_mut().enumerate() {
                if s.resolved.is_none() {
                    match s.rx.try_recv() {
                        Ok(b) => {
                            s.resolved = Some(if b { '1' } else { '0' });
                            reps.push(format!("{k}:{}", b as u8));
                        }
                        Err(oneshot::error::TryRecvError::Closed) => {
                            s.resolved = Some('x');
                            reps.push(format!("{k}:x"));
                        }
                        Err(oneshot::error::TryRecvError::Empty) => {}
                    }
                }
            }
            oracle_c06(c, &evs, &closed, done, raw_before, raw_after, t3);
            format!(
                "ev=[{}] ret={} replies=[{}] closed=[{}] raw={}",
                ev_s.join(","),
                if done { "D" } else { "P" },
                reps.join(","),
                closed.iter().map(|x| x.to_string()).collect::<Vec<_>>().join(","),
                raw_after
            )
        }
    }
}

/// C06 oracle (worker half) after one successful `poll`; own bookkeeping, real observations only
fn oracle_c06(c: &mut Case, evs: &[Evt], closed: &[u32], done: bool, raw_before: usize, raw_after: usize, t3: &mut Vec<(String, String)>) {
    let now = c.now;
    if c.stops.is_empty() {
        // no Stop so far: the worker must neither finish (unless its channel was closed) nor close a connection
        if done && !c.closed_chan {
            t3.push(("C06".into(), "the worker future completed although no Stop was sent and its channel is open".into()));
        }
        if !closed.is_empty() && !done {
            t3.push(("C07".into(), format!("queued connection(s) {:?} were dropped by the worker (no Stop was sent)", closed)));
        }
        // C07 `serving_resumes`: a poll that ends right after an all-ready sweep leaves nothing queued
        let n = c.n;
        let k = evs.len();
        let ends_ready = k >= n && (0..n).all(|i| matches!(&evs[k - n + i], Evt::Ready(j, _, 'R') if *j == i));
        if ends_ready && !done && !c.queued.is_empty() {
            t3.push(("C07".into(), format!("all services ready, the worker went back to waiting, but connection(s) {:?} are still queued", c.queued)));
        }
        return;
    }
    if c.w1 {
        return; // the counter does not count the connections any more (window W1 left open): nothing to judge
    }
    let total_after = raw_after.wrapping_sub(1);
    // the oldest Stop not yet taken is taken at the top of this poll; every Stop resolved now was taken too
    let first_unhandled = c.stops.iter().position(|s| s.handled_at.is_none());
    let mut newly = vec![];
    for (k, s) in c.stops.iter_mut().enumerate() {
        if s.handled_at.is_none() && (Some(k) == first_unhandled || s.resolved.is_some()) {
            s.handled_at = Some(now);
            newly.push(k);
        }
    }
    for &k in &newly {
        let s = &c.stops[k];
        match s.resolved {
            Some('1') => {
                if total_after != 0 {
                    t3.push(("C06".into(), format!("stop #{k} was answered `true` (clean) while {total_after} connection(s) were still in progress")));
                }
            }
            Some('0') if s.graceful => {
                if now - s.issued_at < c.timeout {
                    t3.push(("C06".into(), format!("graceful stop #{k} was answered `false` {} ms after it was sent, shutdown_timeout is {} ms", now - s.issued_at, c.timeout)));
                }
            }
            _ => {}
        }
        if Some(k) == first_unhandled {
            if !s.graceful && !(done && s.resolved.is_some()) {
                t3.push(("C06".into(), format!("forced stop #{k} was received but the worker did not answer and finish in that poll")));
            }
            if raw_before == 1 && !(done && s.resolved == Some('1')) {
                t3.push(("C06".into(), format!("stop #{k} reached an idle worker but it did not answer `true` and finish at once")));
            }
        }
    }
    // replies that arrive in a later poll than the one that took the stop (the tick path)
    for (k, s) in c.stops.iter_mut().enumerate() {
        if newly.contains(&k) || s.judged || s.resolved.is_none() {
            continue;
        }
        s.judged = true;
        match s.resolved {
            Some('1') if total_after != 0 => {
                t3.push(("C06".into(), format!("stop #{k} was answered `true` (clean) while {total_after} connection(s) were still in progress")));
            }
            Some('0') if s.graceful && now - s.issued_at < c.timeout => {
                t3.push(("C06".into(), format!("graceful stop #{k} was answered `false` {} ms after it was sent, shutdown_timeout is {} ms", now - s.issued_at, c.timeout)));
            }
            _ => {}
        }
    }
    for &k in &newly {
        if c.stops[k].resolved.is_some() {
            c.stops[k].judged = true;
        }
    }
    // queued connections are released (never called: see oracle_c07) by every poll of a stopping worker
    if !done && !c.queued.is_empty() {
        t3.push(("C06".into(), format!("worker is shutting down but connection(s) {:?} are still in its channel after poll", c.queued)));
    }
    // stop always completes: polled promptly, the worker is done no later than t0 + (ceil(T/tick)+1)*tick
    if c.prompt && !done {
        let tick = 1000u64;
        let t0 = c.stops.iter().filter(|s| !matches!(s.resolved, Some('x'))).filter_map(|s| s.handled_at).max().unwrap_or(now);
        let bound = t0 + ((c.timeout + tick - 1) / tick + 1) * tick;
        if now >= bound {
            t3.push(("C06".into(), format!("stop received at {t0} ms, shutdown_timeout {} ms, but the worker is still running at {now} ms (bound {bound} ms)", c.timeout)));
        }
    }
    if done {
        for (k, s) in c.stops.iter().enumerate() {
            if s.resolved.is_none() {
                t3.push(("C06".into(), format!("worker finished but stop #{k} was neither answered nor dropped")));
            }
        }
    }
}

fn run(a: &Args) {
    silence_panics();
    let rt = tokio::runtime::Builder::new_current_thread().enable_all().start_paused(true).build().unwrap();
    let listener = std::net::TcpListener::bind("127.0.0.1:0").expect("bind");
    let addr = listener.local_addr().unwrap();
    let h = Harness { listener, addr, rt };
    let _g = h.rt.enter();
    let mut rep = Report::new(&a.output);
    let mut case: Option<Case> = None;
    let mut srv_jobs: Vec<(usize, String)> = vec![];
    let mut lines_out: Vec<(String, Option<String>)> = vec![]; // real = None: filled in by a server-level job
    let mut t3_at: Vec<(usize, String, String)> = vec![];
    for line in in_lines(&a.input) {
        let ws: Vec<&str> = line.split_whitespace().collect();
        let mut t3: Vec<(String, String)> = vec![];
        let real: Option<String> = match ws.as_slice() {
            ["case", ..] => {
                if let Some(c) = case.take() {
                    let _ = catch(std::panic::AssertUnwindSafe(move || drop(c)));
                }
                match Case::new(&ws) {
                    Some(c) => {
                        case = Some(c);
                        Some("ok".into())
                    }
                    None => Some("bad-case".into()),
                }
            }
            ["srv", ..] => {
                srv_jobs.push((lines_out.len(), line.clone()));
                None
            }
            ["k-total", v] => Some(match num(v) {
                Some(v) => match catch(|| actix_server::verif::kernel_counter_total(v)) {
                    Ok(t) => t.to_string(),
                    Err(_) => "panic".into(),
                },
                None => "bad-op".into(),
            }),
            _ => Some(match case.as_mut() {
                None => "bad-op".into(),
                Some(c) => match ws.as_slice() {
                    ["conn", t] => match num(t) {
                        Some(t) => do_conn(&h, c, t, true, &mut t3),
                        None => "bad-op".into(),
                    },
                    ["send", t] => match num(t) {
                        Some(t) => do_conn(&h, c, t, false, &mut t3),
                        None => "bad-op".into(),
                    },
                    ["inc"] => {
                        if c.poisoned {
                            "bad-op".into()
                        } else {
                            match c.accept.as_ref() {
                                Some(acc) => {
                                    acc.inc_counter();
                                }
                                None => c.ghost_inc(),
                            }
                            if c.driver.is_none() {
                                c.last_raw += 1;
                            }
                            "ok".into()
                        }
                    }
                    ["close"] => {
                        if c.poisoned || c.accept.is_none() {
                            "bad-op".into()
                        } else {
                            c.keep = c.accept.take(); // see `Case::keep`
                            let h2 = c.keep.take();
                            drop(h2);
                            c.closed_chan = true;
                            let w = c.woke();
                            format!("ok woke={}", if c.finished { 0 } else { w })
                        }
                    }
                    ["stop", g] if *g == "g" || *g == "f" => {
                        if c.poisoned {
                            "bad-op".into()
                        } else {
                            let graceful = *g == "g";
                            let mut rx = c.stop.stop(graceful);
                            let k = c.stops.len();
                            let w = c.woke();
                            let mut resolved = None;
                            if c.finished {
                                match rx.try_recv() {
                                    Err(oneshot::error::TryRecvError::Closed) => resolved = Some('x'),
                                    Ok(b) => resolved = Some(if b { '1' } else { '0' }),
                                    Err(_) => t3.push(("C06".into(), format!("stop #{k} sent to a finished worker stays unresolved"))),
                                }
                            }
                            let r = format!("ok s{k} woke={w} reply={}", resolved.map_or("-".to_string(), |c| c.to_string()));
                            c.stops.push(StopRec { graceful, rx, resolved, issued_at: c.now, handled_at: if c.finished { Some(c.now) } else { None }, judged: c.finished });
                            r
                        }
                    }
                    ["finish", id] => match num(id) {
                        Some(id) if !c.poisoned && c.raw() != 0 => {
                            let pos = c.shared.borrow().inflight.iter().position(|(i, _)| *i as usize == id);
                            match pos {
                                Some(p) => {
                                    let (cid, inf) = c.shared.borrow_mut().inflight.remove(p);
                                    drop(inf);
                                    c.clients.remove(&cid);
                                    if c.driver.is_none() {
                                        c.last_raw -= 1;
                                    }
                                    "ok".into()
                                }
                                None => "bad-op".into(),
                            }
                        }
                        _ => "bad-op".into(),
                    },
                    ["advance", ms] => match num(ms) {
                        Some(ms) if ms > 0 && !c.poisoned => {
                            h.rt.block_on(async { tokio::time::advance(Duration::from_millis(ms as u64)).await });
                            c.now += ms as u64;
                            let w = c.woke();
                            format!("ok woke={}", if c.finished { 0 } else { w })
                        }
                        _ => "bad-op".into(),
                    },
                    ["poll"] => do_poll(c, &mut t3),
                    _ => "bad-op".into(),
                },
            }),
        };
        for (p, m) in t3 {
            t3_at.push((lines_out.len(), p, m));
        }
        lines_out.push((line, real));
    }
    if let Some(c) = case.take() {
        let _ = catch(std::panic::AssertUnwindSafe(move || drop(c)));
    }
    // server-level scenarios: real time, run concurrently
    let results = srvlevel::run_jobs(&srv_jobs.iter().map(|(_, l)| l.clone()).collect::<Vec<_>>());
    for ((idx, _), (obs, fails)) in srv_jobs.iter().zip(results) {
        lines_out[*idx].1 = Some(obs);
        for m in fails {
            t3_at.push((*idx, "C06".into(), m));
        }
    }
    let mut ti = 0;
    for (i, (op, real)) in lines_out.iter().enumerate() {
        rep.obs(op, real.as_deref().unwrap_or("bad-op"));
        while ti < t3_at.len() && t3_at[ti].0 == i {
            let (_, p, m) = &t3_at[ti];
            rep.t3(p, m);
            ti += 1;
        }
    }
    rep.finish();
}

// ------------------------------------------------------------------------------------------------
// server level (C06): the real public API in real time
// ------------------------------------------------------------------------------------------------
mod srvlevel {
    /// run every `srv …` line; result per line: (observation, oracle failures)
    pub fn run_jobs(lines: &[String]) -> Vec<(String, Vec<String>)> {
        lines.iter().map(|_| ("bad-op".to_string(), vec![])).collect()
    }
}

// ------------------------------------------------------------------------------------------------
// generators
// ------------------------------------------------------------------------------------------------
mod gen {
    use super::*;

    const ALPH: [char; 3] = ['R', 'P', 'E'];

    /// all scripts over {R,P,E} of length <= max (shortest first)
    fn scripts(max: usize) -> Vec<String> {
        let mut out = vec![String::new()];
        let mut last = vec![String::new()];
        for _ in 0..max {
            let mut next = vec![];
            for s in &last {
                for c in ALPH {
                    next.push(format!("{s}{c}"));
                }
            }
            out.extend(next.iter().cloned());
            last = next;
        }
        out
    }

    fn sc(s: &str) -> String {
        if s.is_empty() { ".".into() } else { s.into() }
    }

    /// `s<i>=…` spec: initial script + one future incarnation per `E` that can be reached (+1 spare)
    fn svc_spec(rng: &mut Rng, script: &str, rich: bool) -> String {
        let mut t = sc(script);
        let fails = script.matches('E').count().min(1) + if rich { rng.below(2) } else { 0 };
        let mut more = fails;
        while more > 0 {
            more -= 1;
            let fpend = *rng.pick(&[0usize, 0, 1, 2]);
            let ok = !rng.chance(1, 12);
            let sub = *rng.pick(&["", "", "R", "P", "PR", "E", "RE", "RP"]);
            if sub.contains('E') && more == 0 && rng.chance(1, 2) {
                more += 1;
            }
            t.push_str(&format!("/{fpend}{}{}", if ok { '+' } else { '-' }, sc(sub)));
        }
        t
    }

    fn closing(w: &mut dyn Write, polls: usize) {
        for _ in 0..polls {
            writeln!(w, "poll").unwrap();
        }
    }

    /// C07 exhaustive part: every tuple of scripts, a fixed arrival pattern chosen by `pat`
    fn c07_exhaustive(w: &mut dyn Write, rng: &mut Rng, n: usize, maxlen: usize, tag: &str) {
        let ss = scripts(maxlen);
        let mut idx = vec![0usize; n];
        let mut count = 0u64;
        loop {
            let specs: Vec<String> = (0..n).map(|i| format!("s{i}={}", svc_spec(rng, &ss[idx[i]], false))).collect();
            writeln!(w, "case {tag}{count} n={n} timeout=1000 {}", specs.join(" ")).unwrap();
            // arrivals: two connections before the first poll, one between polls, one late
            let toks: Vec<usize> = (0..4).map(|_| rng.below(n)).collect();
            writeln!(w, "conn {}", toks[0]).unwrap();
            if rng.chance(2, 3) {
                writeln!(w, "conn {}", toks[1]).unwrap();
            }
            writeln!(w, "poll").unwrap();
            writeln!(w, "conn {}", toks[2]).unwrap();
            writeln!(w, "poll").unwrap();
            writeln!(w, "poll").unwrap();
            if rng.chance(1, 2) {
                writeln!(w, "conn {}", toks[3]).unwrap();
            }
            closing(w, 2 * maxlen + 4);
            count += 1;
            // next tuple
            let mut k = 0;
            loop {
                if k == n {
                    return;
                }
                idx[k] += 1;
                if idx[k] < ss.len() {
                    break;
                }
                idx[k] = 0;
                k += 1;
            }
        }
    }

    /// C07 thorough: all arrival orders (token sequences) of <= 3 connections x arrival slots, scripts <= 2
    fn c07_arrivals(w: &mut dyn Write, rng: &mut Rng, n: usize, maxlen: usize) {
        let ss = scripts(maxlen);
        let mut count = 0u64;
        let mut idx = vec![0usize; n];
        loop {
            for k in 0..=3usize {
                // token sequences of length k, slots in 0..3 (before poll #slot), nondecreasing slots
                let ntok = n.pow(k as u32);
                for tcode in 0..ntok {
                    let nslot = 3usize.pow(k as u32);
                    for scode in 0..nslot {
                        let mut slots = vec![];
                        let mut x = scode;
                        for _ in 0..k {
                            slots.push(x % 3);
                            x /= 3;
                        }
                        if slots.windows(2).any(|p| p[0] > p[1]) {
                            continue;
                        }
                        let mut toks = vec![];
                        let mut y = tcode;
                        for _ in 0..k {
                            toks.push(y % n);
                            y /= n;
                        }
                        let specs: Vec<String> = (0..n).map(|i| format!("s{i}={}", svc_spec(rng, &ss[idx[i]], false))).collect();
                        writeln!(w, "case a{n}_{count} n={n} timeout=1000 {}", specs.join(" ")).unwrap();
                        for p in 0..3 {
                            for j in 0..k {
                                if slots[j] == p {
                                    writeln!(w, "conn {}", toks[j]).unwrap();
                                }
                            }
                            writeln!(w, "poll").unwrap();
                        }
                        closing(w, 2 * maxlen + 3);
                        count += 1;
                    }
                }
            }
            let mut k = 0;
            loop {
                if k == n {
                    return;
                }
                idx[k] += 1;
                if idx[k] < ss.len() {
                    break;
                }
                idx[k] = 0;
                k += 1;
            }
        }
    }

    fn rand_script(rng: &mut Rng, max: usize) -> String {
        let l = rng.below(max + 1);
        let bias = rng.below(3);
        (0..l)
            .map(|_| match (bias, rng.below(10)) {
                (0, 0..=5) | (1, 0..=2) | (2, 0..=3) => 'R',
                (0, 6..=8) | (1, 3..=7) | (2, 4..=6) => 'P',
                _ => 'E',
            })
            .collect()
    }

    /// seeded random histories over the whole op alphabet (both properties)
    fn random_case(w: &mut dyn Write, rng: &mut Rng, name: &str, prop: &str, nmin: usize, nmax: usize) {
        let n = rng.range(nmin, nmax);
        let timeout = *rng.pick(&[0usize, 500, 1000, 1500, 2000, 3000]);
        let specs: Vec<String> = (0..n)
            .map(|i| {
                let s = rand_script(rng, 5);
                format!("s{i}={}", svc_spec(rng, &s, true))
            })
            .collect();
        writeln!(w, "case {name} n={n} timeout={timeout} {}", specs.join(" ")).unwrap();
        let stops = prop == "C06" || rng.chance(1, 5);
        let len = rng.range(6, 30);
        let mut conns = 0usize;
        for _ in 0..len {
            let r = rng.below(100);
            if r < 30 {
                let tok = if rng.chance(1, 60) { n + rng.below(2) } else { rng.below(n) };
                writeln!(w, "conn {tok}").unwrap();
                conns += 1;
            } else if r < 65 {
                writeln!(w, "poll").unwrap();
            } else if r < 78 && conns > 0 {
                writeln!(w, "finish {}", rng.below(conns)).unwrap();
            } else if r < 86 && stops {
                writeln!(w, "stop {}", if rng.chance(2, 3) { "g" } else { "f" }).unwrap();
            } else if r < 94 && stops {
                writeln!(w, "advance {}", *rng.pick(&[250usize, 500, 1000, 1000, 1500])).unwrap();
                if rng.chance(3, 4) {
                    writeln!(w, "poll").unwrap();
                }
            } else if r < 94 {
                writeln!(w, "poll").unwrap();
            } else if r < 96 {
                if rng.chance(1, 3) {
                    writeln!(w, "close").unwrap();
                } else {
                    writeln!(w, "conn {}", rng.below(n)).unwrap();
                    conns += 1;
                }
            } else if r < 98 {
                // malformed / not applicable
                let bad = *rng.pick(&["conn", "conn x", "poll 1", "finish", "finish -1", "stop", "stop x", "advance 0", "advance", "pol", "inc 1", "send", ""]);
                writeln!(w, "{bad}").unwrap();
            } else {
                writeln!(w, "poll").unwrap();
                writeln!(w, "poll").unwrap();
            }
        }
        closing(w, 6);
    }

    /// C06, worker level: `k` connections in progress, each finishing in a given slot, `q` queued and
    /// never received, one stop (graceful / forced), optionally a second one, polled promptly
    #[allow(clippy::too_many_arguments)]
    fn c06_case(w: &mut dyn Write, name: &str, slots: &[usize], timeout: usize, graceful: bool, q: usize, second: Option<(usize, bool)>, step: usize) {
        // slot values: 0 = before the stop, 1 = 300 ms, 2 = 1300 ms, 3 = 2300 ms, 4 = never
        writeln!(w, "case {name} n=1 timeout={timeout} prompt=1 s0=.").unwrap();
        for _ in slots {
            writeln!(w, "conn 0").unwrap();
        }
        writeln!(w, "poll").unwrap();
        for (i, s) in slots.iter().enumerate() {
            if *s == 0 {
                writeln!(w, "finish {i}").unwrap();
            }
        }
        for _ in 0..q {
            writeln!(w, "conn 0").unwrap();
        }
        writeln!(w, "stop {}", if graceful { "g" } else { "f" }).unwrap();
        if let Some((0, g2)) = second {
            writeln!(w, "stop {}", if g2 { "g" } else { "f" }).unwrap();
        }
        writeln!(w, "poll").unwrap();
        let horizon = ((timeout + 999) / 1000 + 2) * 1000 + if second.is_some() { 2000 } else { 0 };
        let mut t = 0;
        while t < horizon {
            writeln!(w, "advance {step}").unwrap();
            let t2 = t + step;
            for (i, s) in slots.iter().enumerate() {
                let at = match s {
                    1 => 300,
                    2 => 1300,
                    3 => 2300,
                    _ => usize::MAX,
                };
                if at > t && at <= t2 {
                    writeln!(w, "finish {i}").unwrap();
                }
            }
            if let Some((at, g2)) = second {
                if at > t && at <= t2 {
                    writeln!(w, "stop {}", if g2 { "g" } else { "f" }).unwrap();
                }
            }
            writeln!(w, "poll").unwrap();
            t = t2;
        }
        writeln!(w, "stop g").unwrap(); // a stop after the worker is gone must resolve too
        writeln!(w, "conn 0").unwrap(); // and nothing is accepted any more
    }

    fn c06_enumerate(w: &mut dyn Write, thorough: bool) {
        let mut slotsets: Vec<Vec<usize>> = vec![vec![]];
        for a in 0..5 {
            slotsets.push(vec![a]);
            for b in a..5 {
                slotsets.push(vec![a, b]);
                for c in b..5 {
                    slotsets.push(vec![a, b, c]);
                }
            }
        }
        let timeouts: &[usize] = &[0, 1000, 2000, 3000, 500, 1500];
        let seconds: &[Option<(usize, bool)>] = if thorough {
            &[None, Some((0, true)), Some((0, false)), Some((500, true)), Some((500, false)), Some((1500, true)), Some((1500, false))]
        } else {
            &[None, Some((500, false)), Some((1500, true))]
        };
        let steps: &[usize] = if thorough { &[1000, 500, 250] } else { &[1000, 500] };
        let qs: &[usize] = if thorough { &[0, 1, 2] } else { &[0, 2] };
        let mut count = 0;
        for slots in &slotsets {
            for &t in timeouts {
                for graceful in [true, false] {
                    for &q in qs {
                        for &second in seconds {
                            for &step in steps {
                                if !thorough && (count % 3 != 0) && slots.len() == 3 {
                                    count += 1;
                                    continue;
                                }
                                c06_case(w, &format!("e{count}"), slots, t, graceful, q, second, step);
                                count += 1;
                            }
                        }
                    }
                }
            }
        }
        // window W1: the accept thread has sent but not yet counted a connection when Stop arrives
        for graceful in [true, false] {
            writeln!(w, "case w1_{} n=1 timeout=1000 s0=.", graceful as u8).unwrap();
            writeln!(w, "send 0").unwrap();
            writeln!(w, "poll").unwrap();
            writeln!(w, "finish 0").unwrap();
            writeln!(w, "stop {}", if graceful { "g" } else { "f" }).unwrap();
            writeln!(w, "poll").unwrap();
            writeln!(w, "case w1b_{} n=1 timeout=1000 s0=.", graceful as u8).unwrap();
            writeln!(w, "send 0").unwrap();
            writeln!(w, "stop {}", if graceful { "g" } else { "f" }).unwrap();
            writeln!(w, "poll").unwrap();
            writeln!(w, "inc").unwrap();
            writeln!(w, "advance 1000").unwrap();
            writeln!(w, "poll").unwrap();
        }
    }

    pub fn gen(a: &Args) {
        let mut w = out_writer(&a.output);
        let thorough = a.tier == "thorough";
        let mut rng = Rng::new(a.seed ^ 0x7707);
        let prop = a.prop.as_str();
        writeln!(w, "case kernels n=1 timeout=0").unwrap();
        for v in 0..=5 {
            writeln!(w, "k-total {v}").unwrap();
        }
        if prop == "C07" {
            if thorough {
                c07_exhaustive(&mut *w, &mut rng, 1, 4, "x1_");
                c07_exhaustive(&mut *w, &mut rng, 2, 4, "x2_");
                c07_exhaustive(&mut *w, &mut rng, 3, 2, "x3_");
                c07_arrivals(&mut *w, &mut rng, 1, 2);
                c07_arrivals(&mut *w, &mut rng, 2, 2);
                c07_arrivals(&mut *w, &mut rng, 3, 1);
            } else {
                c07_exhaustive(&mut *w, &mut rng, 1, 3, "x1_");
                c07_exhaustive(&mut *w, &mut rng, 2, 3, "x2_");
                c07_arrivals(&mut *w, &mut rng, 2, 1);
            }
            let nr = if thorough { 20000 } else { 1500 };
            for c in 0..nr {
                random_case(&mut *w, &mut rng, &format!("r{c}"), prop, if c % 2 == 0 { 3 } else { 1 }, 3);
            }
        } else {
            c06_enumerate(&mut *w, thorough);
            let nr = if thorough { 20000 } else { 1500 };
            for c in 0..nr {
                random_case(&mut *w, &mut rng, &format!("r{c}"), prop, 1, 3);
            }
        }
        w.flush().unwrap();
    }
}

fn main() {
    let a = parse_args();
    match a.cmd.as_str() {
        "gen" => gen::gen(&a),
        "run" => run(&a),
        _ => {
            eprintln!("usage: worker gen|run …");
            std::process::exit(2)
        }
    }
}
