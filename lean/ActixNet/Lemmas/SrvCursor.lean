import ActixNet.Lemmas.SrvLog
/-!
The round-robin cursor `St.next` moves only together with a dispatch (`set_next` after a successful
send appends to `dispatched`) or a detected worker fault (`remove_next` appends to `faultedLog`).

`accept_one` also calls `set_next` to step over a worker that is marked unavailable, but it does not
return before the connection is placed (dispatch) or a dead handle is removed (fault log) — unless the
model ends in a sticky `fault` (a Rust panic / endless loop).  So the statement is about fault-free
outcomes; no invariant of the start state and no restriction on the schedule is needed.

Three relations between a state and a later state:
* `Keep`  — both logs and the cursor are untouched (environment actions, listener bookkeeping, …);
* `Moved` — the logs grew strictly, or the outcome is a fault (`send_connection`, `accept_one`);
* `CurR`  — the logs only grow, and if neither grew and the outcome is fault-free the cursor is where it was.
All three carry "a fault stays a fault".
-/
namespace ActixNet.Srv
open ActixNet

def Keep (s s' : St) : Prop :=
  s'.dispatched = s.dispatched ∧ s'.faultedLog = s.faultedLog ∧ s'.next = s.next ∧
  (s.fault.isSome = true → s'.fault.isSome = true)

def Moved (s s' : St) : Prop :=
  s.dispatched.length ≤ s'.dispatched.length ∧ s.faultedLog.length ≤ s'.faultedLog.length ∧
  (s.fault.isSome = true → s'.fault.isSome = true) ∧
  (s'.fault = none →
    s.dispatched.length + s.faultedLog.length < s'.dispatched.length + s'.faultedLog.length)

def CurR (s s' : St) : Prop :=
  s.dispatched.length ≤ s'.dispatched.length ∧ s.faultedLog.length ≤ s'.faultedLog.length ∧
  (s.fault.isSome = true → s'.fault.isSome = true) ∧
  (s'.dispatched.length = s.dispatched.length → s'.faultedLog.length = s.faultedLog.length →
    s'.fault = none → s'.next = s.next)

theorem isSome_of_none_imp {a b : Option Fault} (h : a.isSome = true → b.isSome = true) (hb : b = none) : a = none := by
  cases a with
  | none => rfl
  | some x => subst hb; simp at h

theorem Keep.refl (s : St) : Keep s s := ⟨rfl, rfl, rfl, id⟩
theorem Keep.trans {a b c : St} (h1 : Keep a b) (h2 : Keep b c) : Keep a c :=
  ⟨h2.1.trans h1.1, h2.2.1.trans h1.2.1, h2.2.2.1.trans h1.2.2.1, fun h => h2.2.2.2 (h1.2.2.2 h)⟩

theorem Keep.curR {a b : St} (h : Keep a b) : CurR a b :=
  ⟨by rw [h.1]; exact Nat.le_refl _, by rw [h.2.1]; exact Nat.le_refl _, h.2.2.2, fun _ _ _ => h.2.2.1⟩

theorem Moved.curR {a b : St} (h : Moved a b) : CurR a b :=
  ⟨h.1, h.2.1, h.2.2.1, fun h1 h2 h3 => by have := h.2.2.2 h3; omega⟩

theorem CurR.refl (s : St) : CurR s s := (Keep.refl s).curR

theorem CurR.trans {a b c : St} (h1 : CurR a b) (h2 : CurR b c) : CurR a c := by
  obtain ⟨d1, f1, k1, n1⟩ := h1
  obtain ⟨d2, f2, k2, n2⟩ := h2
  refine ⟨by omega, by omega, fun h => k2 (k1 h), fun hd hf hn => ?_⟩
  have hb : b.fault = none := isSome_of_none_imp k2 hn
  rw [n2 (by omega) (by omega) hn, n1 (by omega) (by omega) hb]

theorem Moved.trans_curR {a b c : St} (h1 : Moved a b) (h2 : CurR b c) : Moved a c := by
  obtain ⟨d1, f1, k1, n1⟩ := h1
  obtain ⟨d2, f2, k2, _⟩ := h2
  refine ⟨by omega, by omega, fun h => k2 (k1 h), fun hn => ?_⟩
  have := n1 (isSome_of_none_imp k2 hn); omega

theorem CurR.trans_moved {a b c : St} (h1 : CurR a b) (h2 : Moved b c) : Moved a c := by
  obtain ⟨d1, f1, k1, _⟩ := h1
  obtain ⟨d2, f2, k2, n2⟩ := h2
  refine ⟨by omega, by omega, fun h => k2 (k1 h), fun hn => ?_⟩
  have := n2 hn; omega

/-- the outcome is a fault: every statement about fault-free outcomes holds -/
theorem Moved.of_fault {a b : St} (hd : a.dispatched.length ≤ b.dispatched.length)
    (hf : a.faultedLog.length ≤ b.faultedLog.length) (h : b.fault.isSome = true) : Moved a b :=
  ⟨hd, hf, fun _ => h, fun hn => by rw [hn] at h; simp at h⟩

/-! ### `Keep`: environment actions and the bookkeeping of the accept thread -/

theorem envStep_keep (cfg : Cfg) (s : St) (a : EnvAct) : Keep s (envStep cfg s a).1 := by
  cases a <;> simp only [envStep] <;> (repeat' split) <;> first | exact Keep.refl _ | exact ⟨rfl, rfl, rfl, id⟩

theorem runEnv_keep (cfg : Cfg) : ∀ (as : List EnvAct) (s : St), Keep s (runEnv cfg s as) := by
  intro as; induction as with
  | nil => intro s; exact Keep.refl s
  | cons a as ih =>
    intro s; simp only [runEnv]
    exact (envStep_keep cfg s a).trans (Keep.trans ⟨rfl, rfl, rfl, id⟩ (ih _))

theorem yieldPt_keep (cfg : Cfg) (s : St) : Keep s (yieldPt cfg s) := by
  unfold yieldPt; split
  · exact ⟨rfl, rfl, rfl, id⟩
  · exact Keep.trans ⟨rfl, rfl, rfl, id⟩ (runEnv_keep cfg _ _)

theorem setAvail_keep (s : St) (i : Nat) (v : Bool) : Keep s (setAvail s i v) := by
  unfold setAvail; split
  · exact ⟨rfl, rfl, rfl, id⟩
  · exact ⟨rfl, rfl, rfl, fun _ => rfl⟩

theorem register_keep (s : St) (l : Nat) : Keep s (register s l) := by
  unfold register; simp only; split <;> exact ⟨rfl, rfl, rfl, id⟩
theorem deregister_keep (s : St) (l : Nat) : Keep s (deregister s l) := ⟨rfl, rfl, rfl, id⟩
theorem setTimeout_keep (s : St) (d : Nat) : Keep s (setTimeout s d) := by
  unfold setTimeout; split
  · split <;> exact ⟨rfl, rfl, rfl, id⟩
  · exact ⟨rfl, rfl, rfl, id⟩

theorem deregisterAllFrom_keep : ∀ (ls : List Nat) (s : St), Keep s (deregisterAllFrom s ls) := by
  intro ls; induction ls with
  | nil => intro s; exact Keep.refl s
  | cons l ls ih =>
    intro s; simp only [deregisterAllFrom]
    refine Keep.trans ?_ (ih _)
    split
    · exact Keep.trans (b := { s with lst := upd s.lst l { s.lst l with deadline := none } }) ⟨rfl, rfl, rfl, id⟩ (deregister_keep _ l)
    · exact ⟨rfl, rfl, rfl, id⟩

theorem deregisterAll_keep (s : St) : Keep s (deregisterAll s) := deregisterAllFrom_keep _ s

theorem registerAllFrom_keep : ∀ (ls : List Nat) (s : St), Keep s (registerAllFrom s ls) := by
  intro ls; induction ls with
  | nil => intro s; exact Keep.refl s
  | cons l ls ih =>
    intro s; simp only [registerAllFrom]
    exact Keep.trans (Keep.trans (b := { s with lst := upd s.lst l { s.lst l with deadline := none } }) ⟨rfl, rfl, rfl, id⟩ (register_keep _ l)) (ih _)

theorem cleanupAll_keep (s : St) : Keep s (cleanupAll s) := ⟨rfl, rfl, rfl, id⟩
theorem clearEdges_keep (s : St) : Keep s (clearEdges s) := ⟨rfl, rfl, rfl, id⟩

theorem wakePrim_keep (s : St) (idx : Nat) : Keep s (wakePrim s idx) := by
  unfold wakePrim; split
  · exact setAvail_keep s idx true
  · exact Keep.refl s

theorem addWorker_keep (s : St) (w : Nat) : Keep s (addWorker s w) := by
  unfold addWorker; simp only
  exact Keep.trans (setAvail_keep s _ true) ⟨rfl, rfl, rfl, id⟩

theorem acceptSys_keep (s : St) (l : Nat) : Keep s (acceptSys s l).1 := by
  unfold acceptSys; simp only
  repeat' split
  all_goals exact ⟨rfl, rfl, rfl, id⟩

theorem processTimeoutFrom_keep (now : Nat) : ∀ (ls : List Nat) (s : St), Keep s (processTimeoutFrom s now ls) := by
  intro ls; induction ls with
  | nil => intro s; exact Keep.refl s
  | cons l ls ih =>
    intro s; simp only [processTimeoutFrom]
    split
    · exact ih s
    · refine Keep.trans ?_ (ih _)
      split
      · exact Keep.trans (b := _) ⟨rfl, rfl, rfl, id⟩ (setTimeout_keep _ _)
      · split
        · exact Keep.trans (b := { s with lst := upd s.lst l { s.lst l with deadline := none } }) ⟨rfl, rfl, rfl, id⟩ (register_keep _ l)
        · exact ⟨rfl, rfl, rfl, id⟩

theorem processTimeout_keep (s : St) : Keep s (processTimeout s) := by
  unfold processTimeout; split
  · exact Keep.refl s
  · exact Keep.trans (b := { s with timeout := none }) ⟨rfl, rfl, rfl, id⟩ (processTimeoutFrom_keep _ _ _)

/-! ### `send_connection`, the forced-send loop, `accept_one`: the logs grow strictly (or a fault) -/

/-- both logs untouched, a fault stays a fault; the cursor may move (`set_next`) -/
def Logs (s s' : St) : Prop :=
  s'.dispatched = s.dispatched ∧ s'.faultedLog = s.faultedLog ∧ (s.fault.isSome = true → s'.fault.isSome = true)

theorem Keep.logs {a b : St} (h : Keep a b) : Logs a b := ⟨h.1, h.2.1, h.2.2.2⟩
theorem Logs.trans {a b c : St} (h1 : Logs a b) (h2 : Logs b c) : Logs a c :=
  ⟨h2.1.trans h1.1, h2.2.1.trans h1.2.1, fun h => h2.2.2 (h1.2.2 h)⟩

theorem setNext_logs (s : St) : Logs s (setNext s) := by
  unfold setNext; split
  · exact ⟨rfl, rfl, fun _ => rfl⟩
  · exact ⟨rfl, rfl, id⟩

theorem Logs.trans_moved {a b c : St} (h1 : Logs a b) (h2 : Moved b c) : Moved a c := by
  obtain ⟨d1, f1, k1⟩ := h1
  obtain ⟨d2, f2, k2, n2⟩ := h2
  rw [d1] at d2 n2; rw [f1] at f2 n2
  exact ⟨d2, f2, fun h => k2 (k1 h), n2⟩

/-- one of the logs grew by an entry, the rest of the step leaves the logs alone -/
theorem Moved.of_grow {a b c : St} (hd : a.dispatched.length ≤ b.dispatched.length)
    (hf : a.faultedLog.length ≤ b.faultedLog.length)
    (hlt : a.dispatched.length + a.faultedLog.length < b.dispatched.length + b.faultedLog.length)
    (hk : a.fault.isSome = true → b.fault.isSome = true) (h : Logs b c) : Moved a c := by
  obtain ⟨d1, f1, k1⟩ := h
  refine ⟨by rw [d1]; exact hd, by rw [f1]; exact hf, fun h => k1 (hk h), fun _ => ?_⟩
  rw [d1, f1]; exact hlt

theorem incPrim_keep (cfg : Cfg) (s : St) (w i : Nat) : Keep s (incPrim cfg s w i) := by
  unfold incPrim; simp only; split
  · exact ⟨rfl, rfl, rfl, id⟩
  · exact Keep.trans (b := { s with wk := upd s.wk w { s.wk w with c := (s.wk w).c + 1 }, pend := none })
      ⟨rfl, rfl, rfl, id⟩ (setAvail_keep _ i false)

/-- `remove_next` + the cursor repair: exactly one entry more in the fault log -/
theorem sendFail_moved (s : St) (w : Nat) (c : Conn) : Moved s (sendFail s w c).1 := by
  have hr : Keep { s with handles := swapRemove s.handles s.next, faultedLog := s.faultedLog ++ [(s.wk w).idx] }
      (removeNext s w) := setAvail_keep _ _ false
  have hd : s.dispatched.length ≤ (removeNext s w).dispatched.length := by rw [hr.1]; exact Nat.le_refl _
  have hf : (removeNext s w).faultedLog.length = s.faultedLog.length + 1 := by rw [hr.2.1]; simp
  have hk : s.fault.isSome = true → (removeNext s w).fault.isSome = true := hr.2.2.2
  have hlt : s.dispatched.length + s.faultedLog.length <
      (removeNext s w).dispatched.length + (removeNext s w).faultedLog.length := by omega
  unfold sendFail; simp only
  split
  · exact Moved.of_grow hd (by omega) hlt hk ⟨rfl, rfl, id⟩
  · split
    · exact Moved.of_grow hd (by omega) hlt hk ⟨rfl, rfl, id⟩
    · exact Moved.of_grow hd (by omega) hlt hk ⟨rfl, rfl, id⟩

theorem sendConnection_moved (cfg : Cfg) (s : St) (c : Conn) : Moved s (sendConnection cfg s c).1 := by
  unfold sendConnection
  split
  · rename_i hf; exact Moved.of_fault (Nat.le_refl _) (Nat.le_refl _) hf
  · split
    · exact Moved.of_fault (Nat.le_refl _) (Nat.le_refl _) rfl
    · rename_i w _
      split
      · refine Moved.of_grow (b := sendPrim s w c) (by simp [sendPrim]) (Nat.le_refl _) (by simp [sendPrim]) id ?_
        exact ((yieldPt_keep cfg _).trans (incPrim_keep cfg _ w _)).logs.trans (setNext_logs _)
      · exact sendFail_moved s w c

theorem forcedSend_moved (cfg : Cfg) : ∀ (fuel : Nat) (s : St) (c : Conn), Moved s (forcedSend cfg fuel s c) := by
  intro fuel; induction fuel with
  | zero => intro s c; exact Moved.of_fault (Nat.le_refl _) (Nat.le_refl _) rfl
  | succ f ih =>
    intro s c
    simp only [forcedSend]
    have hm := sendConnection_moved cfg s c
    cases hsc : sendConnection cfg s c with
    | mk s1 ok =>
      rw [hsc] at hm; simp only at hm ⊢
      split
      · exact hm
      · exact hm.trans_curR (ih s1 c).curR

/-- **`accept_one` does not return before the connection is dispatched or a dead handle is removed**
(or it ends in a fault) — the cursor steps over unavailable workers only on the way to a dispatch -/
theorem acceptOne_moved (cfg : Cfg) : ∀ (fuel : Nat) (s : St) (c : Conn), Moved s (acceptOne cfg fuel s c) := by
  intro fuel; induction fuel with
  | zero => intro s c; exact Moved.of_fault (Nat.le_refl _) (Nat.le_refl _) rfl
  | succ f ih =>
    intro s c
    simp only [acceptOne]
    split
    · rename_i hf; exact Moved.of_fault (Nat.le_refl _) (Nat.le_refl _) hf
    · split
      · exact Moved.of_fault (Nat.le_refl _) (Nat.le_refl _) rfl
      · rename_i w _
        split
        · have hm := sendConnection_moved cfg s c
          cases hsc : sendConnection cfg s c with
          | mk s1 ok =>
            rw [hsc] at hm; simp only at hm ⊢
            split
            · exact hm
            · exact hm.trans_curR (ih s1 c).curR
        · have hl : Logs s (setNext (setAvail s (s.wk w).idx false)) :=
            (setAvail_keep s _ false).logs.trans (setNext_logs _)
          split
          · exact hl.trans_moved (forcedSend_moved cfg _ _ c)
          · exact hl.trans_moved (ih _ c)

/-! ### the loops: `accept`, `handle_waker`, the event batch, one iteration, op lists -/

theorem accept_curR (cfg : Cfg) : ∀ (fuel : Nat) (s : St) (l : Nat), CurR s (accept cfg fuel s l) := by
  intro fuel; induction fuel with
  | zero => intro s l; exact Keep.curR ⟨rfl, rfl, rfl, fun _ => rfl⟩
  | succ f ih =>
    intro s l
    simp only [accept]
    split
    · exact CurR.refl s
    · split
      · exact CurR.refl s
      · have h0 := yieldPt_keep cfg s
        have h1 := acceptSys_keep (yieldPt cfg s) l
        cases hsys : acceptSys (yieldPt cfg s) l with
        | mk s1 r =>
          rw [hsys] at h1; simp only at h1
          have h01 : CurR s s1 := (h0.trans h1).curR
          cases r with
          | conn c => exact h01.trans ((acceptOne_moved cfg _ s1 c).curR.trans (ih _ l))
          | wouldBlock => exact h01
          | connErr => exact h01.trans (ih s1 l)
          | otherErr =>
            exact h01.trans (Keep.curR (Keep.trans (deregister_keep s1 l) (Keep.trans ⟨rfl, rfl, rfl, id⟩ (setTimeout_keep _ _))))

theorem acceptAllFrom_curR (cfg : Cfg) : ∀ (ls : List Nat) (s : St), CurR s (acceptAllFrom cfg s ls) := by
  intro ls; induction ls with
  | nil => intro s; exact CurR.refl s
  | cons l ls ih => intro s; simp only [acceptAllFrom]; exact (accept_curR cfg _ s l).trans (ih _)

theorem acceptAll_curR (cfg : Cfg) (s : St) : CurR s (acceptAll cfg s) := acceptAllFrom_curR cfg _ s

/-- `handle_waker`: `WorkerAvailable`, `Worker`, `Pause`, `Resume`, `Stop` themselves leave the cursor
alone; it moves only inside the `accept_all` some of them trigger -/
theorem handleWaker_curR (cfg : Cfg) : ∀ (fuel : Nat) (s : St), CurR s (handleWaker cfg fuel s).1 := by
  intro fuel; induction fuel with
  | zero => intro s; exact Keep.curR ⟨rfl, rfl, rfl, fun _ => rfl⟩
  | succ f ih =>
    intro s
    simp only [handleWaker]
    split
    · exact CurR.refl s
    · have h0 := (yieldPt_keep cfg s).curR
      generalize yieldPt cfg s = s0 at h0 ⊢
      cases hwq : s0.wq with
      | nil => exact h0
      | cons i q =>
        simp only
        have hq : Keep s0 { s0 with wq := q } := ⟨rfl, rfl, rfl, id⟩
        cases i with
        | workerAvail idx =>
          simp only
          have h2 : CurR s (wakePrim { s0 with wq := q } idx) := h0.trans (hq.trans (wakePrim_keep _ idx)).curR
          split
          · exact h2.trans ((acceptAll_curR cfg _).trans (ih _))
          · exact h2.trans (ih _)
        | worker w =>
          simp only
          have h2 : CurR s (addWorker { s0 with wq := q } w) := h0.trans (hq.trans (addWorker_keep _ w)).curR
          split
          · exact h2.trans ((acceptAll_curR cfg _).trans (ih _))
          · exact h2.trans (ih _)
        | pause =>
          simp only
          split
          · have h2 : Keep s0 (deregisterAll { s0 with wq := q, paused := true }) :=
              Keep.trans (b := { s0 with wq := q, paused := true }) ⟨rfl, rfl, rfl, id⟩ (deregisterAll_keep _)
            exact h0.trans (h2.curR.trans (ih _))
          · exact h0.trans (hq.curR.trans (ih _))
        | resume =>
          simp only
          split
          · have h2 : Keep s0 (registerAllFrom { s0 with wq := q, paused := false } (List.range s0.nLst)) :=
              Keep.trans (b := { s0 with wq := q, paused := false }) ⟨rfl, rfl, rfl, id⟩ (registerAllFrom_keep _ _)
            exact h0.trans (h2.curR.trans ((acceptAll_curR cfg _).trans (ih _)))
          · exact h0.trans (hq.curR.trans (ih _))
        | stop =>
          simp only
          split
          · exact h0.trans ((hq.trans ((deregisterAll_keep _).trans (cleanupAll_keep _))).curR)
          · exact h0.trans ((hq.trans (cleanupAll_keep _)).curR)

theorem pollEvents_curR (cfg : Cfg) : ∀ (order : List Ev) (s : St), CurR s (pollEvents cfg s order).1 := by
  intro order; induction order with
  | nil => intro s; exact CurR.refl s
  | cons e es ih =>
    intro s
    simp only [pollEvents]
    cases e with
    | waker =>
      simp only
      have hw := handleWaker_curR cfg (wakerFuel s) s
      cases hhw : handleWaker cfg (wakerFuel s) s with
      | mk s1 ex =>
        rw [hhw] at hw; simp only at hw ⊢
        split
        · exact hw
        · exact hw.trans (ih s1)
    | listener l => exact (accept_curR cfg _ s l).trans (ih _)

theorem pollFinish_keep (r : St × Bool) : Keep r.1 (pollFinish r) := by
  unfold pollFinish; split
  · exact ⟨rfl, rfl, rfl, id⟩
  · exact Keep.trans (processTimeout_keep r.1) ⟨rfl, rfl, rfl, id⟩

theorem poll_curR (cfg : Cfg) (s : St) (order : List Ev) (sched : List (List EnvAct)) :
    CurR s (poll cfg s order sched) := by
  unfold poll; split
  · exact CurR.refl s
  · have h1 : Keep s (clearEdges { s with sched := sched, yields := 0 }) :=
      Keep.trans (b := { s with sched := sched, yields := 0 }) ⟨rfl, rfl, rfl, id⟩ (clearEdges_keep _)
    exact h1.curR.trans ((pollEvents_curR cfg order _).trans (pollFinish_keep _).curR)

theorem step_curR (cfg : Cfg) (s : St) (op : Op) : CurR s (step cfg s op) := by
  cases op with
  | env a => exact (runEnv_keep cfg [a] s).curR
  | poll order sched => exact poll_curR cfg s order sched
  | finishW2 w c order =>
    simp only [step]
    have h1 : Keep s { (envStep cfg s (.finish w c)).1 with acts := (envStep cfg s (.finish w c)).1.acts ++ [(envStep cfg s (.finish w c)).2] } :=
      (envStep_keep cfg s (.finish w c)).trans ⟨rfl, rfl, rfl, id⟩
    split
    · exact h1.curR.trans ((poll_curR cfg _ order []).trans (runEnv_keep cfg _ _).curR)
    · exact h1.curR

theorem run_curR (cfg : Cfg) : ∀ (ops : List Op) (s : St), CurR s (run cfg s ops) := by
  intro ops; induction ops with
  | nil => intro s; exact CurR.refl s
  | cons op ops ih => intro s; simp only [run]; exact (step_curR cfg s op).trans (ih _)

theorem run_cat (cfg : Cfg) : ∀ (ops1 ops2 : List Op) (s : St), run cfg s (ops1 ++ ops2) = run cfg (run cfg s ops1) ops2 := by
  intro ops1; induction ops1 with
  | nil => intro ops2 s; rfl
  | cons op ops ih => intro ops2 s; simp only [List.cons_append, run]; exact ih ops2 _

/-- the two append-only logs never shrink, over any op list (no assumption on the start state) -/
theorem run_logs_mono (cfg : Cfg) (ops : List Op) (s : St) :
    s.dispatched.length ≤ (run cfg s ops).dispatched.length ∧ s.faultedLog.length ≤ (run cfg s ops).faultedLog.length :=
  ⟨(run_curR cfg ops s).1, (run_curR cfg ops s).2.1⟩

end ActixNet.Srv
