import ActixNet.Lemmas.ServiceFac
/-!
# Glue for the C11 / C12 property statements: the observable run of a call / of a factory
-/
namespace ActixNet.Service

/-- what the harness observes for `call req`: the call, then the manual executor with `n` polls of
fuel and waker identities `w, w+1, …`: (result, event log, waker of the last poll) -/
def run (n : Nat) (s : Svc) (req w : Nat) : Option Res × List Evt × Nat :=
  ((drive n (call s req).1 w).1, (call s req).2 ++ (drive n (call s req).1 w).2.1, (drive n (call s req).1 w).2.2)

theorem run_eq (n : Nat) (s : Svc) (req w : Nat) (hn : pendOf s req < n) :
    run n s req w = (some (eval s req), refLog s req w, w + pendOf s req) := by
  have hd := call_drive s req w n hn
  have hc := call_spec s req w
  simp only [run, hd, hc.2.2.2]

/-- what the harness observes for `fac f cfg` -/
def facRun (n : Nat) (f : Fac) (cfg w : Nat) : Option IRes × List Evt × Nat :=
  ((idrive n (newService f cfg).1 w).1, (newService f cfg).2 ++ (idrive n (newService f cfg).1 w).2.1,
   (idrive n (newService f cfg).1 w).2.2)

theorem quiet_not_repoll (e : Evt) (h : quiet e = true) : isRepoll e = false := by
  cases e <;> simp_all [quiet, isRepoll]

theorem newService_log_not_repoll (f : Fac) (cfg : Nat) : ∀ e ∈ (newService f cfg).2, isRepoll e = false := by
  induction f generalizing cfg with
  | leaf id ip iok uc s => cases uc <;> simp [newService, isRepoll]
  | fnSvc => simp [newService]
  | map a f ih => simpa [newService] using ih cfg
  | mapErr a f ih => simpa [newService] using ih cfg
  | mapInitErr a f ih => simpa [newService] using ih cfg
  | andThen a b iha ihb =>
    intro e he; simp only [newService, List.mem_append] at he
    rcases he with he | he
    · exact iha cfg e he
    · exact ihb cfg e he
  | applyFn a kind k ih => simpa [newService] using ih cfg
  | transform t tp tok mie a ih => simpa [newService] using ih cfg
  | applyCfg s f ip iok => simp [newService, isRepoll]
  | applyCfgFac a f ip iok ih => simpa [newService] using ih 0
  | mapConfig a f ih => have := ih (mapFn f cfg); simp [newService, isRepoll]; exact this
  | unitConfig a ih => simpa [newService] using ih 0
  | boxed a ih => simpa [newService] using ih cfg
  | rc a ih => simpa [newService] using ih cfg
  | reenter k a ih =>
    have := ih (reReq cfg)
    intro e he; simp only [newService, List.mem_append] at he
    rcases he with he | he
    · simp only [freEvts] at he; split at he <;> simp at he <;> (rcases he with rfl | rfl <;> rfl) <;> (subst he; rfl)
    · exact this e he

/-! ## Wake-ups (C12): a `Pending` answer of a combinator is backed by an inner `Pending` answer given
to the *current* waker.  The scripted leaves park the waker they are polled with whenever they answer
`Pending`, so such an event is exactly "a wake-up of the task has been arranged". -/


/-- an inner future / service answered `Pending` to waker `w` (this is where the scripted leaves park
the waker: the wake-up of the task is arranged), or a completed one was polled again -/
def isPendingFor (w : Nat) : Evt → Bool
  | .polled _ w' none => w' == w
  | .ipolled _ w' none => w' == w
  | .rdy _ w' .pending => w' == w
  | .repoll _ w' => w' == w
  | .irepoll _ w' => w' == w
  | _ => false

def WakeObs (w : Nat) (pending : Bool) (l : List Evt) : Prop :=
  (pending = true → ∃ e ∈ l, isPendingFor w e = true) ∧
  (∀ e ∈ l, evtWaker e = none ∨ evtWaker e = some w)

theorem wakeObs_append (w : Nat) (p1 p2 p : Bool) (l1 l2 : List Evt)
    (h1 : WakeObs w p1 l1) (h2 : WakeObs w p2 l2) (hp : p = true → p1 = true ∨ p2 = true) :
    WakeObs w p (l1 ++ l2) := by
  simp only [WakeObs, List.mem_append] at *
  grind

theorem wakeObs_quietTail (w : Nat) (p : Bool) (l l2 : List Evt) (h1 : WakeObs w p l)
    (h2 : ∀ e ∈ l2, evtWaker e = none) : WakeObs w p (l ++ l2) := by
  simp only [WakeObs, List.mem_append] at *
  grind

def RWake (s : Svc) (w : Nat) : Prop :=
  WakeObs w (decide ((pollReady s w).2.1 = .pending)) (pollReady s w).2.2

theorem pollReady_wake (s : Svc) (w : Nat) : RWake s w := by
  fun_induction pollReady s w
  case case1 => simp [RWake, WakeObs, pollReady, isPendingFor, evtWaker]
  case case2 => simp [RWake, WakeObs, pollReady, isPendingFor, evtWaker]
  case case3 => simp [RWake, WakeObs, pollReady, isPendingFor, evtWaker]
  case case4 => simp [RWake, WakeObs, pollReady]
  case case9 =>
    rename_i a b w a' ra la hne hx b' e lb hxb iha ihb
    simp only [RWake] at iha ihb ⊢; rw [pollReady]; simp only [hx, hxb]; rw [hx] at iha; rw [hxb] at ihb
    simp only at iha ihb ⊢
    exact wakeObs_append w _ _ _ _ _ iha ihb (by simp)
  case case10 =>
    rename_i a b w a' ra la hne hx b' rb lb hneb hxb iha ihb
    simp only [RWake] at iha ihb ⊢; rw [pollReady]; simp only [hx, hxb]; rw [hx] at iha; rw [hxb] at ihb
    simp only at iha ihb ⊢
    apply wakeObs_append w _ _ _ _ _ iha ihb
    cases ra <;> cases rb <;> first | exact (hne _ rfl).elim | exact (hneb _ rfl).elim | simp
  all_goals
    rename_i hx ih
    simp only [RWake] at ih ⊢; rw [pollReady]; simp only [hx]; rw [hx] at ih
    simp only [WakeObs] at ih ⊢
    simp at ih ⊢
    grind [evtWaker]

def IObsOf (w : Nat) (out : IFut × Option IRes × List Evt) : Prop :=
  WakeObs w (decide (out.2.1 = none)) out.2.2

theorem pollLeafI_obs (id p : Nat) (r : IRes) (fin : Bool) (w : Nat) : IObsOf w (pollLeafI id p r fin w) := by
  cases fin <;> cases p <;> simp [IObsOf, WakeObs, pollLeafI, isPendingFor, evtWaker]

theorem pollTrans_obs (t tp : Nat) (r : IRes) (mie : Option Nat) (w : Nat) : IObsOf w (pollTrans t tp r mie w) := by
  cases mie <;> cases tp <;> cases r <;> simp [IObsOf, WakeObs, pollTrans, pollLeafI, isPendingFor, evtWaker]

theorem cfgBStep_obs (svc : Svc) (f ip : Nat) (iok : Bool) (cfg w : Nat) : IObsOf w (cfgBStep svc f ip iok cfg w) := by
  have h := pollReady_wake svc w
  simp only [RWake] at h
  simp only [cfgBStep]
  rcases hx : pollReady svc w with ⟨svc', r, l⟩
  rw [hx] at h
  cases r with
  | pending => simpa [IObsOf] using h
  | err e => simp only [IObsOf, WakeObs] at h ⊢; simp at h ⊢; exact h
  | ok =>
    have hl := pollLeafI_obs f ip (cfgRes svc' f iok cfg) false w
    rcases hp : pollLeafI f ip (cfgRes svc' f iok cfg) false w with ⟨fu, r2, l2⟩
    rw [hp] at hl
    simp only [IObsOf, WakeObs] at h hl ⊢
    simp at h hl ⊢
    grind [evtWaker]

def IObs (fu : IFut) (w : Nat) : Prop := IObsOf w (ipoll fu w)

theorem ipoll_obs (fu : IFut) (w : Nat) : IObs fu w := by
  fun_induction ipoll fu w
  case case1 => rename_i id p r fin w; simp only [IObs, ipoll]; exact pollLeafI_obs id p r fin w
  case case2 => simp [IObs, IObsOf, WakeObs, ipoll]
  case case3 => simp [IObs, IObsOf, WakeObs, ipoll, isPendingFor, evtWaker]
  case case21 => simp [IObs, IObsOf, WakeObs, ipoll, joinDone]
  case case29 => rename_i svc f ip iok cfg w; simp only [IObs, ipoll]; exact cfgBStep_obs svc f ip iok cfg w
  case case24 =>
    rename_i fu0 t tp tok mie w fst s l hx fu r l2 hp ih
    have hl := pollTrans_obs t tp (transRes s t tok) mie w
    rw [hp] at hl
    simp only [IObs, IObsOf, WakeObs] at ih hl ⊢; rw [ipoll]; simp only [hx, hp]; rw [hx] at ih
    simp at ih hl ⊢
    grind [evtWaker]
  case case28 =>
    rename_i fu0 f ip iok cfg w fst s l hx fu r l2 hp ih
    have hl := cfgBStep_obs s f ip iok cfg w
    rw [hp] at hl
    simp only [IObs, IObsOf, WakeObs] at ih hl ⊢; rw [ipoll]; simp only [hx, hp]; rw [hx] at ih
    simp at ih hl ⊢
    grind [evtWaker]
  case case14 =>
    rename_i fa fb w fa' e la hxa iha
    simp only [IObs, IObsOf, WakeObs] at iha ⊢; rw [ipoll]; simp only [hxa]; rw [hxa] at iha
    simp at iha ⊢; exact iha
  case case15 =>
    rename_i fa fb w fa' ra la hnea hxa fb' e lb hxb iha ihb
    simp only [IObs, IObsOf, WakeObs] at iha ihb ⊢; rw [ipoll]; simp only [hxa, hxb]; rw [hxa] at iha; rw [hxb] at ihb
    simp at iha ihb ⊢; grind
  case case16 =>
    rename_i fa fb w fa' ra la hnea hxa fb' rb lb hneb hxb iha ihb
    simp only [IObs, IObsOf, WakeObs] at iha ihb ⊢; rw [ipoll]; simp only [hxa, hxb]; rw [hxa] at iha; rw [hxb] at ihb
    rcases ra with _ | (sa | ea) <;> rcases rb with _ | (sb | eb) <;>
      simp [joinDone, svcOf] at hnea hneb iha ihb ⊢ <;> grind
  case case17 =>
    rename_i fa fb sa w fb' e lb hxb ihb
    simp only [IObs, IObsOf, WakeObs] at ihb ⊢; rw [ipoll]; simp only [hxb]; rw [hxb] at ihb
    simp at ihb ⊢; exact ihb
  case case18 =>
    rename_i fa fb sa w fb' rb lb hneb hxb ihb
    simp only [IObs, IObsOf, WakeObs] at ihb ⊢; rw [ipoll]; simp only [hxb]; rw [hxb] at ihb
    rcases rb with _ | (sb | eb) <;> simp [joinDone, svcOf] at hneb ihb ⊢ <;> grind
  case case19 =>
    rename_i fa fb sb w fa' e la hxa iha
    simp only [IObs, IObsOf, WakeObs] at iha ⊢; rw [ipoll]; simp only [hxa]; rw [hxa] at iha
    simp at iha ⊢; exact iha
  case case20 =>
    rename_i fa fb sb w fa' ra la hnea hxa iha
    simp only [IObs, IObsOf, WakeObs] at iha ⊢; rw [ipoll]; simp only [hxa]; rw [hxa] at iha
    rcases ra with _ | (sa | ea) <;> simp [joinDone, svcOf] at hnea iha ⊢ <;> grind
  all_goals
    rename_i hx ih
    simp only [IObs, IObsOf, WakeObs] at ih ⊢; rw [ipoll]; simp only [hx]; rw [hx] at ih
    simp at ih ⊢
    grind [evtWaker]

/-! ## The readiness gate of `apply_cfg_factory` (state B) -/

def isCfgFn : Evt → Bool
  | .cfgFn .. => true
  | _ => false

theorem pollReady_no_cfgFn (s : Svc) (w : Nat) : ∀ e ∈ (pollReady s w).2.2, isCfgFn e = false := by
  fun_induction pollReady s w <;> simp_all [isCfgFn] <;> grind [isCfgFn]

/-- one step of state B: the closure is invoked iff the created service answered `Ready(Ok)` in this
very poll; a readiness error is the init error; `Pending` keeps the future pending -/
theorem cfgBStep_gate (svc : Svc) (f ip : Nat) (iok : Bool) (cfg w : Nat) :
    (∀ e, (pollReady svc w).2.1 = .err e →
        (cfgBStep svc f ip iok cfg w).2.1 = some (.err e) ∧
        ∀ ev ∈ (cfgBStep svc f ip iok cfg w).2.2, isCfgFn ev = false) ∧
    ((pollReady svc w).2.1 = .pending →
        (cfgBStep svc f ip iok cfg w).2.1 = none ∧
        ∀ ev ∈ (cfgBStep svc f ip iok cfg w).2.2, isCfgFn ev = false) ∧
    ((pollReady svc w).2.1 = .ok → Evt.cfgFn f cfg ∈ (cfgBStep svc f ip iok cfg w).2.2) := by
  have hq := pollReady_no_cfgFn svc w
  simp only [cfgBStep]
  rcases hx : pollReady svc w with ⟨svc', r, l⟩
  rw [hx] at hq
  cases r <;> simp at hq ⊢
  · exact hq
  · exact hq

end ActixNet.Service
