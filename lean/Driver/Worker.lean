import ActixNet.Model.Worker
import ActixNet.Model.ServerCmd
import Driver.Util
/-! Engine `worker`: line protocol for the `ServerWorker::poll` model (`ActixNet.Worker`), C06/C07. -/
namespace Driver.Worker
open ActixNet ActixNet.Worker Driver

structure State where
  s : St := { n := 0, svc := fun _ => {}, timeout := 0 }
  started : Bool := false
  limit : Option Nat := none   -- `max_concurrent_connections`, when the case sets one (then `wq=` is reported)

def init : State := {}

def kv (ws : List String) (key : String) : Option String :=
  ws.findSome? fun w => if w.startsWith (key ++ "=") then some ((w.drop (key.length + 1)).toString) else none

def parseScript (t : String) : Option (List Rd) :=
  if t == "." then some [] else
  t.toList.mapM fun c => if c == 'R' then some Rd.ready else if c == 'P' then some Rd.pending else if c == 'E' then some Rd.err else none

/-- `<fpend><+|-><script>` -/
def parseInc (t : String) : Option Inc :=
  let ds := t.toList.takeWhile Char.isDigit
  match t.toList.drop ds.length with
  | sg :: rest =>
    if ds.isEmpty then none else
    match (String.ofList ds).toNat?, parseScript (String.ofList rest) with
    | some k, some sc => if sg == '+' then some { fpend := k, fok := true, script := sc } else if sg == '-' then some { fpend := k, fok := false, script := sc } else none
    | _, _ => none
  | [] => none

def parseSvc (t : String) : Option Svc :=
  match t.splitOn "/" with
  | [] => none
  | sc :: incs =>
    match parseScript sc, incs.mapM parseInc with
    | some sc, some is => some { script := sc, future := is }
    | _, _ => none

def parseSvcs (ws : List String) (n : Nat) : Option (List Svc) :=
  (List.range n).mapM fun i => match kv ws s!"s{i}" with
    | some t => parseSvc t
    | none => some {}

def bit (b : Bool) : String := if b then "1" else "0"

def showRd : Rd → String | .ready => "R" | .pending => "P" | .err => "E"
def showFac : FacRes → String | .pending => "P" | .ok => "O" | .err => "E"

def showEv : Ev → Option String
  | .pollReady i inc r => some s!"r{i}.{inc}{showRd r}"
  | .call tok inc c => some s!"c{tok}.{inc}#{c.1}"
  | .createService i => some s!"n{i}"
  | .facPoll i r => some s!"f{i}{showFac r}"
  | _ => none

def replyOf : Ev → Option (Nat × String)
  | .reply k b => some (k, s!"{k}:{bit b}")
  | .replyGone k => some (k, s!"{k}:x")
  | _ => none

def closedOf : Ev → Option Nat
  | .released c => some c.1
  | .dropped c => some c.1
  | _ => none

def insertBy (x : Nat × String) : List (Nat × String) → List (Nat × String)
  | [] => [x]
  | y :: t => if x.1 ≤ y.1 then x :: y :: t else y :: insertBy x t

def showFault : Fault → String
  | .fuel => "spin" | .factoryErr => "panic" | .badToken => "panic" | .underflow => "panic"

def pollObs (old new : St) : String :=
  let evs := new.log.drop old.log.length
  let ev := ",".intercalate (evs.filterMap showEv)
  match new.fault with
  | some f => s!"ev=[{ev}] ret={showFault f}"
  | none =>
    let reps := (evs.filterMap replyOf).foldr insertBy []
    let closed := (evs.filterMap closedOf).mergeSort
    s!"ev=[{ev}] ret={if new.finished then "D" else "P"} replies=[{",".intercalate (reps.map (·.2))}] " ++
    s!"closed=[{",".intercalate (closed.map toString)}] raw={new.raw}"

/-! ### server level (C06): `ServerCmd` for the command loop, `Worker.replyTime` for each worker -/

def parseHolds (t : String) : Option (List (Option Nat)) :=
  if t == "-" then some [] else
  (t.splitOn ",").mapM fun x => if x == "n" then some none else x.toNat?.map some

/-- the connections of worker `w` when `holds` are dispatched round-robin over `workers` workers -/
def holdsOf (holds : List (Option Nat)) (workers w : Nat) : List (Option Nat) :=
  (holds.zipIdx.filter fun p => p.2 % workers == w).map (·.1)

/-- what the model says about a server-level scenario: which futures resolve (`ServerCmd`), and that
the completion is neither early nor late (`Worker.replyTime`: never before every connection of a
worker has ended unless the timeout elapsed, never after the bound) -/
def srvObs (ws : List String) : String :=
  if kv ws "skip" == some "ports" then "skipped" else
  let workers := ((kv ws "workers").bind (·.toNat?)).getD 1
  -- `timeout=default`: the builder's `shutdown_timeout` is never called; the property speaks of the documented 30 s
  -- (that the source still says so: `C06.default_shutdown_timeout_is_30s`)
  let isDefault := kv ws "timeout" == some "default"
  -- seconds, anything a u64 holds (`max` = u64::MAX, "never force"); in the model the time-out is a natural number: nothing overflows
  let tmo : Option Nat := match kv ws "timeout" with
    | none => some 1
    | some "default" => some 30
    | some "max" => some 18446744073709551615
    | some t => if !t.isEmpty && t.length ≤ 20 && t.all Char.isDigit then
        t.toNat?.bind fun n => if n ≤ 18446744073709551615 then some n else none else none
  let lstOk := (match kv ws "lst" with | none => true | some l => l == "tcp" || l == "uds" || l == "udsl" || l == "udsa") &&
    (match kv ws "sysexit" with | none => true | some v => v == "1")
  -- `calls=<setter>,…`: the builder's setters in the order they are called; each changes its own setting only, so the order and
  -- the other setters do not matter to the prediction (`timeout` occurs iff a time-out is configured)
  let callsOk := match kv ws "calls" with
    | none => true
    | some t =>
      let cs := t.splitOn ","
      cs.all (fun c => c == "timeout" || c == "blocking" || c == "limit" || c == "backlog") && cs.length ≤ 6 &&
        (cs.filter (· == "timeout")).length == (if isDefault then 0 else 1)
  -- `block=1` (forced stop, at least one connection): the handlers keep their worker threads busy; a forced stop awaits no worker
  -- (`forced_does_not_wait_server`), so nothing changes in the prediction
  let blockOk := match kv ws "block" with
    | none => true
    | some v => v == "1" && kv ws "mode" == some "f" && (match (kv ws "holds").bind parseHolds with | some (_ :: _) => true | _ => false)
  match tmo, lstOk && callsOk && blockOk with
  | none, _ | _, false => "bad-op"
  | some timeout, true =>
  let mode : Option Bool := match kv ws "mode" with | some "g" => some true | some "f" => some false | _ => none
  -- further stop() calls (each `gap2` ms after the previous one): in the channel behind the first `Stop`
  let second : Option (List Bool) := match kv ws "second" with
    | none => some []
    | some t => (t.splitOn ",").mapM fun x => match x with | "g" => some true | "f" => some false | _ => none
  let gap2 : Option Nat := match kv ws "gap2" with | none => some 0 | some g => g.toNat?
  match mode, (kv ws "holds").bind parseHolds, second, gap2 with
  | some g, some holds, some second, some gap2 =>
    if workers == 0 || workers > 64 || holds.length > 64 || second.length > 4 || gap2 > 5000 || (!isDefault && timeout > 10 && holds.any (·.isNone)) then "bad-op" else
    let dropFut := kv ws "drop" == some "1"
    let paused := kv ws "paused" == some "1"
    let calls : List ServerCmd.Call := (if paused then [.pause] else []) ++ [.stop g] ++ second.map .stop
    let run := ServerCmd.serve ServerCmd.srcWakeFirst workers calls
    let stopAck := if paused then 1 else 0
    let T := timeout * 1000
    -- per worker: reply time and the lower bound the property gives (all its connections ended, or the timeout)
    let replies := (List.range workers).map fun w => Worker.replyTime T 0 (holdsOf holds workers w)
    let early := g && (List.range workers).any fun w =>
      let fin := holdsOf holds workers w
      let r := Worker.replyTime T 0 fin
      Worker.unfinished fin r.1 != 0 && r.1 < T
    let bound := Src.wkTickFirstMs + ((T + Src.wkTickNextMs - 1) / Src.wkTickNextMs) * Src.wkTickNextMs
    let late := replies.any fun r => r.1 > bound
    let stop := if dropFut then "dropped" else if run.log.contains (.ack stopAck) then "resolved" else "never"
    let server := if run.returned then "resolved" else "never"
    let sec := if second.isEmpty then "-" else
      if (List.range second.length).all fun i => run.log.contains (.ack (stopAck + 1 + i)) || run.log.contains (.ackDropped (stopAck + 1 + i))
      then "resolved" else "never"
    -- `late=g|f`: one more stop() after `run` has returned (`ServerCmd.lateCall`)
    let lateStop : Option String := match kv ws "late" with
      | none => some ""
      | some l => if l == "g" || l == "f" then
          let y := ServerCmd.calls {} calls
          let evs := ServerCmd.lateCall y (.stop (l == "g"))
          some (if !run.returned then " late-stop=unknown" else if evs.contains (.ackDropped y.nextAck) then " late-stop=resolved" else " late-stop=never")
        else none
    -- `flood=N` (paused, a unix listener): the accept thread is busy when it is told to stop; the completion comes after the
    -- accept thread was joined (`no_dispatch_after_completion`): a connect right after it is refused
    let flood : Option Nat := match kv ws "flood" with | none => some 0 | some f => f.toNat?
    let floodOk := match flood with
      | none => false
      | some f => f ≤ 2000 && (f == 0 || (paused && !dropFut && (match kv ws "lst" with | some l => l != "tcp" | none => false)))
    match lateStop, floodOk with
    | none, _ | _, false => "bad-op"
    | some ls, true =>
      let probe := if flood.getD 0 > 0 then (if run.log.contains .joinAccept then " probe=refused" else " probe=connected") else ""
      s!"stop={stop} server={server} second={sec} early={bit early} late={bit late} after=none{ls}{probe}"
  | _, _, _, _ => "bad-op"

/-- `gate` scenarios (a service whose readiness is switched while the worker is idle), predicted with the
`Worker` model: one service answering Ready for the first connection and the sweep after it, then
Pending (until the gate is opened) or Err (once); the calls, as (instance, readiness at the call) -/
def gateObs (ws : List String) : String :=
  if kv ws "skip" == some "ports" then "skipped" else
  -- `kind=fail2`: the re-created instance answers its very first readiness check with Err as well: re-created again, never called
  let fail2 := kv ws "kind" == some "fail2"
  -- `kind=driver`: the service becomes ready through a task its factory spawned: for the worker it is a service that is
  -- Pending and then Ready (as `pending`); `lst=uds` / `sys=1`: another listener / host, the same worker
  let driver := kv ws "kind" == some "driver"
  let kind : Option Bool := match kv ws "kind" with | some "pending" => some false | some "driver" => some false | some "fail" => some true | some "fail2" => some true | _ => none
  let hostOk := (match kv ws "lst" with | none => true | some l => l == "tcp" || (l == "uds" && (kv ws "listeners").isNone)) &&
    (match kv ws "sys" with | none => true | some v => v == "1") && !(driver && (kv ws "stop").isSome)
  -- `burst=N` (kind=pending, no stop): N further connections queued while the service is Pending: all are served when it is ready
  let burst : Option Nat := match kv ws "burst" with
    | none => some 0
    | some n => match n.toNat? with
      | some n => if 1 ≤ n && n ≤ 200 && n.repr.length ≤ 9 && kv ws "kind" == some "pending" && (kv ws "stop").isNone && (kv ws "burst").all (·.length ≤ 9) then some n else none
      | none => none
  if burst.isNone then "bad-op" else
  if !hostOk then "bad-op" else
  if burst.getD 0 > 0 then
    (if (match kv ws "lst" with | some "uds" => (kv ws "listeners").isSome | _ => false) then "bad-op" else
     s!"first=1 burst={burst.getD 0 + 1}/{burst.getD 0 + 1}") else
  -- `listeners=N at=K`: the gated service is the one of listener K of N: its own index, token and factory (no effect here)
  let lstOk := match kv ws "listeners", kv ws "at" with
    | none, none => true
    | some n, some k => (match n.toNat?, k.toNat? with
      | some n, some k => k < n && n ≤ 400 && (kv ws "listeners").all (·.length ≤ 9) && (kv ws "at").all (·.length ≤ 9)
      | _, _ => false)
    | _, _ => false
  if !lstOk then "bad-op" else
  match kind with
  | none => "bad-op"
  | some fail =>
    -- `stop=f|g` (kind=pending): the server is stopped while the second connection is queued at the worker and the service
    -- still Pending: the worker releases it (forced: it ends at once; graceful: the drain of the Shutdown arm), no call
    let stopMode : Option (Option Bool) := match kv ws "stop" with
      | none => some none | some "f" => if fail then none else some (some false) | some "g" => if fail then none else some (some true) | _ => none
    match stopMode with
    | none => "bad-op"
    | some (some g) =>
      let script : List Rd := [.ready, .ready, .ready] ++ List.replicate 12 .pending
      let s0 := ActixNet.Worker.init { n := 1, timeout := 30000, svcs := fun _ => { script := script } }
      let s1 := ActixNet.Worker.run s0 [.conn 0, .poll 1000, .finish 0, .conn 0, .poll 1000, .poll 1000, .stop g, .poll 1000, .advance 1000, .poll 1000]
      let calls := s1.log.filterMap fun e => match e with | .call _ inc _ => some s!"{inc + 1}R" | _ => none
      let run := ServerCmd.serve ServerCmd.srcWakeFirst 1 [.stop g]
      s!"calls={",".intercalate calls} answers=1- stop={if run.returned then "resolved" else "never"} released={bit (s1.finished && s1.queue.isEmpty)} called-after={calls.length - 1}"
    | some none =>
    let script : List Rd := [.ready, .ready, .ready, if fail then .err else .pending]
    let future : List ActixNet.Worker.Inc := if fail2 then [{ script := [.err] }, {}] else []
    let s0 := ActixNet.Worker.init { n := 1, timeout := 0, svcs := fun _ => { script := script, future := future } }
    let s1 := ActixNet.Worker.run s0 [.conn 0, .poll 1000, .conn 0, .poll 1000, .poll 1000]
    let calls := s1.log.filterMap fun e => match e with | .call _ inc _ => some s!"{inc + 1}R" | _ => none
    let answers := String.join (s1.log.filterMap fun e => match e with | .call _ inc _ => some (toString (inc + 1)) | _ => none)
    let failed := s1.log.filterMap fun e => match e with | .pollReady _ inc .err => some (toString (inc + 1)) | _ => none
    s!"calls={",".intercalate calls} answers={answers}" ++ (if fail2 then s!" failed={",".intercalate failed}" else "")

/-- `fault` scenario (a worker dies, its service is slow to tear down): what C08/C01 demand — the killing
connection gets no answer, every later one is answered by a live worker, the replacement rejoins -/
def faultObs (ws : List String) : String :=
  if kv ws "skip" == some "ports" then "skipped" else
  let gapOk := match kv ws "gap" with
    | none => true
    | some g => match g.toNat? with | some g => g ≤ 1500 | none => false
  -- `stop=1`: a connection is then held on the replacement worker and a graceful stop issued: the command loop
  -- (`ServerCmd`) stops every current worker, the replacement included, and the stop does not complete early
  let withStop : Option Bool := match kv ws "stop" with | none => some false | some "1" => some true | _ => none
  let faults : Option Nat := match kv ws "faults" with | none => some 1 | some "1" => some 1 | some "2" => some 2 | _ => none
  let limit : Option (Option Nat) := match kv ws "limit" with
    | none => some none
    | some l => match l.toNat? with | some l => if 1 ≤ l && l ≤ 4 then some (some l) else none | none => none
  let workers : Option Nat := match kv ws "workers" with | none => some 2 | some "1" => some 1 | some "2" => some 2 | _ => none
  -- `pair=1`: at the end one connection per worker, opened and held at the same time: every worker — the replacements
  -- have the index of the worker they replace (`.restartWorker idx`, `.wake (.worker idx)`) — takes one;
  -- `dropsrv=1`: the Server future is dropped before the fault: no command loop, nobody restarts anything; the accept thread
  -- and the live worker go on (C08: the accept thread never dies, the discovering connection is re-routed)
  let pair : Option Bool := match kv ws "pair" with | none => some false | some "1" => some true | _ => none
  let dropsrv : Option Bool := match kv ws "dropsrv" with | none => some false | some "1" => some true | _ => none
  -- `kill=`: how the first worker dies (a panic in `call` / in `poll_ready` / a failed re-creation): found and replaced all the same;
  -- `busystop=1`: a dead worker nobody has noticed, a connection in progress on the live one, graceful stop: every worker is
  -- awaited (`graceful_waits_server`; the dead one's receiver resolves at once, `join_all` waits for the other);
  -- `hold=1`: the only worker dies saturated, its connections die with it, the release gets it found and replaced
  let kill : Option Nat := match kv ws "kill" with | none => some 0 | some "call" => some 0 | some "ready" => some 1 | some "restart" => some 2 | _ => none
  let busy : Option Bool := match kv ws "busystop" with | none => some false | some "1" => some true | _ => none
  let hold : Option Bool := match kv ws "hold" with | none => some false | some "1" => some true | _ => none
  -- `sat=1`: a saturated live worker, a dead worker marked available: the next connection is handed to the live one (C01)
  let sat : Option Bool := match kv ws "sat" with | none => some false | some "1" => some true | _ => none
  -- `signals=1`: signals enabled — the command loop is the same; `pausedrep=1`: the replacement arrives while the accept loop is
  -- paused and is in the rotation after resume
  let sigs : Option Bool := match kv ws "signals" with | none => some false | some "1" => some true | _ => none
  let prep : Option Bool := match kv ws "pausedrep" with | none => some false | some "1" => some true | _ => none
  let sysOk := (match kv ws "sys" with | none => true | some v => v == "1") && (match kv ws "facfail" with | none => true | some v => v == "1")
  if !sysOk then "bad-op" else
  let ff := kv ws "facfail" == some "1"
  -- `victim=last`: the first fault hits the worker in the last handle slot (instance 2): the window connections are answered by instance 1
  let victim : Option Bool := match kv ws "victim" with | none => some false | some "first" => some false | some "last" => some true | _ => none
  if victim.isNone then "bad-op" else
  let vl := victim == some true
  match sigs, prep with
  | none, _ | _, none => "bad-op"
  | some _, some pp =>
  match kill, busy, hold, sat with
  | none, _, _, _ | _, none, _, _ | _, _, none, _ | _, _, _, none => "bad-op"
  | some kl, some bs, some hd, some sa =>
  match gapOk, withStop, faults, limit, workers, pair, dropsrv with
  | true, some st, some fl, some lim, some wk, some pr, some ds =>
    let exact := lim.isNone && wk == 2
    if vl && (!exact || kl != 0 || fl != 1 || pr || ds || bs || hd || sa || pp || ff) then "bad-op" else
    if ff && (!exact || kl != 0 || fl != 1 || st || pr || ds || bs || hd || sa || pp) then "bad-op" else
    if ff then
      -- the first restart attempt fails (`ServerCmd.serveFailing … 0`): logged, the loop goes on; the next fault is replaced
      let run := ServerCmd.serveFailing ServerCmd.srcWakeFirst 2 0 [.faulted 0, .faulted 1]
      s!"before=12 killed=- restart-failed={bit (run.log.contains (.restartFailed 0))} server-running={bit (!run.returned && !run.panicked)} killed2=- replaced2={bit (run.log.contains (.restartWorker 1))} later2-all-served=1" else
    if pp && (wk != 2 || lim != some 1 || kl != 0 || fl != 1 || st || pr || ds || bs || hd || sa) then "bad-op" else
    if pp then
      let run := ServerCmd.serve ServerCmd.srcWakeFirst 2 [.faulted 0, .pause, .resume]
      s!"killed=- replaced={bit (run.log.contains (.restartWorker 0))} paused={bit (run.log.contains (.ack 0))} resumed={bit (run.log.contains (.ack 1))} pair=2/2" else
    if sa && (wk != 2 || lim != some 1 || kl != 0 || fl != 1 || st || pr || ds || bs || hd) then "bad-op" else
    if sa then "held=1 killed=- next-served=1" else
    if (st && (!exact || pr)) || (ds && (!exact || st || pr || fl != 1 || kl != 0))
       || (bs && (!exact || st || pr || ds || fl != 1 || kl != 0))
       || (hd && (wk != 1 || lim != some 1 || kl != 1 || fl != 1 || st || pr || ds || bs)) then "bad-op" else
    if ds then "before=12 dropped=1 killed=- later-all-served=1" else
    if hd then
      let run := ServerCmd.serve ServerCmd.srcWakeFirst 1 [.faulted 0]
      s!"held=1 died=1 next-served=1 replaced={bit (run.log.contains (.restartWorker 0))}" else
    if bs then
      let run := ServerCmd.serve ServerCmd.srcWakeFirst 2 [.stop true]
      let waited := (List.range 2).all fun w => run.log.contains (.awaitWorker w)
      s!"before=12 killed=- held=2 stop={if run.returned then "resolved" else "never"} early={bit (!waited)}" else
    -- every fault is reported once and the replacement comes up (C08 `restart_creates_replacement`, `replacement_rejoins`):
    -- the command loop handles one `WorkerFaulted` per fault and keeps a handle for every index
    let run := ServerCmd.serve ServerCmd.srcWakeFirst wk ((List.replicate fl (ServerCmd.Call.faulted 0)) ++ (if st then [.stop true] else []))
    let restarts := (run.log.filter fun e => e == .restartWorker 0).length
    let second := if fl == 2 then s!" killed2=- replaced2={bit (restarts ≥ 2)} later2-all-served=1" else ""
    let head := if exact then s!"before=12 killed=- window={if vl then "11" else "22"} replaced={bit (restarts ≥ 1)} later-all-served=1"
                else s!"before=2/2 killed=- replaced={bit (restarts ≥ 1)} later-all-served=1"
    let stop := if st then
        let waited := (List.range wk).all fun w => run.log.contains (.awaitWorker w)
        s!" stop={if run.returned then "resolved" else "never"} early={bit (!waited)}"
      else ""
    head ++ second ++ (if pr then s!" pair={wk}/{wk}" ++ (match lim with | some l => s!" peak={l}" | none => "") else "") ++ stop
  | _, _, _, _, _, _, _ => "bad-op"

def sigObs (ws : List String) : String :=
  if kv ws "skip" == some "ports" then "skipped" else
  let sig : Option Src.Signal := match kv ws "sig" with | some "int" => some .Int | some "term" => some .Term | some "quit" => some .Quit | _ => none
  let rtOk := (match kv ws "rt" with | none => true | some r => r == "system" || r == "tokio") &&
    (match kv ws "lst" with | none => true | some l => l == "tcp" || l == "udsa") &&
    (match kv ws "to" with | none => true | some t => t == "process" || t == "acceptor") &&
    (match kv ws "usr1" with | none => true | some v => v == "1") &&
    (match kv ws "pre" with | none => true | some v => v == "1")
  -- `usr1=1`: a harmless signal handled on the accept thread leaves the accept loop as it is (an interrupted poll is no event)
  let serves := if kv ws "usr1" == some "1" then " serves=1" else ""
  -- `emfile=1 [storm=<ms>x<n>]`: a back-off after an accept error expires 500 ms after the error whatever wakes the poll
  -- (`process_timeout` runs at every iteration of the accept loop; an interrupted poll is just another wake-up, C05): served
  let emfile : Option Bool := match kv ws "emfile" with | none => some false | some "1" => some true | _ => none
  let stormOk := match kv ws "storm" with
    | none => true
    | some t => match t.splitOn "x" with
      | [a, b] => (match a.toNat?, b.toNat? with
        | some ms, some n => emfile == some true && 10 ≤ ms && ms ≤ 1000 && 1 ≤ n && n ≤ 100 && a.length ≤ 9 && b.length ≤ 9
        | _, _ => false)
      | _ => false
  if emfile.isNone || !stormOk then "bad-op" else
  let serves := serves ++ (if emfile == some true then " served=1" else "")
  if !rtOk then "bad-op" else
  match sig, (kv ws "hold").bind parseHolds with
  | some sig, some [_] =>
    let run := ServerCmd.serve ServerCmd.srcWakeFirst 1 [.signal sig]
    (if run.returned then "exit=ok early=0" else "exit=never early=0") ++ serves
  | _, _ => "bad-op"

def parseEnv (a : String) : Option EnvOp :=
  match a.splitOn ":" with
  | ["conn", t] => t.toNat?.map .conn
  | ["send", t] => t.toNat?.map .send
  | ["inc"] => some .inc
  | ["close"] => some .closeChan
  | ["closestop"] => some .closeStop
  | ["stop", "g"] => some (.stop true)
  | ["stop", "f"] => some (.stop false)
  | ["finish", c] => c.toNat?.map .finish
  | _ => none

/-- result of an action that ran inside a `poll` (short form) -/
def showRes : Res → String
  | .ok => "ok" | .bad => "bad" | .refused => "refused"
  | .conn id w => s!"c{id}/{bit w}" | .closed w => s!"closed/{bit w}" | .stop k w => s!"s{k}/{bit w}"
  | .advanced w => s!"adv/{bit w}" | .polled => "polled" | .polledY _ => "polled"

/-- the `WorkerAvailable` notifications the worker pushes during an op: one exactly when a run of releases takes
the raw counter from above the limit down to it (`Src.wcDecCrossed` on the release that reaches `limit`) -/
def wqSuffix (limit : Option Nat) (rawBefore rawAfter : Nat) : String :=
  match limit with
  | none => ""
  | some l =>
    let crossed := (List.range (rawBefore - rawAfter)).any fun j => Src.wcDecCrossed (rawBefore - j) l
    s!" wq={bit crossed}"

def step (st : State) (line : String) : State × String :=
  let ws := words line
  match ws with
  | "case" :: _ =>
    let n := ((kv ws "n").bind (·.toNat?)).getD 1
    let timeout := ((kv ws "timeout").bind (·.toNat?)).getD 0
    let limit : Option (Option Nat) := match kv ws "limit" with
      | none => some none
      | some l => match l.toNat? with
        | some l => if 1 ≤ l && l ≤ 1000 then some (some l) else none
        | none => none
    match parseSvcs ws n, limit with
    | some svcs, some limit =>
      ({ s := ActixNet.Worker.init { n := n, timeout := timeout, svcs := fun i => svcs.getD i {} }, started := true, limit := limit }, "ok")
    | _, _ => ({ st with started := false }, "bad-case")
  | "gate" :: _ => (st, gateObs ws)
  | "fault" :: _ => (st, faultObs ws)
  | "srv" :: _ => (st, srvObs ws)
  | "sig" :: _ => (st, sigObs ws)
  | ["k-shape"] =>
    -- structural facts read from the source by T1; the harness prints what C06 demands
    (st, s!"none-arm-polls-stop={bit Src.wkNoneArmPollsStop} run-breaks-on-stopping={bit Src.srRunBreaksOnStopping} stop-sends-eagerly={bit Src.hsStopSendsEagerly} await-guard={Src.hcAwaitGuard} mux-hands-on-cmd-rx={bit Src.smMuxHandsOnCmdRx} default-timeout={Src.wcDefaultShutdownSecs} default-conns={Src.wcDefaultMaxConn} builder-starts-from-default={bit Src.sbStartsFromDefaultConfig} stop-drops-undelivered={bit Src.hsStopDropsUndelivered} join-waits-for-all={bit Src.jaWaitsForAll} system-stop-if-any={bit Src.hcSystemStopIfAny}")
  | ["k-worker"] =>
    (st, s!"tick-first={Src.wkTickFirstMs} tick-next={Src.wkTickNextMs} init={Src.wcInit}")
  | ["k-timedout", e, t] => match e.toNat?, t.toNat? with
    | some e, some t => (st, bit (Src.wkTimedOut e t))
    | _, _ => (st, "bad-op")
  | ["k-total", v] => match v.toNat? with
    | some v => if v = 0 then (st, "panic") else (st, toString (Src.wcTotal v))
    | none => (st, "bad-op")
  | _ =>
    if !st.started then (st, "bad-op") else
    let op : Option Op := match ws with
      | ["conn", t] => t.toNat?.map .conn
      | ["send", t] => t.toNat?.map .send
      | ["inc"] => some .inc
      | ["close"] => some .closeChan
      | ["stop", "g"] => some (.stop true)
      | ["stop", "f"] => some (.stop false)
      | ["finish", c] => c.toNat?.map .finish
      | ["advance", ms] => ms.toNat?.bind fun ms => if ms = 0 then none else some (.advance ms)
      | ["poll"] => some (.poll 1000000)
      | ["closestop"] => some .closeStop
      | ["poll", y] =>
        if y.startsWith "y=" then ((((y.drop 2).toString).splitOn ",").mapM parseEnv).map (.pollY 1000000) else none
      | _ => none
    match op with
    | none => (st, "bad-op")
    | some op =>
      let r := ActixNet.Worker.stepY st.s op
      let st' := { st with s := r.1 }
      match r.2 with
      | .bad => (st, "bad-op")
      | .ok => (st', match op with
          | .finish _ => "ok" ++ wqSuffix st.limit st.s.raw st'.s.raw
          | _ => "ok")
      | .refused => (st', "refused")
      | .conn id w => (st', s!"ok c{id} woke={bit w}")
      | .closed w => (st', s!"ok woke={bit w}")
      | .stop k w => (st', s!"ok s{k} woke={bit w} reply={if st.s.finished then "x" else "-"}")
      | .advanced w => (st', s!"ok woke={bit w}")
      | .polled => (st', pollObs st.s st'.s ++ (if st'.s.fault.isSome then "" else wqSuffix st.limit st.s.raw st'.s.raw))
      | .polledY rs => (st', s!"acts=[{",".intercalate (rs.map showRes)}] " ++ pollObs st.s st'.s ++ (if st'.s.fault.isSome then "" else wqSuffix st.limit st.s.raw st'.s.raw))

end Driver.Worker
