import ActixNet.Lemmas.SrvLog
import ActixNet.Lemmas.SrvCons
import ActixNet.Lemmas.SrvFuel
/-!
# C01 — each accepted connection reaches exactly one worker, with its listener's token

Over `ActixNet.Srv` (accept side; any schedule of worker / client / server actions — including
worker deaths — at every yield point).  The worker side ("the call goes to the service registered
for the connection's token; queued connections are released at shutdown") is C07 / C06 on the
`Worker` model.
-/
namespace ActixNet.C01
open ActixNet ActixNet.Srv

/-- A client connect creates one fresh connection, tagged with the listener it arrived on, at the
tail of that listener's backlog. -/
theorem connect_creates_tagged (cfg : Cfg) (s : St) (l : Nat) (hl : l < s.nLst)
    (hlink : (s.lst l).kind = .tcp ∨ (s.lst l).linked = true) :
    (envStep cfg s (.connect l)).2 = .conn (s.nextConn, l) ∧
    ((envStep cfg s (.connect l)).1.lst l).backlog = (s.lst l).backlog ++ [(s.nextConn, l)] ∧
    (envStep cfg s (.connect l)).1.nextConn = s.nextConn + 1 := by
  rcases hlink with h | h <;> simp [envStep, hl, h]

/-- `accept()` hands out exactly the head of the listener's backlog and removes it from there. -/
theorem accept_takes_head (s : St) (l : Nat) (c : Conn) (b : List Conn)
    (hi : (s.lst l).inject = []) (hb : (s.lst l).backlog = c :: b) :
    (acceptSys s l).2 = .conn c ∧ ((acceptSys s l).1.lst l).backlog = b := by
  simp [acceptSys, hi, hb]

/-- **never twice, never lost by the accept thread**: `accept_one c` (when it terminates without a
fault — C08) appends `c` exactly once to the dispatch log, for a worker that was alive when the
connection was sent, or else drops it having found that no worker handle is left.  Holds for every
interleaving of other threads' actions, including workers dying inside the send/increment window. -/
theorem accept_one_places_exactly_once (cfg : Cfg) (fuel : Nat) (s : St) (c : Conn)
    (hnf : (acceptOne cfg fuel s c).fault = none) : PlacedOnce s (acceptOne cfg fuel s c) c :=
  acceptOne_log cfg fuel s c hnf

/-- a connection is dropped by the accept thread only when no worker handle is left -/
theorem dropped_only_without_workers (cfg : Cfg) (fuel : Nat) (s : St) (c : Conn)
    (hnf : (acceptOne cfg fuel s c).fault = none)
    (hnd : (acceptOne cfg fuel s c).dispatched = s.dispatched) :
    (acceptOne cfg fuel s c).handles = [] := by
  rcases acceptOne_log cfg fuel s c hnf with ⟨_, w, _, _, _, hd⟩ | ⟨_, hh, _⟩
  · rw [hnd] at hd
    have := congrArg List.length hd
    simp at this
  · exact hh

/-- the worker takes connections from its channel in FIFO order, one at a time -/
theorem recv_takes_queue_head (cfg : Cfg) (s : St) (w : Nat) (c : Conn) (q : List Conn) (hw : w < s.nWk)
    (hal : (s.wk w).alive = true) (hq : (s.wk w).queue = c :: q) :
    (envStep cfg s (.recv w)).2 = .conn c ∧ ((envStep cfg s (.recv w)).1.wk w).queue = q ∧
    ((envStep cfg s (.recv w)).1.wk w).inflight = (s.wk w).inflight ++ [c] := by
  simp [envStep, hw, hal, hq]

/-- finishing a connection removes exactly that connection from the worker and records it as finished -/
theorem finish_moves_one (cfg : Cfg) (s : St) (w : Nat) (cid : Option Nat) (c : Conn) (hw : w < s.nWk)
    (hc : pickInflight (s.wk w) cid = some c) :
    (envStep cfg s (.finishNow w cid)).1.finished = s.finished ++ [c] ∧
    ((envStep cfg s (.finishNow w cid)).1.wk w).inflight = (s.wk w).inflight.eraseP (fun x => x.1 == c.1) ∧
    ((envStep cfg s (.finishNow w cid)).1.wk w).queue = (s.wk w).queue := by
  simp only [envStep, hw, ↓reduceIte, hc]
  split <;> simp [pushWq]

/-! ### The global statements: every history, every schedule, every configuration -/

/-- all the places a connection can be once a client has connected -/
def occurrences (s : St) (i : Nat) : Nat :=
  sumTo s.nLst (fun l => ids (s.lst l).backlog i) +                                   -- waiting on a listener
  sumTo s.nWk (fun w => ids (s.wk w).queue i + ids (s.wk w).inflight i) +             -- in a worker's channel / being served
  ids s.finished i + ids s.dropped i                                                  -- served; lost with a dead worker or for want of any worker

/-- **Conservation.**  After *any* history `ops` (client connects, accept-loop iterations with any
event order and any schedule of other threads' actions at every yield point — worker pick-ups,
completions, deaths, replacements, pause / resume / stop, clock, injected accept errors), from the
initial state of *any* configuration (any number of workers ≤ 512, any limit ≥ 1, any listeners):
unless the accept thread has failed (C08), every connection created so far is in **exactly one**
place — never duplicated, never lost — and no connection that was never created is anywhere. -/
theorem conservation (cfg : Cfg) (ok : CfgOk cfg) (kinds : List Kind) (ops : List Op)
    (hnf : (run cfg (init cfg kinds) ops).fault = none) (i : Nat) :
    occurrences (run cfg (init cfg kinds) ops) i = if i < (run cfg (init cfg kinds) ops).nextConn then 1 else 0 := by
  rcases (run_cinv ok ops _ (init_cinv cfg kinds)).2 with h | h
  · rw [hnf] at h; cases h
  · have := h.one i
    simp only [occurrences, Places.B, Places.W, places, ids_nil] at this ⊢
    grind

/-- **Never twice.**  In the log of successful `send`s of any history, no connection occurs twice. -/
theorem never_dispatched_twice (cfg : Cfg) (ok : CfgOk cfg) (kinds : List Kind) (ops : List Op)
    (hnf : (run cfg (init cfg kinds) ops).fault = none) (i : Nat) :
    ids ((run cfg (init cfg kinds) ops).dispatched.map (·.1)) i ≤ 1 := by
  rcases (run_cinv ok ops _ (init_cinv cfg kinds)).2 with h | h
  · rw [hnf] at h; cases h
  · have h1 := h.one i
    have h2 := h.disp i
    simp only [Places.B, Places.W, places, ids_nil] at h1 h2 ⊢
    grind

/-- a dispatched connection is no longer waiting on any listener -/
theorem dispatched_left_backlog (cfg : Cfg) (ok : CfgOk cfg) (kinds : List Kind) (ops : List Op)
    (hnf : (run cfg (init cfg kinds) ops).fault = none) (i : Nat)
    (hd : 0 < ids ((run cfg (init cfg kinds) ops).dispatched.map (·.1)) i) :
    sumTo (run cfg (init cfg kinds) ops).nLst (fun l => ids ((run cfg (init cfg kinds) ops).lst l).backlog i) = 0 := by
  rcases (run_cinv ok ops _ (init_cinv cfg kinds)).2 with h | h
  · rw [hnf] at h; cases h
  · have h1 := h.one i
    have h2 := h.disp i
    simp only [Places.B, Places.W, places, ids_nil] at h1 h2 ⊢
    grind

/-- **Listener token.**  Whatever waits on listener `l` carries token `l` … -/
theorem backlog_carries_listener_token (cfg : Cfg) (ok : CfgOk cfg) (kinds : List Kind) (ops : List Op)
    (hnf : (run cfg (init cfg kinds) ops).fault = none) (l : Nat) (c : Conn)
    (hc : c ∈ ((run cfg (init cfg kinds) ops).lst l).backlog) : c.2 = l := by
  rcases (run_cinv ok ops _ (init_cinv cfg kinds)).2 with h | h
  · rw [hnf] at h; cases h
  · exact h.tag l c hc

/-- … so the connection `accept()` returns on listener `l` is tagged `l`; `accept_one` passes the
pair on unchanged (`accept_one_places_exactly_once`), the worker hands it to `services[token]` (C07). -/
theorem accepted_carries_listener_token (cfg : Cfg) (ok : CfgOk cfg) (kinds : List Kind) (ops : List Op)
    (hnf : (run cfg (init cfg kinds) ops).fault = none) (l : Nat) (c : Conn)
    (ha : (acceptSys (run cfg (init cfg kinds) ops) l).2 = .conn c) : c.2 = l :=
  (acceptSys_cj _ l (run_cinv ok ops _ (init_cinv cfg kinds)).2).2 c ha hnf

/-- **Conservation, unconditionally.**  The accept thread never fails (`run_fault_none`, C08), so
for every history every created connection is in exactly one place. -/
theorem every_connection_in_exactly_one_place (cfg : Cfg) (ok : CfgOk cfg) (kinds : List Kind) (ops : List Op) (i : Nat) :
    occurrences (run cfg (init cfg kinds) ops) i = if i < (run cfg (init cfg kinds) ops).nextConn then 1 else 0 :=
  conservation cfg ok kinds ops (run_fault_none ok kinds ops) i

/-- **Never twice, unconditionally.** -/
theorem no_connection_dispatched_twice (cfg : Cfg) (ok : CfgOk cfg) (kinds : List Kind) (ops : List Op) (i : Nat) :
    ids ((run cfg (init cfg kinds) ops).dispatched.map (·.1)) i ≤ 1 :=
  never_dispatched_twice cfg ok kinds ops (run_fault_none ok kinds ops) i

/-- **Never to another listener's service, unconditionally**: what `accept()` returns on listener `l`
after any history carries token `l`. -/
theorem accepted_token_is_listener (cfg : Cfg) (ok : CfgOk cfg) (kinds : List Kind) (ops : List Op) (l : Nat) (c : Conn)
    (ha : (acceptSys (run cfg (init cfg kinds) ops) l).2 = .conn c) : c.2 = l :=
  accepted_carries_listener_token cfg ok kinds ops (run_fault_none ok kinds ops) l c ha

/-! ### Non-vacuity -/
def demoCfg : Cfg := { limit := 2, nIdx := 2 }
-- worker 0 dies inside window W1 of the first dispatch; the next connection is re-routed to worker 1
def demoOps : List Op :=
  [.env (.connect 0), .env (.connect 0), .env (.connect 0),
   .poll [.listener 0, .waker] [[], [.die 0], [], []], .poll [.waker] []]
example : ((run demoCfg (init demoCfg [.tcp]) demoOps).dispatched.map (·.2)) = [0, 1, 1] ∧
    (run demoCfg (init demoCfg [.tcp]) demoOps).fault = none ∧
    (run demoCfg (init demoCfg [.tcp]) demoOps).faultedLog = [0] := by decide
-- the hypotheses of the global theorems hold for it; connection 0 died with worker 0 in its channel
example : CfgOk demoCfg ∧ (run demoCfg (init demoCfg [.tcp]) demoOps).fault = none ∧
    (run demoCfg (init demoCfg [.tcp]) demoOps).nextConn = 3 ∧
    (run demoCfg (init demoCfg [.tcp]) demoOps).dropped = [(0, 0)] ∧
    ((run demoCfg (init demoCfg [.tcp]) demoOps).wk 1).queue = [(1, 0), (2, 0)] :=
  ⟨⟨by decide, by decide, by decide⟩, by decide, by decide, by decide, by decide⟩

-- hypotheses of the per-function theorems are met by reachable states
def s0 : St := init demoCfg [.tcp, .uds]
example : 0 < s0.nLst ∧ ((s0.lst 0).kind = .tcp ∨ (s0.lst 0).linked = true) := by decide
example : 1 < s0.nLst ∧ ((s0.lst 1).kind = .tcp ∨ (s0.lst 1).linked = true) := by decide
def s1 : St := run demoCfg s0 [.env (.connect 1), .env (.connect 1)]
example : (s1.lst 1).inject = [] ∧ (s1.lst 1).backlog = [(0, 1), (1, 1)] := by decide
-- both workers dead and discovered: the connection is dropped, no handle is left (`dropped_only_without_workers`)
def sNoWorkers : St := run demoCfg s0 [.env (.die 0), .env (.die 1)]
example : (acceptOne demoCfg 8 sNoWorkers (5, 0)).fault = none ∧
    (acceptOne demoCfg 8 sNoWorkers (5, 0)).dispatched = sNoWorkers.dispatched ∧
    (acceptOne demoCfg 8 sNoWorkers (5, 0)).handles = [] ∧ sNoWorkers.handles = [0, 1] := by decide
-- a queued connection at a live worker (`recv_takes_queue_head`), then in progress (`finish_moves_one`)
def s2 : St := run demoCfg s1 [.poll [.listener 1] []]
example : 0 < s2.nWk ∧ (s2.wk 0).alive = true ∧ (s2.wk 0).queue = [(0, 1)] := by decide
def s3 : St := run demoCfg s2 [.env (.recv 0)]
example : pickInflight (s3.wk 0) none = some (0, 1) ∧ pickInflight (s3.wk 0) (some 0) = some (0, 1) := by decide
-- `dispatched_left_backlog`: connection 0 is in the dispatch log of s2
example : 0 < ids (s2.dispatched.map (·.1)) 0 := by decide

end ActixNet.C01
