import ActixNet.Lemmas.SrvListen
import ActixNet.Lemmas.SrvStrand
import ActixNet.Lemmas.WakerQueue
import ActixNet.Lemmas.SrvDrain
/-!
# C05 — pause, resume and accept-error back-off never strand a listener

Over `ActixNet.Srv`; the error classification and the two durations are the kernels regenerated
from accept.rs (`Src.connectionError`, `Src.backoffMs`, `Src.pollTimeoutMs`).

Reading of "once a pause has taken effect": the iteration that processed `Pause` has ended. Inside
that same iteration a listener event already in the mio batch is still accepted (`poll_with` has no
`paused` test on listener events) — this is how the code behaves and the model follows it.
-/
namespace ActixNet.C05
open ActixNet ActixNet.Srv

/-- exactly the three per-connection kinds are treated as transient (the loop just continues) -/
theorem conn_error_kinds (k : Src.ErrorKind) :
    Src.connectionError k = true ↔
      (k = .ConnectionRefused ∨ k = .ConnectionAborted ∨ k = .ConnectionReset) := by
  cases k <;> simp [Src.connectionError] <;> decide

/-- the back-off is about half a second and the poll time-out fires after the back-off deadline, so
the accept thread wakes up by itself when the back-off ends -/
theorem backoff_about_500ms_and_poll_wakes_after : Src.backoffMs = 500 ∧ Src.backoffMs ≤ Src.pollTimeoutMs ∧
    Src.pollTimeoutMs ≤ 1000 := by
  unfold Src.backoffMs Src.pollTimeoutMs; omega

/-- a per-connection accept error does not delay later connections: the accept loop simply goes on
with the next `accept()` (same iteration, nothing deregistered, no deadline) -/
theorem conn_error_transparent (cfg : Cfg) (fuel : Nat) (s : St) (l : Nat) (k : Src.ErrorKind)
    (es : List AccErr) (hnf : s.fault = none) (hany : anyAvail cfg s = true)
    (hk : Src.connectionError k = true) (hinj : ((yieldPt cfg s).lst l).inject = .kind k :: es) :
    accept cfg (fuel + 1) s l =
      accept cfg fuel { yieldPt cfg s with
        lst := upd (yieldPt cfg s).lst l { (yieldPt cfg s).lst l with inject := es } } l := by
  have hkw : (k == Src.ErrorKind.WouldBlock) = false := by
    cases k <;> first | decide | (revert hk; decide)
  simp [accept, hnf, hany, acceptSys, hinj, hkw, hk]

/-- any other accept error (EMFILE, ENFILE, …) takes the listener out of the poll set for
`backoffMs` and arms the poll time-out so that the thread wakes up again -/
theorem other_error_backs_off (cfg : Cfg) (fuel : Nat) (s : St) (l : Nat) (e : AccErr) (es : List AccErr)
    (hnf : s.fault = none) (hany : anyAvail cfg s = true)
    (hinj : ((yieldPt cfg s).lst l).inject = e :: es)
    (he : e = .emfile ∨ ∃ k, e = .kind k ∧ Src.connectionError k = false ∧ (k == Src.ErrorKind.WouldBlock) = false) :
    ((accept cfg (fuel + 1) s l).lst l).registered = false ∧
    ((accept cfg (fuel + 1) s l).lst l).deadline = some ((yieldPt cfg s).now + Src.backoffMs) ∧
    (∃ t, (accept cfg (fuel + 1) s l).timeout = some t ∧ t ≤ Src.pollTimeoutMs) ∧
    ((accept cfg (fuel + 1) s l).lst l).backlog = ((yieldPt cfg s).lst l).backlog := by
  have hres : (acceptSys (yieldPt cfg s) l).2 = .otherErr ∧
      (acceptSys (yieldPt cfg s) l).1 = { yieldPt cfg s with
        lst := upd (yieldPt cfg s).lst l { (yieldPt cfg s).lst l with inject := es } } := by
    rcases he with rfl | ⟨k, rfl, hk1, hk2⟩
    · simp [acceptSys, hinj]
    · simp [acceptSys, hinj, hk1, hk2]
  simp only [accept, hnf, Option.isSome_none, Bool.false_eq_true, ↓reduceIte, hany, Bool.not_true]
  generalize acceptSys (yieldPt cfg s) l = r at hres
  obtain ⟨s1, rr⟩ := r
  simp only at hres
  obtain ⟨h1, h2⟩ := hres
  subst h1 h2
  simp only [setTimeout, deregister]
  split
  · rename_i t ht
    split
    · simp [upd]
    · rename_i hgt
      refine ⟨by simp [upd], by simp [upd], ⟨t, ht, by omega⟩, by simp [upd]⟩
  · simp [upd]

/-- when the back-off deadline has passed and the server is not paused, `process_timeout` puts the
listener back into the poll set, clears the deadline and — by the epoll rule — a readiness event is
pending iff connections arrived in the meantime -/
theorem backoff_expiry_rearms (s : St) (l : Nat) (d : Nat) (hd : (s.lst l).deadline = some d) (hnow : ¬ s.now < d)
    (hp : s.paused = false) (hr : (s.lst l).registered = false) :
    ((processTimeoutFrom s s.now [l]).lst l).registered = true ∧
    ((processTimeoutFrom s s.now [l]).lst l).deadline = none ∧
    ((processTimeoutFrom s s.now [l]).lst l).edge = !((s.lst l).backlog.isEmpty) ∧
    ((processTimeoutFrom s s.now [l]).lst l).backlog = (s.lst l).backlog := by
  simp [processTimeoutFrom, hd, hnow, hp, register, upd, hr]

/-- a back-off that has not expired stays armed: the deadline is kept and the poll time-out is set to
at most the remaining time -/
theorem backoff_pending_stays_armed (s : St) (l : Nat) (d : Nat) (hd : (s.lst l).deadline = some d) (hnow : s.now < d) :
    ((processTimeoutFrom s s.now [l]).lst l).deadline = some d ∧
    ∃ t, (processTimeoutFrom s s.now [l]).timeout = some t ∧ t ≤ d - s.now := by
  simp only [processTimeoutFrom, hd, hnow, ↓reduceIte, setTimeout]
  split
  · rename_i t ht
    split
    · simp [upd]
    · exact ⟨by simp [upd], t, ht, by omega⟩
  · simp [upd]

/-- deregistering (pause, back-off) never removes what a client needs to reach the listener: a Unix
domain listener keeps its socket file (the defect fixed in /repo: `deregister` used to unlink it) -/
theorem deregister_keeps_socket_path (s : St) (l : Nat) :
    ((deregister s l).lst l).linked = (s.lst l).linked ∧ ((deregister s l).lst l).backlog = (s.lst l).backlog ∧
    ((deregister s l).lst l).kind = (s.lst l).kind := by
  simp [deregister, upd]

/-- **resume re-arms every listener**: after `Resume` is processed every listener (TCP or Unix
domain) is back in the poll set with its backlog — including connections that arrived during the
pause — its socket path untouched and **no back-off deadline left** (so that a later `Pause`
deregisters it again: the defect fixed in /repo), and the accept loop is then run on every listener -/
theorem resume_rearms (s : St) (l : Nat) (hl : l < s.nLst) :
    ((registerAllFrom { s with paused := false } (List.range s.nLst)).lst l).registered = true ∧
    ((registerAllFrom { s with paused := false } (List.range s.nLst)).lst l).backlog = (s.lst l).backlog ∧
    ((registerAllFrom { s with paused := false } (List.range s.nLst)).lst l).linked = (s.lst l).linked ∧
    ((registerAllFrom { s with paused := false } (List.range s.nLst)).lst l).deadline = none :=
  registerAllFrom_registers _ List.nodup_range _ l (List.mem_range.mpr hl)

theorem resume_runs_accept_loop (cfg : Cfg) (fuel : Nat) (s : St) (q : List Interest) (hnf : s.fault = none)
    (hq : (yieldPt cfg s).wq = .resume :: q) (hp : (yieldPt cfg s).paused = true) :
    handleWaker cfg (fuel + 1) s =
      handleWaker cfg fuel
        (acceptAll cfg (registerAllFrom { yieldPt cfg s with wq := q, paused := false } (List.range (yieldPt cfg s).nLst))) := by
  simp [handleWaker, hnf, hq, hp]

/-- repeated or unmatched commands are idempotent: `Pause` while paused and `Resume` while running
only consume the command -/
theorem pause_idempotent (cfg : Cfg) (fuel : Nat) (s : St) (q : List Interest) (hnf : s.fault = none)
    (hq : (yieldPt cfg s).wq = .pause :: q) (hp : (yieldPt cfg s).paused = true) :
    handleWaker cfg (fuel + 1) s = handleWaker cfg fuel { yieldPt cfg s with wq := q } := by
  simp [handleWaker, hnf, hq, hp]

theorem unmatched_resume_noop (cfg : Cfg) (fuel : Nat) (s : St) (q : List Interest) (hnf : s.fault = none)
    (hq : (yieldPt cfg s).wq = .resume :: q) (hp : (yieldPt cfg s).paused = false) :
    handleWaker cfg (fuel + 1) s = handleWaker cfg fuel { yieldPt cfg s with wq := q } := by
  simp [handleWaker, hnf, hq, hp]

/-- while paused, a worker's wake-up is recorded but the accept loop is NOT run: nothing is
dispatched on its behalf until `Resume` -/
theorem paused_wakeup_does_not_accept (cfg : Cfg) (fuel : Nat) (s : St) (w : Nat) (q : List Interest)
    (hnf : s.fault = none) (hq : (yieldPt cfg s).wq = .workerAvail w :: q) (hp : (yieldPt cfg s).paused = true) :
    handleWaker cfg (fuel + 1) s =
      handleWaker cfg fuel (wakePrim { yieldPt cfg s with wq := q } w) := by
  have hp2 : (wakePrim { yieldPt cfg s with wq := q } w).paused = true := by
    unfold wakePrim; split
    · unfold setAvail; split <;> exact hp
    · exact hp
  simp only [handleWaker, hnf, Option.isSome_none, Bool.false_eq_true, ↓reduceIte, hq, hp2, Bool.not_true]

/-- `Pause` cancels every pending back-off deadline (so that `process_timeout` cannot re-register a
listener behind the pause's back; `Resume` registers all of them) -/
theorem pause_clears_deadlines (ls : List Nat) : ∀ (s : St) (l : Nat), l ∈ ls →
    ((deregisterAllFrom s ls).lst l).deadline = none := by
  induction ls with
  | nil => intro s l h; cases h
  | cons a as ih =>
    intro s l hl
    simp only [deregisterAllFrom]
    by_cases hmem : l ∈ as
    · exact ih _ l hmem
    · have hla : l = a := by rcases List.mem_cons.mp hl with h | h; exact h; exact absurd h hmem
      subst hla
      have : ∀ (t : St), ((deregisterAllFrom t as).lst l).deadline = (t.lst l).deadline := by
        intro t
        clear ih hl
        induction as generalizing t with
        | nil => rfl
        | cons b bs ihb =>
          have hlb : l ≠ b := fun h => hmem (h ▸ List.mem_cons_self)
          have hbs : l ∉ bs := fun h => hmem (List.mem_cons_of_mem _ h)
          simp only [deregisterAllFrom]
          rw [ihb hbs]
          split <;> simp [deregister, upd, hlb]
      rw [this]
      split <;> simp [deregister, upd]

/-! ### Whole-history statements (every operation sequence, every schedule, faults included) -/

/-- **while the server is paused no listener is in the poll set** — in every reachable state.  (This
is the invariant that would not prove on the unchanged tree: `Resume` kept a stale back-off deadline
and the next `Pause` skipped that listener; see KNOWN_FINDINGS F7.) -/
theorem paused_means_every_listener_deregistered (cfg : Cfg) (kinds : List Kind) (ops : List Op) (l : Nat)
    (hp : (run cfg (init cfg kinds) ops).paused = true) (hl : l < (run cfg (init cfg kinds) ops).nLst) :
    ((run cfg (init cfg kinds) ops).lst l).registered = false :=
  (run_linv cfg ops _ (init_linv cfg kinds)).pd hp l hl

/-- **No listener is ever stranded.**  In every reachable state (any history of pause / resume /
stop commands, injected accept errors of every kind, clock advances, client connects, worker
actions, in every order and at every yield point; TCP and Unix-domain listeners alike) in which the
accept loop has not been stopped: a listener that is out of the poll set is out for a reason that
brings it back — the server is paused (`resume_rearms`: `Resume` registers every listener), or the
listener has a back-off deadline (`backoff_expiry_rearms`: `process_timeout` registers it once the
deadline has passed). -/
theorem no_listener_stranded (cfg : Cfg) (kinds : List Kind) (ops : List Op) (l : Nat)
    (hne : (run cfg (init cfg kinds) ops).exited = false) (hl : l < (run cfg (init cfg kinds) ops).nLst)
    (hreg : ((run cfg (init cfg kinds) ops).lst l).registered = false) :
    (run cfg (init cfg kinds) ops).paused = true ∨ ((run cfg (init cfg kinds) ops).lst l).deadline.isSome = true := by
  rcases run_si cfg ops _ (init_linv cfg kinds) (init_si cfg kinds) with h | h
  · rw [hne] at h; cases h
  · exact h l hl hreg

/-- … equivalently: while the server is running, not paused and the listener is not backing off, the
listener is in the poll set (and by `C03.no_lost_wakeup` whatever waits on it is accepted). -/
theorem running_listener_is_registered (cfg : Cfg) (kinds : List Kind) (ops : List Op) (l : Nat)
    (hne : (run cfg (init cfg kinds) ops).exited = false) (hl : l < (run cfg (init cfg kinds) ops).nLst)
    (hp : (run cfg (init cfg kinds) ops).paused = false)
    (hd : ((run cfg (init cfg kinds) ops).lst l).deadline = none) :
    ((run cfg (init cfg kinds) ops).lst l).registered = true := by
  cases hr : ((run cfg (init cfg kinds) ops).lst l).registered with
  | true => rfl
  | false =>
    rcases no_listener_stranded cfg kinds ops l hne hl hr with h | h
    · rw [hp] at h; cases h
    · rw [hd] at h; cases h

/-- **A back-off always ends.**  In every reachable state a listener with a back-off deadline has
the accept thread's poll time-out armed (`Accept::timeout = Some(_)`), so `poll` returns by itself
and `process_timeout` runs — the listener does not depend on some unrelated event to come back. -/
theorem backoff_has_timeout_armed (cfg : Cfg) (kinds : List Kind) (ops : List Op) (l : Nat)
    (hl : l < (run cfg (init cfg kinds) ops).nLst)
    (hd : ((run cfg (init cfg kinds) ops).lst l).deadline.isSome = true) :
    (run cfg (init cfg kinds) ops).timeout.isSome = true :=
  run_tinv cfg ops _ (init_tinv cfg kinds) l hl hd

/-- a listener in accept-error back-off is out of the poll set, in every reachable state -/
theorem backoff_listener_is_deregistered (cfg : Cfg) (kinds : List Kind) (ops : List Op) (l d : Nat)
    (hd : ((run cfg (init cfg kinds) ops).lst l).deadline = some d) :
    ((run cfg (init cfg kinds) ops).lst l).registered = false :=
  (run_linv cfg ops _ (init_linv cfg kinds)).dd l d hd

/-- **once a pause has taken effect no connection is dispatched until resume**: in every reachable
paused state mio can report no listener event, and the iteration (waker event only) dispatches
nothing and ends paused as long as no `Resume` is queued or issued during it — whatever else happens
meanwhile (worker wake-ups, replacement handles, more pauses, back-off expiry, client connects). -/
theorem paused_no_dispatch (cfg : Cfg) (kinds : List Kind) (ops : List Op) (sched : List (List EnvAct))
    (hp : (run cfg (init cfg kinds) ops).paused = true)
    (hwq : ∀ i ∈ (run cfg (init cfg kinds) ops).wq, i ≠ Interest.resume)
    (hs : ∀ ch ∈ sched, ∀ a ∈ ch, a ≠ EnvAct.cmd .resume) :
    readyListeners (run cfg (init cfg kinds) ops) = [] ∧
    (poll cfg (run cfg (init cfg kinds) ops) [.waker] sched).dispatched = (run cfg (init cfg kinds) ops).dispatched ∧
    (poll cfg (run cfg (init cfg kinds) ops) [.waker] sched).paused = true :=
  ⟨paused_no_listener_events _ (run_linv cfg ops _ (init_linv cfg kinds)) hp,
   paused_poll_no_dispatch cfg _ sched hp hwq hs⟩

/-! ### Non-vacuity: pause / connect during pause / resume on a Unix domain listener -/
def demoCfg : Cfg := { limit := 2, nIdx := 1 }
def demoOps : List Op :=
  [.env (.cmd .pause), .poll [.waker] [], .env (.connect 0), .poll [.waker] [],
   .env (.cmd .resume), .poll [.waker] []]
-- the connection that arrived during the pause is dispatched by the iteration that processes Resume
example : (run demoCfg (init demoCfg [.uds]) demoOps).dispatched.length = 1 ∧
    ((run demoCfg (init demoCfg [.uds]) (demoOps.take 4)).dispatched.length = 0) ∧
    ((run demoCfg (init demoCfg [.uds]) demoOps).lst 0).linked = true := by decide

-- an EMFILE back-off: the listener is out of the poll set with a deadline and the time-out armed (the
-- hypotheses of `no_listener_stranded` / `backoff_has_timeout_armed` are met by a real history); after
-- 600 ms the next iteration brings it back and the waiting connection is dispatched
def backoffOps : List Op :=
  [.env (.inject 0 .emfile), .env (.connect 0), .poll [.listener 0, .waker] []]
example : ((run demoCfg (init demoCfg [.tcp]) backoffOps).lst 0).registered = false ∧
    ((run demoCfg (init demoCfg [.tcp]) backoffOps).lst 0).deadline = some 500 ∧
    (run demoCfg (init demoCfg [.tcp]) backoffOps).timeout.isSome = true ∧
    (run demoCfg (init demoCfg [.tcp]) backoffOps).exited = false := by decide
example : (run demoCfg (init demoCfg [.tcp]) (backoffOps ++ [.env (.advance 600), .poll [.waker] [], .poll [.listener 0, .waker] []])).dispatched.length = 1 := by
  decide

-- hypotheses of the per-function theorems are met by reachable states
def i0 : St := init demoCfg [.tcp, .uds]
-- `conn_error_transparent`: an injected ECONNABORTED at the head, a worker available
def sAbort : St := run demoCfg i0 [.env (.inject 1 (.kind .ConnectionAborted)), .env (.connect 1)]
example : sAbort.fault = none ∧ anyAvail demoCfg sAbort = true ∧ Src.connectionError .ConnectionAborted = true ∧
    ((yieldPt demoCfg sAbort).lst 1).inject = [.kind .ConnectionAborted] := by decide
-- `other_error_backs_off`: EMFILE at the head
def sEmfile : St := run demoCfg i0 [.env (.inject 0 .emfile), .env (.connect 0)]
example : sEmfile.fault = none ∧ anyAvail demoCfg sEmfile = true ∧
    ((yieldPt demoCfg sEmfile).lst 0).inject = [.emfile] := by decide
-- `backoff_expiry_rearms` / `backoff_pending_stays_armed`: a listener in back-off, before and after its deadline
def sBack : St := run demoCfg i0 [.env (.inject 0 .emfile), .env (.connect 0), .poll [.listener 0, .waker] []]
example : (sBack.lst 0).deadline = some 500 ∧ sBack.now < 500 := by decide
def sLater : St := run demoCfg sBack [.env (.advance 600)]
example : (sLater.lst 0).deadline = some 500 ∧ ¬ sLater.now < 500 ∧ sLater.paused = false ∧
    (sLater.lst 0).registered = false := by decide
-- `resume_runs_accept_loop` / `pause_idempotent` / `paused_wakeup_does_not_accept`: paused, with the command queued
def sPaused : St := run demoCfg i0 [.env (.cmd .pause), .poll [.waker] []]
example : (run demoCfg sPaused [.env (.cmd .resume)]).fault = none ∧
    (yieldPt demoCfg (run demoCfg sPaused [.env (.cmd .resume)])).wq = [.resume] ∧
    (yieldPt demoCfg (run demoCfg sPaused [.env (.cmd .resume)])).paused = true := by decide
example : (yieldPt demoCfg (run demoCfg sPaused [.env (.cmd .pause)])).wq = [.pause] ∧
    (yieldPt demoCfg (run demoCfg sPaused [.env (.cmd .pause)])).paused = true := by decide
-- `unmatched_resume_noop`: a resume while running
example : (yieldPt demoCfg (run demoCfg i0 [.env (.cmd .resume)])).wq = [.resume] ∧
    (yieldPt demoCfg (run demoCfg i0 [.env (.cmd .resume)])).paused = false := by decide
-- `paused_no_dispatch`: paused, no resume queued
example : sPaused.paused = true ∧ (∀ i ∈ sPaused.wq, i ≠ Interest.resume) := by decide
-- `running_listener_is_registered`: running, no deadline
example : i0.exited = false ∧ i0.paused = false ∧ (i0.lst 1).deadline = none ∧ 1 < i0.nLst := by decide


/-- The critical sections of the waker queue are what the model assumes (T1, from the current source): producers push
    under the lock, the accept thread pops under a guard taken per iteration and resets an empty queue under the SAME
    guard. -/
theorem waker_queue_shape :
    (Src.wqGuardPerIteration && Src.wqPopUnderGuard && Src.wqDrainedResetsUnderSameGuard && Src.wqDrainedReturns &&
     Src.wqWakePushesUnderLock && Src.wqWakeRingsAfterPush && Src.wqResetIsSwapWithEmpty) = true := by decide

/-- Pause / Resume / Stop commands and worker notifications are never lost on their way to the accept thread: for EVERY
    interleaving of `wake` calls (any number of threads) with the accept thread's locked sections, what has been processed
    followed by what is still queued is exactly what was pushed, in order.  (The engine's `wq-race` op runs a real producer
    thread against the real loop; seed13 C05-25 released the lock between the empty pop and the reset.) -/
theorem queued_commands_are_never_lost {α : Type} (steps : List (WakerQueue.Step α)) :
    (WakerQueue.run ({} : WakerQueue.Q α) steps).processed ++ (WakerQueue.run ({} : WakerQueue.Q α) steps).queue
      = WakerQueue.pushed steps := by
  simpa using WakerQueue.lossless steps ({} : WakerQueue.Q α)

-- non-vacuity: a push that lands between two locked sections of the accept thread is still processed …
example : (WakerQueue.run ({} : WakerQueue.Q Nat) [.push 1, .pop, .pop, .push 2, .pop]).processed = [1, 2] := by decide
-- … whereas with the lock released between "found empty" and "reset" (two steps) the same push is wiped out:
example : ([WakerQueue.Step'.push 1, .pop, .pop, .push 2, .resetAfterEmpty, .pop].foldl WakerQueue.step' ({} : WakerQueue.Q Nat)).processed = [1] := by decide

/-! ### An iteration never goes back to sleep with a command left in the waker queue -/

/-- **One iteration of the accept loop handles every interest that is in the waker queue.**  If the mio
batch contains the waker event and no other thread pushes while the iteration runs (`sched = []`; what
is pushed meanwhile is covered by `queued_commands_are_never_lost` and the next waker event), then the
iteration that returns to `poll()` (not `exited`, no Rust panic / endless loop: `fault = none`) leaves
the waker queue EMPTY — in whatever order the listener events and the waker event come, whatever the
queue holds.  For the code: `handle_waker` loops until `pop_front()` returns `None`; no arm returns
early except `Stop`.  So a `Resume` or `Stop` queued behind a redundant `Pause`, or the handle of a
replacement worker (`Worker`) queued behind a command, is handled by the SAME iteration — the waker has
already been reset, nothing would wake the thread for what is left behind.  The harness oracle "the
iteration returned with interests still in the waker queue" states the same on the real loop (seed13
C01-26 made the `Pause` arm `return` early).  No hypothesis on `s`: an iteration on an `exited` or
faulted state is a no-op and is excluded by the two premises. -/
theorem iteration_drains_waker_queue (cfg : Cfg) (s : St) (order : List Ev) :
    Ev.waker ∈ order →
    let s' := poll cfg s order []
    s'.fault = none → s'.exited = false → s'.wq = [] := by
  intro hw s' hnf hne
  rcases poll_drains cfg s order hw with h | h | h
  · rw [hne] at h; cases h
  · rw [hnf] at h; cases h
  · exact h.1

/-- the complement (C06, "stop always completes"): a `Stop` that is in the waker queue — behind any
number of other commands and notifications — is reached by that same iteration, which then exits -/
theorem iteration_reaches_queued_stop (cfg : Cfg) (s : St) (order : List Ev) :
    Ev.waker ∈ order → Interest.stop ∈ s.wq →
    let s' := poll cfg s order []
    s'.fault = none → s'.exited = true := by
  intro hw hst s' hnf
  rcases poll_drains cfg s order hw with h | h | h
  · exact h
  · rw [hnf] at h; cases h
  · exact absurd hst h.2

/-- **in every reachable state, unconditionally** (any history from the initial state of a valid
configuration; the fault-free premise is discharged by `run_fault_none`): after an iteration that saw
the waker event the accept loop has exited or the waker queue is empty; and it has exited if a `Stop`
was queued.  (`Op.finishW2` runs exactly such an iteration inside the W2 window.) -/
theorem reachable_iteration_drains_waker_queue (cfg : Cfg) (ok : CfgOk cfg) (kinds : List Kind) (ops : List Op)
    (order : List Ev) (hw : Ev.waker ∈ order) :
    let S := run cfg (init cfg kinds) ops
    let S' := poll cfg S order []
    (S'.exited = true ∨ S'.wq = []) ∧ (Interest.stop ∈ S.wq → S'.exited = true) := by
  intro S S'
  rcases poll_drains_reachable ok kinds ops order hw with h | h
  · exact ⟨.inl h, fun _ => h⟩
  · exact ⟨.inr h.1, fun hst => absurd hst h.2⟩

-- non-vacuity, on reachable states (`i0`: one worker, a TCP and a Unix-domain listener).
-- a `Resume` queued behind a `Pause` and a redundant `Pause`: one iteration handles all three, the server runs again
def sPPR : St := run demoCfg i0 [.env (.cmd .pause), .env (.cmd .pause), .env (.cmd .resume)]
example : sPPR.wq = [.pause, .pause, .resume] ∧ (poll demoCfg sPPR [.waker] []).wq = [] ∧
    (poll demoCfg sPPR [.waker] []).paused = false ∧ (poll demoCfg sPPR [.waker] []).fault = none ∧
    (poll demoCfg sPPR [.waker] []).exited = false ∧
    ((poll demoCfg sPPR [.waker] []).lst 0).registered = true ∧ ((poll demoCfg sPPR [.waker] []).lst 1).registered = true := by
  decide
-- the waker event may come anywhere in the batch
example : (poll demoCfg sPPR [.listener 1, .waker, .listener 0] []).wq = [] ∧
    (poll demoCfg sPPR [.listener 1, .waker, .listener 0] []).paused = false := by decide
-- a `Stop` behind a redundant `Pause`: the same iteration exits (and handles nothing after it)
def sPPS : St := run demoCfg i0 [.env (.cmd .pause), .env (.cmd .pause), .env (.cmd .stop), .env (.cmd .resume)]
example : Interest.stop ∈ sPPS.wq ∧ (poll demoCfg sPPS [.waker] []).exited = true ∧
    (poll demoCfg sPPS [.waker] []).fault = none ∧ (poll demoCfg sPPS [.waker] []).wq = [.resume] := by decide
-- the only worker died and was reported; its replacement's handle is queued behind a `Pause` and a `Resume`:
-- the same iteration takes the handle, and the connection that arrives afterwards is dispatched to it
def sRepl : St := run demoCfg i0 [.env (.die 0), .env (.connect 0), .poll [.listener 0, .waker] [],
  .env (.cmd .pause), .env (.cmd .resume), .env (.restart 0)]
example : sRepl.wq = [.pause, .resume, .worker 1] ∧ sRepl.handles = [] ∧
    (poll demoCfg sRepl [.waker] []).wq = [] ∧ (poll demoCfg sRepl [.waker] []).handles = [1] ∧
    (poll demoCfg sRepl [.waker] []).paused = false ∧ (poll demoCfg sRepl [.waker] []).fault = none ∧
    (run demoCfg sRepl [.poll [.waker] [], .env (.connect 0), .poll [.listener 0, .waker] []]).dispatched.length = 1 := by
  decide
-- the premise `Ev.waker ∈ order` is needed: a batch of listener events only never looks at the queue
example : (poll demoCfg sPPR [.listener 0, .listener 1] []).wq = [.pause, .pause, .resume] := by decide

end ActixNet.C05
