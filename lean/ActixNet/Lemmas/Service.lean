import ActixNet.Model.Service
/-!
# Lemmas for C11 / C12, service layer

Denotations of a service (`eval`, `pendOf`, `refLog`) and of a future state (`futEval`, `futPend`,
`futLog`), the specification of one `poll` (`poll_spec`) and of the executor (`drive_spec`).
-/
namespace ActixNet.Service

/-- reference composition: what `call s req` must resolve to -/
def eval : Svc → Nat → Res
  | .leaf id _ cok _ _, req => leafRes id cok req
  | .fnSvc id cok, req => leafRes id cok req
  | .map s f, req => match eval s req with | .ok v => .ok (mapFn f v) | .err e => .err e
  | .mapErr s f, req => match eval s req with | .ok v => .ok v | .err e => .err (mapFn f e)
  | .andThen a b, req => match eval a req with | .ok v => eval b v | .err e => .err e
  | .applyFn s .pre k, req => eval s (mapFn k req)
  | .applyFn _ .short k, req => .err (mapFn k req)
  | .applyFn s .post k, req => match eval s req with | .ok v => .ok (mapFn k v) | .err e => .err e
  | .wrap _ s, req => eval s req
  | .mw s t, req => match eval s req with | .ok v => .ok (mapFn t v) | .err e => .err e
  | .reenter _ _ s, req => eval s (reReq req)

/-- number of `Pending` answers before `call s req` resolves -/
def pendOf : Svc → Nat → Nat
  | .leaf _ cp _ _ _, _ => cp
  | .fnSvc _ _, _ => 0
  | .map s _, req => pendOf s req
  | .mapErr s _, req => pendOf s req
  | .andThen a b, req => pendOf a req + (match eval a req with | .ok v => pendOf b v | .err _ => 0)
  | .applyFn s .pre k, req => pendOf s (mapFn k req)
  | .applyFn _ .short _, _ => 0
  | .applyFn s .post _, req => pendOf s req
  | .wrap _ s, req => pendOf s req
  | .mw s _, req => pendOf s req
  | .reenter _ _ s, req => pendOf s (reReq req)

/-- polls of a leaf future: `p` times Pending, then the result; waker ids `w, w+1, …` -/
def pollsLog (id : Nat) (r : Res) : Nat → Nat → List Evt
  | 0, w => [.polled id w (some r)]
  | p+1, w => .polled id w none :: pollsLog id r p (w+1)

/-- reference event log of calling `s` with `req` and driving it, first poll with waker `w` -/
def refLog : Svc → Nat → Nat → List Evt
  | .leaf id cp cok _ _, req, w => .called id req :: pollsLog id (leafRes id cok req) cp w
  | .fnSvc id cok, req, w => [.called id req, .polled id w (some (leafRes id cok req))]
  | .map s f, req, w => refLog s req w ++ (match eval s req with | .ok v => [.mapped f v] | .err _ => [])
  | .mapErr s f, req, w => refLog s req w ++ (match eval s req with | .ok _ => [] | .err e => [.mappedErr f e])
  | .andThen a b, req, w =>
    refLog a req w ++ (match eval a req with | .ok v => refLog b v (w + pendOf a req) | .err _ => [])
  | .applyFn s .pre k, req, w => .wrapFn k req :: refLog s (mapFn k req) w
  | .applyFn _ .short k, req, w => [.wrapFn k req, .polled k w (some (.err (mapFn k req)))]
  | .applyFn s .post k, req, w =>
    .wrapFn k req :: (refLog s req w ++ (match eval s req with | .ok v => [.post k v] | .err _ => []))
  | .wrap _ s, req, w => refLog s req w
  | .mw s t, req, w =>
    .mw t req :: (refLog s req w ++ (match eval s req with | .ok v => [.post t v] | .err _ => []))
  | .reenter _ k s, req, w => reEvts k req ++ refLog s (reReq req) w

def futEval : Fut → Res
  | .leafF _ _ r _ => r
  | .mapF fu f => match futEval fu with | .ok v => .ok (mapFn f v) | .err e => .err e
  | .mapErrF fu f => match futEval fu with | .ok v => .ok v | .err e => .err (mapFn f e)
  | .postF fu t => match futEval fu with | .ok v => .ok (mapFn t v) | .err e => .err e
  | .andThenA fu b => match futEval fu with | .ok v => eval b v | .err e => .err e
  | .andThenB fu => futEval fu

def futPend : Fut → Nat
  | .leafF _ p _ _ => p
  | .mapF fu _ => futPend fu
  | .mapErrF fu _ => futPend fu
  | .postF fu _ => futPend fu
  | .andThenA fu b => futPend fu + (match futEval fu with | .ok v => pendOf b v | .err _ => 0)
  | .andThenB fu => futPend fu

/-- no leaf future inside has completed yet -/
def fresh : Fut → Bool
  | .leafF _ _ _ fin => !fin
  | .mapF fu _ => fresh fu
  | .mapErrF fu _ => fresh fu
  | .postF fu _ => fresh fu
  | .andThenA fu _ => fresh fu
  | .andThenB fu => fresh fu

/-- the events still to come from future state `fu` when the next poll has waker `w` -/
def futLog : Fut → Nat → List Evt
  | .leafF id p r _, w => pollsLog id r p w
  | .mapF fu f, w => futLog fu w ++ (match futEval fu with | .ok v => [.mapped f v] | .err _ => [])
  | .mapErrF fu f, w => futLog fu w ++ (match futEval fu with | .ok _ => [] | .err e => [.mappedErr f e])
  | .postF fu t, w => futLog fu w ++ (match futEval fu with | .ok v => [.post t v] | .err _ => [])
  | .andThenA fu b, w =>
    futLog fu w ++ (match futEval fu with | .ok v => refLog b v (w + futPend fu) | .err _ => [])
  | .andThenB fu, w => futLog fu w

theorem call_spec (s : Svc) (req w : Nat) :
    futEval (call s req).1 = eval s req ∧ futPend (call s req).1 = pendOf s req ∧
    fresh (call s req).1 = true ∧ (call s req).2 ++ futLog (call s req).1 w = refLog s req w := by
  induction s generalizing req w with
  | leaf id cp cok rp rok => simp [call, futEval, eval, futPend, pendOf, fresh, futLog, refLog]
  | fnSvc id cok => simp [call, futEval, eval, futPend, pendOf, fresh, futLog, refLog, pollsLog]
  | map s f ih => have := ih req w; simp [call, futEval, eval, futPend, pendOf, fresh, futLog, refLog]; grind
  | mapErr s f ih => have := ih req w; simp [call, futEval, eval, futPend, pendOf, fresh, futLog, refLog]; grind
  | andThen a b iha ihb =>
    have := iha req w; simp [call, futEval, eval, futPend, pendOf, fresh, futLog, refLog]; grind
  | applyFn s kind k ih =>
    cases kind
    · have := ih (mapFn k req) w; simp [call, eval, pendOf, refLog]; grind
    · simp [call, futEval, eval, futPend, pendOf, fresh, futLog, refLog, pollsLog]
    · have := ih req w; simp [call, futEval, eval, futPend, pendOf, fresh, futLog, refLog]; grind
  | wrap wr s ih => have := ih req w; simp [call, eval, pendOf, refLog]; grind
  | mw s t ih => have := ih req w; simp [call, futEval, eval, futPend, pendOf, fresh, futLog, refLog]; grind
  | reenter wr k s ih => have := ih (reReq req) w; simp [call, eval, pendOf, refLog]; grind

/-- specification of one poll of a fresh future -/
def PollSpec (fu : Fut) (w : Nat) : Prop :=
  fresh fu = true →
    (futPend fu = 0 → (poll fu w).2.1 = some (futEval fu) ∧ (poll fu w).2.2 = futLog fu w) ∧
    (futPend fu ≠ 0 →
        (poll fu w).2.1 = none ∧ futPend (poll fu w).1 + 1 = futPend fu ∧
        futEval (poll fu w).1 = futEval fu ∧ fresh (poll fu w).1 = true ∧
        futLog fu w = (poll fu w).2.2 ++ futLog (poll fu w).1 (w + 1))

theorem poll_spec (fu : Fut) (w : Nat) : PollSpec fu w := by
  fun_induction poll fu w
  all_goals (intro hf)
  all_goals (try simp only [fresh] at hf)
  case case1 => simp at hf
  case case2 => simp [poll, futPend, futEval, futLog, pollsLog]
  case case3 => simp [poll, futPend, futEval, futLog, pollsLog, fresh]
  case case15 =>
    rename_i fu b w fu' v l hx fb' r l3 hpb ih1 ih2
    have hc := call_spec b v w
    have ih1 := ih1 hf; rw [hx] at ih1; simp at ih1
    have ih2 := ih2 hc.2.2.1; rw [hpb] at ih2; simp at ih2
    rw [poll]; simp only [hx, hpb]; simp only [futPend, futEval, futLog, fresh]
    grind
  all_goals
    rename_i hx ih
    have ih := ih hf; rw [poll]; simp only [hx]; simp only [futPend, futEval, futLog, fresh]
    rw [hx] at ih; simp at ih
    grind

theorem drive_spec (n : Nat) (fu : Fut) (w : Nat) (hf : fresh fu = true) (hn : futPend fu < n) :
    drive n fu w = (some (futEval fu), futLog fu w, w + futPend fu) := by
  induction n generalizing fu w with
  | zero => omega
  | succ n ih =>
    have hp := poll_spec fu w hf
    rw [drive]
    by_cases h0 : futPend fu = 0
    · have h := hp.1 h0
      rcases hx : poll fu w with ⟨fu', r, l⟩
      rw [hx] at h; simp at h
      simp [h.1, h.2, h0]
    · have h := hp.2 h0
      rcases hx : poll fu w with ⟨fu', r, l⟩
      rw [hx] at h; simp at h
      obtain ⟨h1, h2, h3, h4, h5⟩ := h
      subst h1
      simp only
      rw [ih fu' (w+1) h4 (by omega)]
      simp [h3, h5]; omega

/-- C11 main: calling `s` and driving the future yields the reference composition and log -/
theorem call_drive (s : Svc) (req w n : Nat) (hn : pendOf s req < n) :
    drive n (call s req).1 w = (some (eval s req), futLog (call s req).1 w, w + pendOf s req) := by
  have hc := call_spec s req w
  rw [drive_spec n _ w hc.2.2.1 (by omega)]
  simp [hc.1, hc.2.1]


/-- (number of Pending answers before `poll_ready` first answers Ready, that answer) -/
def rdyDen : Svc → Nat × Rdy
  | .leaf id _ _ rp rok => (rp, if rok then .ok else .err (rdyErr id))
  | .fnSvc _ _ => (0, .ok)
  | .map s _ => rdyDen s
  | .mapErr s f => match rdyDen s with | (t, .err e) => (t, .err (mapFn f e)) | r => r
  | .andThen a b =>
    match rdyDen a, rdyDen b with
    | (ta, .err ea), (tb, .err eb) => if ta ≤ tb then (ta, .err ea) else (tb, .err eb)
    | (ta, .err ea), _ => (ta, .err ea)
    | _, (tb, .err eb) => (tb, .err eb)
    | (ta, _), (tb, _) => (max ta tb, .ok)
  | .applyFn s _ _ => rdyDen s
  | .wrap _ s => rdyDen s
  | .mw s _ => rdyDen s
  | .reenter _ _ s => rdyDen s

theorem rdyDen_ne_pending (s : Svc) : (rdyDen s).2 ≠ .pending := by
  induction s with
  | leaf id cp cok rp rok => cases rok <;> simp [rdyDen]
  | fnSvc => simp [rdyDen]
  | map s f ih => simpa [rdyDen] using ih
  | mapErr s f ih => simp only [rdyDen]; split <;> simp_all
  | andThen a b iha ihb => simp only [rdyDen]; split <;> (try split) <;> simp_all
  | applyFn s kind k ih => simpa [rdyDen] using ih
  | wrap w s ih => simpa [rdyDen] using ih
  | mw s t ih => simpa [rdyDen] using ih
  | reenter wr k s ih => simpa [rdyDen] using ih

def ReadySpec (s : Svc) (w : Nat) : Prop :=
  ((rdyDen s).1 = 0 → (pollReady s w).2.1 = (rdyDen s).2) ∧
  ((rdyDen s).1 ≠ 0 → (pollReady s w).2.1 = .pending ∧
      (rdyDen (pollReady s w).1).1 + 1 = (rdyDen s).1 ∧ (rdyDen (pollReady s w).1).2 = (rdyDen s).2) ∧
  ((pollReady s w).2.1 = .ok → (pollReady s w).1 = s)

theorem ready_spec (s : Svc) (w : Nat) : ReadySpec s w := by
  fun_induction pollReady s w
  case case1 => simp [ReadySpec, pollReady, rdyDen]
  case case2 => simp [ReadySpec, pollReady, rdyDen]
  case case3 => simp [ReadySpec, pollReady, rdyDen]
  case case4 => simp [ReadySpec, pollReady, rdyDen]
  case case8 =>
    rename_i a b w a' e l hx ih
    have hb := rdyDen_ne_pending b
    simp only [ReadySpec] at ih ⊢; rw [pollReady]; simp only [hx]; rw [hx] at ih; simp only [rdyDen]
    simp at ih ⊢
    grind
  case case9 =>
    rename_i a b w a' ra la hne hx b' e lb hxb iha ihb
    have ha' := rdyDen_ne_pending a'
    have ha := rdyDen_ne_pending a
    simp only [ReadySpec] at iha ihb ⊢; rw [pollReady]; simp only [hx, hxb]; rw [hx] at iha; rw [hxb] at ihb
    simp only [rdyDen]
    simp at iha ihb ⊢
    grind
  case case10 =>
    rename_i a b w a' ra la hne hx b' rb lb hneb hxb iha ihb
    have ha' := rdyDen_ne_pending a'
    have ha := rdyDen_ne_pending a
    have hb' := rdyDen_ne_pending b'
    have hb := rdyDen_ne_pending b
    simp only [ReadySpec] at iha ihb ⊢; rw [pollReady]; simp only [hx, hxb]; rw [hx] at iha; rw [hxb] at ihb
    simp only [rdyDen]
    rcases hda : rdyDen a with ⟨ta, fa⟩
    rcases hdb : rdyDen b with ⟨tb, fb⟩
    rcases hda' : rdyDen a' with ⟨ta', fa'⟩
    rcases hdb' : rdyDen b' with ⟨tb', fb'⟩
    simp only [hda, hdb, hda', hdb'] at iha ihb ha ha' hb hb' ⊢
    cases fa <;> cases fb <;> cases fa' <;> cases fb' <;> simp at ha ha' hb hb' iha ihb ⊢ <;> grind
  all_goals
    rename_i hx ih
    simp only [ReadySpec] at ih ⊢; rw [pollReady]; simp only [hx]; rw [hx] at ih; simp only [rdyDen]
    simp at ih ⊢
    grind


/-- current `poll_ready` step of a scripted leaf -/
def leafStep (id rp : Nat) (rok : Bool) : Rdy :=
  match rp, rok with
  | _+1, _ => .pending
  | 0, true => .ok
  | 0, false => .err (rdyErr id)

/-- current steps of the scripted leaves, left to right -/
def leafSteps : Svc → List Rdy
  | .leaf id _ _ rp rok => [leafStep id rp rok]
  | .fnSvc _ _ => []
  | .map s _ => leafSteps s
  | .mapErr s _ => leafSteps s
  | .andThen a b => leafSteps a ++ leafSteps b
  | .applyFn s _ _ => leafSteps s
  | .wrap _ s => leafSteps s
  | .mw s _ => leafSteps s
  | .reenter _ _ s => leafSteps s

def leafIds : Svc → List Nat
  | .leaf id _ _ _ _ => [id]
  | .fnSvc _ _ => []
  | .map s _ => leafIds s
  | .mapErr s _ => leafIds s
  | .andThen a b => leafIds a ++ leafIds b
  | .applyFn s _ _ => leafIds s
  | .wrap _ s => leafIds s
  | .mw s _ => leafIds s
  | .reenter _ _ s => leafIds s

/-- re-scripting the readiness of a leaf changes the answers of exactly that leaf: the ids (and the
shape) stay, the steps are those of the new script at `i` and the old ones elsewhere -/
theorem rescript_leafIds (s : Svc) (i rp : Nat) (rok : Bool) : leafIds (rescript s i rp rok) = leafIds s := by
  induction s <;> simp_all [rescript, leafIds]
  split <;> simp_all [leafIds]

theorem rescript_leafSteps (s : Svc) (i rp : Nat) (rok : Bool) :
    leafSteps (rescript s i rp rok) =
      (List.zip (leafIds s) (leafSteps s)).map (fun p => if p.1 = i then leafStep i rp rok else p.2) := by
  induction s with
  | leaf id cp cok rp0 rok0 =>
    simp only [rescript, leafIds, leafSteps]
    split <;> simp_all [leafSteps]
  | fnSvc => simp [rescript, leafIds, leafSteps]
  | andThen a b iha ihb =>
    have hl : (leafIds a).length = (leafSteps a).length := by
      clear iha ihb; induction a <;> simp_all [leafIds, leafSteps]
    simp [rescript, leafIds, leafSteps, iha, ihb, List.zip_append hl]
  | _ => simp_all [rescript, leafIds, leafSteps]

theorem rescript_step_mem (s : Svc) (i rp : Nat) (rok : Bool) (hi : i ∈ leafIds s) :
    leafStep i rp rok ∈ leafSteps (rescript s i rp rok) := by
  induction s with
  | leaf id cp cok rp0 rok0 => simp [leafIds] at hi; subst hi; simp [rescript, leafSteps]
  | fnSvc => simp [leafIds] at hi
  | andThen a b iha ihb =>
    simp only [leafIds, List.mem_append] at hi
    simp only [rescript, leafSteps, List.mem_append]
    rcases hi with h | h
    · exact Or.inl (iha h)
    · exact Or.inr (ihb h)
  | _ => simp_all [rescript, leafIds, leafSteps]

/-- the readiness error the combined service must report: the error of the first (left to right)
leaf whose current step is `Err`, mapped by the enclosing `map_err`s -/
def curErr : Svc → Option Nat
  | .leaf id _ _ rp rok => match leafStep id rp rok with | .err e => some e | _ => none
  | .fnSvc _ _ => none
  | .map s _ => curErr s
  | .mapErr s f => (curErr s).map (mapFn f)
  | .andThen a b => match curErr a with | some e => some e | none => curErr b
  | .applyFn s _ _ => curErr s
  | .wrap _ s => curErr s
  | .mw s _ => curErr s
  | .reenter _ _ s => curErr s

/-- (leaf, waker) pairs of the leaf `poll_ready` calls in a log -/
def rdyPolls : List Evt → List (Nat × Nat)
  | [] => []
  | .rdy id w _ :: l => (id, w) :: rdyPolls l
  | _ :: l => rdyPolls l

theorem rdyPolls_append (l1 l2 : List Evt) : rdyPolls (l1 ++ l2) = rdyPolls l1 ++ rdyPolls l2 := by
  induction l1 with
  | nil => rfl
  | cons e l ih => cases e <;> simp [rdyPolls, ih]

def ReadyObs (s : Svc) (w : Nat) : Prop :=
  ((pollReady s w).2.1 = .ok ↔ ∀ st ∈ leafSteps s, st = .ok) ∧
  (curErr s = match (pollReady s w).2.1 with | .err e => some e | _ => none) ∧
  ((∀ e, (pollReady s w).2.1 ≠ .err e) → rdyPolls (pollReady s w).2.2 = (leafIds s).map (fun i => (i, w))) ∧
  ((pollReady s w).2.1 = .pending → .pending ∈ leafSteps s)

theorem ready_obs (s : Svc) (w : Nat) : ReadyObs s w := by
  fun_induction pollReady s w
  case case1 => simp [ReadyObs, pollReady, leafSteps, leafStep, curErr, leafIds, rdyPolls]
  case case2 => simp [ReadyObs, pollReady, leafSteps, leafStep, curErr, leafIds, rdyPolls]
  case case3 => simp [ReadyObs, pollReady, leafSteps, leafStep, curErr, leafIds, rdyPolls]
  case case4 => simp [ReadyObs, pollReady, leafSteps, curErr, leafIds, rdyPolls]
  case case8 =>
    rename_i a b w a' e l hx ih
    simp only [ReadyObs] at ih ⊢; rw [pollReady]; simp only [hx]; rw [hx] at ih
    simp only [leafSteps, curErr, leafIds]
    simp at ih ⊢
    grind
  case case9 =>
    rename_i a b w a' ra la hne hx b' e lb hxb iha ihb
    simp only [ReadyObs] at iha ihb ⊢; rw [pollReady]; simp only [hx, hxb]; rw [hx] at iha; rw [hxb] at ihb
    simp only [leafSteps, curErr, leafIds]
    simp at iha ihb ⊢
    grind
  case case10 =>
    rename_i a b w a' ra la hne hx b' rb lb hneb hxb iha ihb
    simp only [ReadyObs] at iha ihb ⊢; rw [pollReady]; simp only [hx, hxb]; rw [hx] at iha; rw [hxb] at ihb
    simp only [leafSteps, curErr, leafIds, rdyPolls_append]
    simp at iha ihb ⊢
    cases ra <;> cases rb <;> simp at hne hneb iha ihb ⊢ <;> grind
  all_goals
    rename_i hx ih
    simp only [ReadyObs] at ih ⊢; rw [pollReady]; simp only [hx]; rw [hx] at ih
    simp only [leafSteps, curErr, leafIds, rdyPolls_append]
    simp at ih ⊢
    grind


def isRepoll : Evt → Bool
  | .repoll .. => true
  | .irepoll .. => true
  | _ => false

/-- waker identity carried by an event (leaf polls only) -/
def evtWaker : Evt → Option Nat
  | .polled _ w _ => some w
  | .repoll _ w => some w
  | .rdy _ w _ => some w
  | .ipolled _ w _ => some w
  | .irepoll _ w => some w
  | _ => none

theorem pollsLog_no_repoll (id : Nat) (r : Res) (p w : Nat) : ∀ e ∈ pollsLog id r p w, isRepoll e = false := by
  induction p generalizing w with
  | zero => simp [pollsLog, isRepoll]
  | succ p ih => intro e he; simp [pollsLog] at he; rcases he with rfl | he; · rfl
                 · exact ih _ e he

theorem refLog_no_repoll (s : Svc) (req w : Nat) : ∀ e ∈ refLog s req w, isRepoll e = false := by
  induction s generalizing req w with
  | leaf id cp cok rp rok =>
    intro e he; simp [refLog] at he; rcases he with rfl | he; · rfl
    · exact pollsLog_no_repoll _ _ _ _ e he
  | fnSvc id cok => intro e he; simp [refLog] at he; rcases he with rfl | rfl <;> rfl
  | map s f ih =>
    intro e he; simp only [refLog, List.mem_append] at he
    rcases he with he | he
    · exact ih _ _ e he
    · split at he <;> simp at he; subst he; rfl
  | mapErr s f ih =>
    intro e he; simp only [refLog, List.mem_append] at he
    rcases he with he | he
    · exact ih _ _ e he
    · split at he <;> simp at he; subst he; rfl
  | andThen a b iha ihb =>
    intro e he; simp only [refLog, List.mem_append] at he
    rcases he with he | he
    · exact iha _ _ e he
    · split at he
      · exact ihb _ _ e he
      · simp at he
  | applyFn s kind k ih =>
    cases kind
    · intro e he; simp only [refLog, List.mem_cons] at he
      rcases he with rfl | he; · rfl
      · exact ih _ _ e he
    · intro e he; simp [refLog] at he; rcases he with rfl | rfl <;> rfl
    · intro e he; simp only [refLog, List.mem_cons, List.mem_append] at he
      rcases he with rfl | he | he; · rfl
      · exact ih _ _ e he
      · split at he <;> simp at he; subst he; rfl
  | wrap wr s ih => intro e he; simp only [refLog] at he; exact ih _ _ e he
  | mw s t ih =>
    intro e he; simp only [refLog, List.mem_cons, List.mem_append] at he
    rcases he with rfl | he | he; · rfl
    · exact ih _ _ e he
    · split at he <;> simp at he; subst he; rfl
  | reenter wr k s ih =>
    intro e he; simp only [refLog, List.mem_append] at he
    rcases he with he | he
    · simp only [reEvts] at he; split at he <;> simp at he <;> (rcases he with rfl | rfl <;> rfl) <;> (subst he; rfl)
    · exact ih _ _ e he

/-- ids of the stages (`leaf` and `fn_service`) of a service, left to right -/
def stageIds : Svc → List Nat
  | .leaf id _ _ _ _ => [id]
  | .fnSvc id _ => [id]
  | .map s _ => stageIds s
  | .mapErr s _ => stageIds s
  | .andThen a b => stageIds a ++ stageIds b
  | .applyFn s _ _ => stageIds s
  | .wrap _ s => stageIds s
  | .mw s _ => stageIds s
  | .reenter _ _ s => stageIds s

/-- number of `call`s of stage `i` in a log -/
def calledCount (i : Nat) : List Evt → Nat
  | [] => 0
  | .called id _ :: l => (if id = i then 1 else 0) + calledCount i l
  | _ :: l => calledCount i l

theorem calledCount_append (i : Nat) (l1 l2 : List Evt) :
    calledCount i (l1 ++ l2) = calledCount i l1 + calledCount i l2 := by
  induction l1 with
  | nil => simp [calledCount]
  | cons e l ih => cases e <;> simp [calledCount, ih] <;> omega

theorem calledCount_pollsLog (i id : Nat) (r : Res) (p w : Nat) : calledCount i (pollsLog id r p w) = 0 := by
  induction p generalizing w with
  | zero => simp [pollsLog, calledCount]
  | succ p ih => simp [pollsLog, calledCount, ih]

theorem refLog_stage_once (s : Svc) (req w i : Nat) :
    calledCount i (refLog s req w) ≤ (stageIds s).count i := by
  induction s generalizing req w with
  | leaf id cp cok rp rok =>
    simp only [refLog, calledCount, calledCount_pollsLog, stageIds, List.count_cons, List.count_nil]
    split <;> simp_all
  | fnSvc id cok =>
    simp only [refLog, calledCount, stageIds, List.count_cons, List.count_nil]
    split <;> simp_all
  | map s f ih =>
    have := ih req w
    simp only [refLog, calledCount_append, stageIds]; split <;> simp [calledCount] <;> omega
  | mapErr s f ih =>
    have := ih req w
    simp only [refLog, calledCount_append, stageIds]; split <;> simp [calledCount] <;> omega
  | andThen a b iha ihb =>
    have := iha req w
    simp only [refLog, calledCount_append, stageIds, List.count_append]
    split
    · rename_i v _; have := ihb v (w + pendOf a req); omega
    · simp [calledCount]; omega
  | applyFn s kind k ih =>
    cases kind
    · have := ih (mapFn k req) w; simp only [refLog, calledCount, stageIds]; omega
    · simp [refLog, calledCount]
    · have := ih req w
      simp only [refLog, calledCount, calledCount_append, stageIds]; split <;> simp [calledCount] <;> omega
  | wrap wr s ih => have := ih req w; simpa only [refLog, stageIds] using this
  | mw s t ih =>
    have := ih req w
    simp only [refLog, calledCount, calledCount_append, stageIds]; split <;> simp [calledCount] <;> omega
  | reenter wr k s ih =>
    have := ih (reReq req) w
    simp only [refLog, calledCount_append, stageIds, reEvts]; split <;> simp [calledCount] <;> omega

theorem call_log_no_waker (s : Svc) (req : Nat) : ∀ e ∈ (call s req).2, evtWaker e = none := by
  induction s generalizing req with
  | leaf => simp [call, evtWaker]
  | fnSvc => simp [call, evtWaker]
  | map s f ih => simpa [call] using ih req
  | mapErr s f ih => simpa [call] using ih req
  | andThen a b iha ihb => simpa [call] using iha req
  | applyFn s kind k ih =>
    cases kind
    · have := ih (mapFn k req); simp [call, evtWaker]; exact this
    · simp [call, evtWaker]
    · have := ih req; simp [call, evtWaker]; exact this
  | wrap wr s ih => simpa [call] using ih req
  | mw s t ih => have := ih req; simp [call, evtWaker]; exact this
  | reenter wr k s ih =>
    have := ih (reReq req)
    intro e he; simp only [call, List.mem_append] at he
    rcases he with he | he
    · simp only [reEvts] at he; split at he <;> simp at he <;> (rcases he with rfl | rfl <;> rfl) <;> (subst he; rfl)
    · exact this e he

/-- one poll: Pending only if an inner leaf future answered Pending to *this* waker (or a finished
leaf was polled again); every leaf poll of this poll carries the current waker -/
def PollObs (fu : Fut) (w : Nat) : Prop :=
  ((poll fu w).2.1 = none → ∃ id, Evt.polled id w none ∈ (poll fu w).2.2 ∨ Evt.repoll id w ∈ (poll fu w).2.2) ∧
  (∀ e ∈ (poll fu w).2.2, evtWaker e = none ∨ evtWaker e = some w)

theorem poll_obs (fu : Fut) (w : Nat) : PollObs fu w := by
  fun_induction poll fu w
  case case1 => simp [PollObs, poll, evtWaker]
  case case2 => simp [PollObs, poll, evtWaker]
  case case3 => simp [PollObs, poll, evtWaker]
  case case15 =>
    rename_i fu b w fu' v l hx fb' r l3 hpb ih1 ih2
    have hc := call_log_no_waker b v
    simp only [PollObs] at ih1 ih2 ⊢; rw [poll]; simp only [hx, hpb]; rw [hx] at ih1; rw [hpb] at ih2
    simp at ih1 ih2 ⊢
    grind
  all_goals
    rename_i hx ih
    simp only [PollObs] at ih ⊢; rw [poll]; simp only [hx]; rw [hx] at ih
    simp at ih ⊢
    grind [evtWaker]


/-- poll `poll_ready` (fresh waker each time) until it stops answering Pending -/
def readyDrive : Nat → Svc → Nat → Svc × Rdy × Nat
  | 0, s, w => (s, .pending, w)
  | n+1, s, w =>
    match pollReady s w with
    | (s', .pending, _) => readyDrive n s' (w+1)
    | (s', r, _) => (s', r, w)

theorem readyDrive_spec (n : Nat) (s : Svc) (w : Nat) (hn : (rdyDen s).1 < n) :
    (readyDrive n s w).2 = ((rdyDen s).2, w + (rdyDen s).1) := by
  induction n generalizing s w with
  | zero => omega
  | succ n ih =>
    have hs := ready_spec s w
    have hne := rdyDen_ne_pending s
    rw [readyDrive]
    rcases hx : pollReady s w with ⟨s', r, l⟩
    simp only [ReadySpec] at hs; rw [hx] at hs
    by_cases h0 : (rdyDen s).1 = 0
    · have h := hs.1 h0
      simp at h
      cases r with
      | pending => exact absurd h.symm hne
      | ok => simp [← h, h0]
      | err e => simp [← h, h0]
    · have h := hs.2.1 h0
      simp at h
      obtain ⟨h1, h2, h3⟩ := h
      subst h1
      simp only
      rw [ih s' (w+1) (by omega)]
      simp [h3]; omega

end ActixNet.Service
